(* C10: push / pull / peek of the row-level model (model/Cache.v) implement a double-ended queue per
   prefix.  All statements are about arbitrary states (no bounded sweeps); they use the generated selects
   and constants only through proofs/QueueBridge.v. *)
From Coq Require Import Sorted Permutation.
From DC Require Import DCPrelude DCPreludeFacts Val DiskBase SqlBase Gen_Disk Disk Gen_Sql Cache SortFacts QueueBridge.

(* ================================================================== definitions *)
(* the queue of prefix p as the selects see it: rows in the key range with raw = 1, in key order *)
Definition queue_view (p : option (list Z)) (s : st) : list row :=
  sql_order false [ord_sql rkey] (filter (in_range p) (rows s)).

(* number of a queue key, as push computes it *)
Definition knum (p : option (list Z)) (r : row) : Z := qkey_num p (rkey r).

(* a key of the exact form produced by push for prefix p *)
Definition clean_key (p : option (list Z)) (k : sqlval) : Prop :=
  exists n, 0 <= n < key_bound /\ k = qkey_make p n.
(* no foreign key sits in the range of p *)
Definition prefix_clean (p : option (list Z)) (s : st) : Prop :=
  forall r, In r (rows s) -> in_range p r = true -> clean_key p (rkey r).
(* rowids identify rows (INTEGER PRIMARY KEY) *)
Definition st_ok (s : st) : Prop := NoDup (map rowid (rows s)).

(* value files of the rows of the queue: pairwise different, and present *)
Definition file_ids (l : list row) : list Z :=
  flat_map (fun r => match rfile r with Some i => [i] | None => [] end) l.
Definition files_sep (p : option (list Z)) (s : st) : Prop := NoDup (file_ids (queue_view p s)).
Definition readable (c : cfg) (p : option (list Z)) (s : st) : Prop :=
  forall r, In r (queue_view p s) -> fetch_row c s r false <> FIOError.

Definition qinv (c : cfg) (p : option (list Z)) (s : st) : Prop :=
  st_ok s /\ prefix_clean p s /\ files_sep p s /\ readable c p s.

(* the side from which a list is consumed *)
Definition oriented (sd : side) (l : list row) : list row := match sd with Front => l | Back => rev l end.
(* heads that pull/peek drop because their expire time has passed *)
Fixpoint drop_expired (now : Z) (l : list row) : list row :=
  match l with
  | [] => []
  | r :: l' => if pull_expired (expire_time r) now then drop_expired now l' else l
  end.
(* what pull/peek hand back for the first live row *)
Definition deliver (c : cfg) (s : st) (l : list row) : result :=
  match l with
  | [] => RDefault
  | r0 :: _ => RKV (rkey r0) (rraw r0) (fetch_row c s r0 false) (expire_time r0) (rtag r0)
  end.

(* the number push gives to the new item *)
Definition push_num (p : option (list Z)) (sd : side) (view : list row) : Z :=
  match sd with
  | Back => match rev view with r0 :: _ => knum p r0 + 1 | [] => push_start end
  | Front => match view with r0 :: _ => knum p r0 - 1 | [] => push_start end
  end.

(* _cull does nothing: disabled, or nothing is expired and the policy/volume test says no *)
Definition cull_expired_row (now : Z) (r : row) : bool :=
  match expire_time r with Some t => t <? now | None => false end.
Definition cull_quiet (c : cfg) (now pg : Z) (s : st) : Prop :=
  c_cull_limit c = 0 \/
  ((forall r, In r (rows s) -> cull_expired_row now r = false) /\
   (policy_has_cull (c_policy c) = false \/ pg + n_size s < c_size_limit c)).

(* ================================================================== table primitives *)
Lemma rows_t_insert mk s : rows (t_insert mk s) = rows s ++ [mk (next_rowid (rows s))].
Proof. reflexivity. Qed.
Lemma fs_t_insert mk s : fs (t_insert mk s) = fs s.
Proof. reflexivity. Qed.
Lemma n_size_t_insert mk s : n_size (t_insert mk s) = n_size s + rsize (mk (next_rowid (rows s))).
Proof. reflexivity. Qed.

Lemma del_rows_filter wh t : forall cnt sz, fst (fst (del_rows wh t cnt sz)) = filter (fun r => negb (wh r)) t.
Proof.
  induction t as [|r t IH]; intros cnt sz; cbn; auto.
  destruct (wh r); cbn; [apply IH|].
  specialize (IH cnt sz). destruct (del_rows wh t cnt sz) as [[t' c'] s']. cbn in *. rewrite IH. reflexivity.
Qed.

Lemma rows_t_delete wh s : rows (t_delete wh s) = filter (fun r => negb (wh r)) (rows s).
Proof.
  unfold t_delete. pose proof (del_rows_filter wh (rows s) (n_count s) (n_size s)) as H.
  destruct (del_rows wh (rows s) (n_count s) (n_size s)) as [[t' c'] s']. exact H.
Qed.
Lemma fs_t_delete wh s : fs (t_delete wh s) = fs s.
Proof. unfold t_delete. destruct (del_rows wh (rows s) (n_count s) (n_size s)) as [[t' c'] s']. reflexivity. Qed.

Lemma rows_fs_remove1 s o : rows (fs_remove1 s o) = rows s.
Proof. destruct o; reflexivity. Qed.
Lemma rows_fs_remove l : forall s, rows (fs_remove s l) = rows s.
Proof. induction l as [|o l IH]; intros s; cbn; auto. unfold fs_remove in *. cbn. rewrite IH. apply rows_fs_remove1. Qed.
Lemma rows_fs_write s c : rows (fst (fs_write s c)) = rows s.
Proof. destruct c; reflexivity. Qed.
Lemma n_size_fs_write s c : n_size (fst (fs_write s c)) = n_size s.
Proof. destruct c; reflexivity. Qed.

Lemma fs_get_filter_ne f id j : id <> j -> fs_get (filter (fun p => negb (fst p =? j)) f) id = fs_get f id.
Proof.
  intros N. induction f as [|[i c] f IH]; cbn; auto.
  destruct (Z.eqb_spec i j) as [->|Nj]; cbn.
  - destruct (Z.eqb_spec j id); [congruence|exact IH].
  - rewrite IH. reflexivity.
Qed.

(* removing the file of one row leaves the value of every row with another (or no) file readable as before *)
Lemma fetch_row_fs_remove1 c s o r :
  (forall i, rfile r = Some i -> o <> Some i) -> fetch_row c (fs_remove s [o]) r false = fetch_row c s r false.
Proof.
  intros H. unfold fetch_row. f_equal. unfold fs_lookup. destruct (rfile r) as [i|] eqn:F; [|reflexivity].
  destruct o as [j|]; [|reflexivity]. cbn. apply fs_get_filter_ne. intros ->. apply (H j); reflexivity.
Qed.

Lemma fetch_row_same_fs c s s' r : fs s' = fs s -> fetch_row c s' r false = fetch_row c s r false.
Proof. intros E. unfold fetch_row, fs_lookup. rewrite E. reflexivity. Qed.

(* next_rowid is above every rowid in the table *)
Lemma max_opt_ge l : forall x, In x l -> exists m, max_opt l = Some m /\ x <= m.
Proof.
  induction l as [|y l IH]; intros x H; [destruct H|]. destruct H as [->|H]; cbn.
  - destruct (max_opt l); eexists; split; eauto; lia.
  - destruct (IH x H) as [m [-> L]]. eexists; split; eauto. lia.
Qed.

Lemma next_rowid_fresh t r : In r t -> rowid r < next_rowid t.
Proof.
  intros H. unfold next_rowid. destruct (max_opt_ge (map rowid t) (rowid r) (in_map rowid t r H)) as [m [-> L]]. lia.
Qed.

Lemma st_ok_insert mk s : (forall i, rowid (mk i) = i) -> st_ok s -> st_ok (t_insert mk s).
Proof.
  unfold st_ok. intros Hmk N. rewrite rows_t_insert, map_app. cbn. rewrite Hmk.
  apply NoDup_snoc; auto. intros H. apply in_map_iff in H as [r [E Hr]].
  pose proof (next_rowid_fresh _ _ Hr). lia.
Qed.

(* ================================================================== the view *)
Lemma in_queue_view p s r : In r (queue_view p s) <-> In r (rows s) /\ in_range p r = true.
Proof. unfold queue_view, sql_order. rewrite sort_stable_in, filter_In. reflexivity. Qed.

Lemma queue_view_rowids p s : st_ok s -> NoDup (map rowid (queue_view p s)).
Proof. intros N. unfold queue_view, sql_order. apply NoDup_map_sort, NoDup_map_filter, N. Qed.

Lemma queue_view_length p s : (length (queue_view p s) <= length (rows s))%nat.
Proof. unfold queue_view, sql_order. rewrite sort_stable_length. apply filter_length_le. Qed.

Lemma clean_knum p r : clean_key p (rkey r) ->
  exists n, 0 <= n < key_bound /\ rkey r = qkey_make p n /\ knum p r = n.
Proof. intros [n [Hn K]]. exists n. split; [exact Hn|]. split; [exact K|]. unfold knum. rewrite K. apply qkey_num_make, Hn. Qed.

(* on keys made by push, ORDER BY key is the order of the numbers *)
Lemma key_ltb_clean p a b : clean_key p (rkey a) -> clean_key p (rkey b) -> key_ltb a b = ltb_of (knum p) a b.
Proof.
  intros Ha Hb. destruct (clean_knum p a Ha) as [na [Hna [Ka Na]]]. destruct (clean_knum p b Hb) as [nb [Hnb [Kb Nb]]].
  unfold ltb_of. rewrite Na, Nb. unfold key_ltb. cbn [lex_rcmp]. unfold ord_sql. rewrite Ka, Kb, sql_cmp_make by assumption.
  destruct (Z.compare_spec na nb); cbn; symmetry; [apply Z.ltb_ge; lia|apply Z.ltb_lt; lia|apply Z.ltb_ge; lia].
Qed.

Definition view_list (p : option (list Z)) (t : list row) : list row :=
  sort_stable (ltb_of (knum p)) (filter (in_range p) t).

Lemma queue_view_keyed p s : prefix_clean p s -> queue_view p s = view_list p (rows s).
Proof.
  intros C. unfold queue_view, sql_order, view_list. apply sort_stable_ext. intros a b Ha Hb.
  apply filter_In in Ha as [Ha Ra]. apply filter_In in Hb as [Hb Rb]. apply key_ltb_clean; auto.
Qed.

Lemma queue_view_sorted p s : prefix_clean p s -> StronglySorted (le_of (knum p)) (queue_view p s).
Proof. intros C. rewrite queue_view_keyed by exact C. apply sort_stable_sorted. Qed.

(* deleting rows from the table deletes them from the view *)
Lemma view_list_filter p g t : view_list p (filter g t) = filter g (view_list p t).
Proof. unfold view_list. rewrite filter_comm. apply sort_stable_filter. Qed.

Lemma prefix_clean_sub p s s' : (forall r, In r (rows s') -> In r (rows s)) -> prefix_clean p s -> prefix_clean p s'.
Proof. intros Sub C r Hr. apply C, Sub, Hr. Qed.

Lemma oriented_invol sd l : oriented sd (oriented sd l) = l.
Proof. destruct sd; cbn; [apply rev_involutive|reflexivity]. Qed.

Lemma oriented_filter sd g l : oriented sd (filter g l) = filter g (oriented sd l).
Proof. destruct sd; cbn; [symmetry; apply filter_rev'|reflexivity]. Qed.

Lemma oriented_in sd l r : In r (oriented sd l) <-> In r l.
Proof. destruct sd; cbn; [symmetry; apply in_rev|reflexivity]. Qed.

(* ================================================================== _cull *)
Lemma bridge_cull_expired_filter now r :
  truthy (tv_and (Some (is_some (expire_time r))) (tvo_lt (expire_time r) now)) = cull_expired_row now r.
Proof. unfold cull_expired_row. destruct (expire_time r) as [t|]; cbn; [destruct (t <? now)|]; reflexivity. Qed.

Lemma cull_quiet_noop c now pg s : cull_quiet c now pg s -> cull c now pg s = (s, []).
Proof.
  intros [Z0|[NoExp Pol]]; unfold cull.
  - rewrite Z0. reflexivity.
  - destruct (cull_disabled (c_cull_limit c)); [reflexivity|].
    assert (E : cull_expired_select now (c_cull_limit c) (rows s) = []).
    { unfold cull_expired_select. rewrite filter_none.
      - unfold sql_limit. destruct (c_cull_limit c <? 0); [reflexivity|apply take_nil].
      - intros r Hr. rewrite bridge_cull_expired_filter. apply NoExp, Hr. }
    rewrite E. cbn [is_nil negb].
    assert (K : cull_skip_policy (if policy_has_cull (c_policy c) then Some tt else None) (volume pg s) (c_size_limit c) = true).
    { unfold cull_skip_policy. destruct Pol as [P|V]; [rewrite P; reflexivity|].
      apply orb_true_iff. right. apply Z.ltb_lt. exact V. }
    rewrite K. reflexivity.
Qed.

(* ================================================================== push *)
(* the state after the INSERT of push, before _cull *)
Definition push_state (s : st) (p : option (list Z)) (sd_ : side) (expire : option Z) (tag : sqlval) (now : Z)
           (sd : stored) : st :=
  t_insert (columns_insert (qkey_make p (push_num p sd_ (queue_view p s))) true now (expire_at now expire) tag sd
                           (snd (fs_write s (s_file sd))))
           (fst (fs_write s (s_file sd))).
Definition push_row (s : st) (p : option (list Z)) (sd_ : side) (expire : option Z) (tag : sqlval) (now : Z)
           (sd : stored) : row :=
  columns_insert (qkey_make p (push_num p sd_ (queue_view p s))) true now (expire_at now expire) tag sd
                 (snd (fs_write s (s_file sd))) (next_rowid (rows s)).

Lemma op_push_eq c s v read p sd_ expire tag now pg sd :
  store (c_codec c) (c_min_file_size c) v read = StOk sd ->
  op_push c s v read p sd_ expire tag now pg =
  (fs_remove (fst (cull c now pg (push_state s p sd_ expire tag now sd)))
             (snd (cull c now pg (push_state s p sd_ expire tag now sd))),
   RKey (qkey_make p (push_num p sd_ (queue_view p s)))).
Proof.
  intros St. unfold op_push, push_state. rewrite St.
  pose proof (rows_fs_write s (s_file sd)) as R.
  destruct (fs_write s (s_file sd)) as [s1 fid]. cbn [fst snd] in *. cbv zeta. rewrite R.
  assert (N : match (match sd_ with
                     | Back => push_select_back (qkey_min p) (qkey_max p) 1 (rows s)
                     | Front => push_select_front (qkey_min p) (qkey_max p) 1 (rows s)
                     end) with
              | r0 :: _ => match sd_ with Back => qkey_num p (rkey r0) + 1 | Front => qkey_num p (rkey r0) - 1 end
              | [] => push_start
              end = push_num p sd_ (queue_view p s)).
  { unfold push_num, queue_view. rewrite bridge_range_sorted. destruct sd_.
    - rewrite bridge_push_select_back, take_1. destruct (rev (range_sorted p (rows s))); reflexivity.
    - rewrite bridge_push_select_front, take_1. destruct (range_sorted p (rows s)); reflexivity. }
  rewrite N. destruct (cull c now pg _) as [s3 cl2]. reflexivity.
Qed.

Lemma push_row_fields s p sd_ expire tag now sd :
  let r := push_row s p sd_ expire tag now sd in
  rkey r = qkey_make p (push_num p sd_ (queue_view p s)) /\ rraw r = true /\
  expire_time r = expire_at now expire /\ rtag r = tag /\ rmode r = s_mode sd /\ rvalue r = s_col sd /\
  rsize r = s_size sd /\ rfile r = snd (fs_write s (s_file sd)) /\ rowid r = next_rowid (rows s) /\ store_time r = now.
Proof. cbn. repeat split. Qed.

Lemma push_state_rows s p sd_ expire tag now sd :
  rows (push_state s p sd_ expire tag now sd) = rows s ++ [push_row s p sd_ expire tag now sd].
Proof. unfold push_state, push_row. rewrite rows_t_insert, rows_fs_write. reflexivity. Qed.

Lemma valid_num_bound num : push_min_key < num < push_max_key -> 0 <= num < key_bound.
Proof. unfold push_min_key, push_max_key, key_bound. lia. Qed.

(* the heart of push: the new row goes to the end (back) or the beginning (front) of the view *)
Theorem push_view s p sd_ expire tag now sd :
  st_ok s -> prefix_clean p s ->
  push_min_key < push_num p sd_ (queue_view p s) < push_max_key ->
  let s' := push_state s p sd_ expire tag now sd in
  let r := push_row s p sd_ expire tag now sd in
  queue_view p s' = match sd_ with Back => queue_view p s ++ [r] | Front => r :: queue_view p s end
  /\ st_ok s' /\ prefix_clean p s'
  /\ filter (fun x => negb (in_range p x)) (rows s') = filter (fun x => negb (in_range p x)) (rows s).
Proof.
  intros Ok C V. cbv zeta.
  set (r := push_row s p sd_ expire tag now sd). set (s' := push_state s p sd_ expire tag now sd).
  pose proof (valid_num_bound _ V) as B.
  assert (Rows : rows s' = rows s ++ [r]) by apply push_state_rows.
  assert (Kr : rkey r = qkey_make p (push_num p sd_ (queue_view p s))) by reflexivity.
  assert (Nr : knum p r = push_num p sd_ (queue_view p s)) by (unfold knum; rewrite Kr; apply qkey_num_make, B).
  assert (Ir : in_range p r = true).
  { rewrite (in_range_make p r _ B Kr). cbn [rraw r push_row columns_insert row_insert andb].
    apply andb_true_iff. split; apply Z.ltb_lt; lia. }
  assert (C' : prefix_clean p s').
  { intros x Hx Rx. rewrite Rows in Hx. apply in_app_or in Hx as [Hx|[<-|[]]]; [apply C; auto|].
    exists (push_num p sd_ (queue_view p s)). auto. }
  split; [|split; [|split; [exact C'|]]].
  - rewrite (queue_view_keyed p s' C'). unfold view_list. rewrite Rows, filter_app. cbn [filter]. rewrite Ir.
    rewrite sort_stable_snoc. fold (view_list p (rows s)). rewrite <- (queue_view_keyed p s C).
    pose proof (queue_view_sorted p s C) as S. destruct sd_.
    + (* back *) apply insert_stable_last. intros y Hy. unfold ltb_of. apply Z.ltb_ge. rewrite Nr.
      unfold push_num. destruct (rev (queue_view p s)) as [|m t] eqn:Rv.
      * apply (f_equal (@rev row)) in Rv. rewrite rev_involutive in Rv. rewrite Rv in Hy. destruct Hy.
      * pose proof (sorted_last_max (knum p) _ m t S Rv y Hy). lia.
    + (* front *) unfold push_num in Nr. destruct (queue_view p s) as [|m t] eqn:Vw; [reflexivity|].
      cbn [insert_stable]. unfold ltb_of at 1. rewrite Nr. destruct (Z.ltb_spec (knum p m - 1) (knum p m)); [reflexivity|lia].
  - unfold s', push_state. apply st_ok_insert; [reflexivity|]. unfold st_ok in *. rewrite rows_fs_write. exact Ok.
  - rewrite Rows, filter_app. cbn [filter]. rewrite Ir. cbn [negb]. apply app_nil_r.
Qed.

(* _cull does not interfere: sufficient conditions in terms of the state before the push *)
Lemma push_cull_quiet c s p sd_ expire tag now pg sd :
  c_cull_limit c = 0 \/
  ((forall r, In r (rows s) -> cull_expired_row now r = false) /\
   match expire with Some d => 0 <= d | None => True end /\
   (policy_has_cull (c_policy c) = false \/ pg + n_size s + s_size sd < c_size_limit c)) ->
  cull_quiet c now pg (push_state s p sd_ expire tag now sd).
Proof.
  intros [Z0|[NoExp [Ex Pol]]]; [left; exact Z0|right]. split.
  - intros r Hr. rewrite push_state_rows in Hr. apply in_app_or in Hr as [Hr|[<-|[]]]; [apply NoExp, Hr|].
    unfold cull_expired_row. cbn. destruct expire as [d|]; cbn; [apply Z.ltb_ge; lia|reflexivity].
  - destruct Pol as [P|V]; [left; exact P|right]. unfold push_state. rewrite n_size_t_insert, n_size_fs_write.
    cbn. lia.
Qed.

Theorem push_refines c s v read p sd_ expire tag now pg sd :
  st_ok s -> prefix_clean p s ->
  store (c_codec c) (c_min_file_size c) v read = StOk sd ->
  push_min_key < push_num p sd_ (queue_view p s) < push_max_key ->
  cull_quiet c now pg (push_state s p sd_ expire tag now sd) ->
  let s' := push_state s p sd_ expire tag now sd in
  let r := push_row s p sd_ expire tag now sd in
  op_push c s v read p sd_ expire tag now pg = (s', RKey (rkey r))
  /\ rows s' = rows s ++ [r]
  /\ queue_view p s' = match sd_ with Back => queue_view p s ++ [r] | Front => r :: queue_view p s end
  /\ st_ok s' /\ prefix_clean p s'.
Proof.
  intros Ok C St V Q. cbv zeta. destruct (push_view s p sd_ expire tag now sd Ok C V) as [Vw [Ok' [C' _]]].
  rewrite (op_push_eq _ _ _ _ _ _ _ _ _ _ _ St), (cull_quiet_noop _ _ _ _ Q). cbn [fst snd].
  repeat split; auto. apply push_state_rows.
Qed.

(* ================================================================== pull / peek *)
(* rows outside the range of p are untouched *)
Definition frame (p : option (list Z)) (s s' : st) : Prop :=
  filter (fun x => negb (in_range p x)) (rows s') = filter (fun x => negb (in_range p x)) (rows s).

Lemma queue_view_rows p s s' : rows s' = rows s -> queue_view p s' = queue_view p s.
Proof. unfold queue_view. intros ->. reflexivity. Qed.

Lemma file_ids_app l1 l2 : file_ids (l1 ++ l2) = file_ids l1 ++ file_ids l2.
Proof. unfold file_ids. apply flat_map_app. Qed.

Lemma file_ids_perm l l' : Permutation l l' -> Permutation (file_ids l) (file_ids l').
Proof.
  induction 1; cbn.
  - constructor.
  - apply Permutation_app_head. assumption.
  - unfold file_ids. cbn. rewrite !app_assoc. apply Permutation_app_tail, Permutation_app_comm.
  - etransitivity; eassumption.
Qed.

Lemma file_ids_oriented sd l : NoDup (file_ids l) -> NoDup (file_ids (oriented sd l)).
Proof.
  destruct sd; cbn; auto. intros N. eapply Permutation_NoDup; [|exact N]. apply file_ids_perm, Permutation_rev.
Qed.

Lemma file_ids_in r l i : In r l -> rfile r = Some i -> In i (file_ids l).
Proof. intros Hr F. unfold file_ids. apply in_flat_map. exists r. rewrite F. cbn. auto. Qed.

Lemma rowids_oriented sd l : NoDup (map rowid l) -> NoDup (map rowid (oriented sd l)).
Proof. destruct sd; cbn; auto. rewrite map_rev. apply NoDup_rev. Qed.

Lemma drop_expired_in now l r : In r (drop_expired now l) -> In r l.
Proof.
  induction l as [|x l IH]; cbn; auto. destruct (pull_expired (expire_time x) now); auto.
Qed.

Lemma drop_expired_idem now l : drop_expired now (drop_expired now l) = drop_expired now l.
Proof.
  induction l as [|x l IH]; cbn; auto. destruct (pull_expired (expire_time x) now) eqn:E; auto.
  cbn. rewrite E. reflexivity.
Qed.

(* one DELETE of the row at the consumed end of the view, followed by the removal of its file *)
Lemma delete_head c p sd s r0 L (wh : row -> bool) :
  (forall r, wh r = (rowid r =? rowid r0)) ->
  qinv c p s -> oriented sd (queue_view p s) = r0 :: L ->
  let s1 := t_delete wh s in
  let s2 := fs_remove s1 [rfile r0] in
  oriented sd (queue_view p s2) = L /\ qinv c p s2 /\
  (forall r, In r L -> fetch_row c s2 r false = fetch_row c s r false) /\
  fetch_row c s1 r0 false = fetch_row c s r0 false /\
  frame p s s2 /\ (forall r, In r (rows s2) -> In r (rows s)).
Proof.
  intros Wh [Ok [C [Fs Rd]]] O. cbv zeta.
  set (s1 := t_delete wh s). set (s2 := fs_remove s1 [rfile r0]).
  set (g := fun r : row => negb (rowid r =? rowid r0)).
  assert (R1 : rows s1 = filter g (rows s)).
  { unfold s1. rewrite rows_t_delete. apply filter_ext. intros r. unfold g. rewrite Wh. reflexivity. }
  assert (R2 : rows s2 = filter g (rows s)) by (unfold s2; rewrite rows_fs_remove; exact R1).
  assert (Sub : forall r, In r (rows s2) -> In r (rows s)).
  { intros r Hr. rewrite R2 in Hr. apply filter_In in Hr. tauto. }
  assert (C2 : prefix_clean p s2) by (eapply prefix_clean_sub; eauto).
  assert (In0 : In r0 (queue_view p s)).
  { apply (oriented_in sd). rewrite O. left; reflexivity. }
  assert (V2 : oriented sd (queue_view p s2) = L).
  { rewrite (queue_view_keyed p s2 C2), R2, view_list_filter, <- (queue_view_keyed p s C), oriented_filter, O.
    apply (filter_key_head rowid). rewrite <- O. apply rowids_oriented, queue_view_rowids, Ok. }
  assert (FsO : NoDup (file_ids (r0 :: L))) by (rewrite <- O; apply file_ids_oriented, Fs).
  assert (Sep : forall r i, In r L -> rfile r = Some i -> rfile r0 <> Some i).
  { intros r i Hr Fi F0. change (r0 :: L) with ([r0] ++ L) in FsO. rewrite file_ids_app in FsO.
    apply (NoDup_app_disj _ _ i FsO).
    - apply (file_ids_in r0); cbn; auto.
    - apply (file_ids_in r); auto. }
  assert (Fr : forall r, In r L -> fetch_row c s2 r false = fetch_row c s r false).
  { intros r Hr. unfold s2. rewrite fetch_row_fs_remove1.
    - apply fetch_row_same_fs. apply fs_t_delete.
    - intros i Fi. apply (Sep r i Hr Fi). }
  split; [exact V2|]. split; [|split; [exact Fr|split; [apply fetch_row_same_fs, fs_t_delete|split; [|exact Sub]]]].
  - split; [|split; [exact C2|split]].
    + unfold st_ok. rewrite R2. apply NoDup_map_filter, Ok.
    + unfold files_sep. rewrite <- (oriented_invol sd (queue_view p s2)), V2. apply file_ids_oriented.
      change (r0 :: L) with ([r0] ++ L) in FsO. rewrite file_ids_app in FsO. apply NoDup_app_r in FsO. exact FsO.
    + intros r Hr. assert (HL : In r L) by (rewrite <- V2; apply oriented_in; exact Hr).
      rewrite (Fr r HL). apply Rd. apply (oriented_in sd). rewrite O. right; exact HL.
  - unfold frame. rewrite R2. apply filter_absorb. intros x Hx Nx. unfold g. apply negb_true_iff, Z.eqb_neq. intros E.
    apply in_queue_view in In0 as [Hr0 Ir0].
    assert (x = r0) by (eapply (map_inj_in rowid); eauto). subst x. rewrite Ir0 in Nx. discriminate.
Qed.

Lemma oriented_select p sd s :
  match sd with Front => range_sorted p (rows s) | Back => rev (range_sorted p (rows s)) end = oriented sd (queue_view p s).
Proof. destruct sd; reflexivity. Qed.

Lemma frame_refl p s : frame p s s.
Proof. reflexivity. Qed.
Lemma frame_trans p s1 s2 s3 : frame p s1 s2 -> frame p s2 s3 -> frame p s1 s3.
Proof. unfold frame. intros A B. rewrite B. exact A. Qed.

(* pull: drop the expired heads, hand out the first live row and remove it *)
Lemma pull_loop_spec c p sd now : forall fuel s s' res,
  qinv c p s -> (length (queue_view p s) < fuel)%nat ->
  op_pull_loop fuel c s p sd now = (s', res) ->
  let L := drop_expired now (oriented sd (queue_view p s)) in
  res = deliver c s L /\ oriented sd (queue_view p s') = tl L /\ qinv c p s' /\
  (forall r, In r (tl L) -> fetch_row c s' r false = fetch_row c s r false) /\
  frame p s s' /\ (forall r, In r (rows s') -> In r (rows s)).
Proof.
  induction fuel as [|f IH]; intros s s' res I Len E; [lia|]. cbv zeta.
  cbn [op_pull_loop] in E. rewrite bridge_pull_select, oriented_select, take_1 in E.
  destruct (oriented sd (queue_view p s)) as [|r0 L0] eqn:O.
  - inversion E; subst s' res. rewrite O. cbn. repeat split; auto; apply I.
  - assert (Len0 : (length (queue_view p s) = S (length L0))%nat).
    { rewrite <- (oriented_invol sd (queue_view p s)), O. destruct sd; cbn [oriented]; rewrite ?rev_length; reflexivity. }
    destruct (delete_head c p sd s r0 L0 (pull_delete (rowid r0) (rows s)) (fun r => bridge_pull_delete _ _ r) I O)
      as [V2 [I2 [Fr [F0 [Frm Sub]]]]].
    cbn [drop_expired]. destruct (pull_expired (expire_time r0) now) eqn:X.
    + assert (Len2 : (length (queue_view p (fs_remove (t_delete (pull_delete (rowid r0) (rows s)) s) [rfile r0])) < f)%nat).
      { rewrite <- (oriented_invol sd (queue_view p _)), V2. destruct sd; cbn [oriented]; rewrite ?rev_length; lia. }
      destruct (IH _ _ _ I2 Len2 E) as [Rs [Vs [Is [Frs [Frms Subs]]]]]. rewrite V2 in Rs, Vs, Frs.
      split; [|split; [exact Vs|split; [exact Is|split; [|split]]]].
      * rewrite Rs. destruct (drop_expired now L0) as [|r1 L1] eqn:D; [reflexivity|]. cbn [deliver].
        rewrite Fr; [reflexivity|]. apply (drop_expired_in now). rewrite D. left; reflexivity.
      * intros r Hr. rewrite (Frs r Hr). apply Fr. apply (drop_expired_in now).
        destruct (drop_expired now L0); [destruct Hr|right; exact Hr].
      * eapply frame_trans; eauto.
      * auto.
    + assert (Rd0 : fetch_row c s r0 false <> FIOError).
      { destruct I as [_ [_ [_ Rd]]]. apply Rd. apply (oriented_in sd). rewrite O. left; reflexivity. }
      rewrite F0 in E. cbn [tl deliver].
      destruct (fetch_row c s r0 false) eqn:Fv; try congruence; inversion E; subst; repeat split; auto; apply I2.
Qed.

(* peek: drop the expired heads, show the first live row and keep it *)
Lemma peek_loop_spec c p sd now : forall fuel s s' res,
  qinv c p s -> (length (queue_view p s) < fuel)%nat ->
  op_peek_loop fuel c s p sd now = (s', res) ->
  let L := drop_expired now (oriented sd (queue_view p s)) in
  res = deliver c s L /\ oriented sd (queue_view p s') = L /\ qinv c p s' /\
  (forall r, In r L -> fetch_row c s' r false = fetch_row c s r false) /\
  frame p s s' /\ (forall r, In r (rows s') -> In r (rows s)).
Proof.
  induction fuel as [|f IH]; intros s s' res I Len E; [lia|]. cbv zeta.
  cbn [op_peek_loop] in E. rewrite bridge_peek_select, oriented_select, take_1 in E.
  destruct (oriented sd (queue_view p s)) as [|r0 L0] eqn:O.
  - inversion E; subst s' res. rewrite O. cbn. repeat split; auto; apply I.
  - assert (Len0 : (length (queue_view p s) = S (length L0))%nat).
    { rewrite <- (oriented_invol sd (queue_view p s)), O. destruct sd; cbn [oriented]; rewrite ?rev_length; reflexivity. }
    cbn [drop_expired]. rewrite bridge_peek_expired in E. destruct (pull_expired (expire_time r0) now) eqn:X.
    + destruct (delete_head c p sd s r0 L0 (peek_delete (rowid r0) (rows s)) (fun r => bridge_peek_delete _ _ r) I O)
        as [V2 [I2 [Fr [F0 [Frm Sub]]]]].
      assert (Len2 : (length (queue_view p (fs_remove (t_delete (peek_delete (rowid r0) (rows s)) s) [rfile r0])) < f)%nat).
      { rewrite <- (oriented_invol sd (queue_view p _)), V2. destruct sd; cbn [oriented]; rewrite ?rev_length; lia. }
      destruct (IH _ _ _ I2 Len2 E) as [Rs [Vs [Is [Frs [Frms Subs]]]]]. rewrite V2 in Rs, Vs, Frs.
      split; [|split; [exact Vs|split; [exact Is|split; [|split]]]].
      * rewrite Rs. destruct (drop_expired now L0) as [|r1 L1] eqn:D; [reflexivity|]. cbn [deliver].
        rewrite Fr; [reflexivity|]. apply (drop_expired_in now). rewrite D. left; reflexivity.
      * intros r Hr. rewrite (Frs r Hr). apply Fr. apply (drop_expired_in now). exact Hr.
      * eapply frame_trans; eauto.
      * auto.
    + assert (Rd0 : fetch_row c s r0 false <> FIOError).
      { destruct I as [_ [_ [_ Rd]]]. apply Rd. apply (oriented_in sd). rewrite O. left; reflexivity. }
      cbn [deliver].
      destruct (fetch_row c s r0 false) eqn:Fv; try congruence; inversion E; subst; repeat split; auto; apply I.
Qed.

(* ================================================================== top-level statements for pull / peek *)
Theorem pull_refines c s p sd now s' res :
  qinv c p s -> op_pull c s p sd now = (s', res) ->
  let L := drop_expired now (oriented sd (queue_view p s)) in
  res = deliver c s L /\ oriented sd (queue_view p s') = tl L /\ qinv c p s' /\
  (forall r, In r (tl L) -> fetch_row c s' r false = fetch_row c s r false) /\ frame p s s'.
Proof.
  intros I E. unfold op_pull in E.
  assert (Len : (length (queue_view p s) < S (length (rows s)))%nat) by (pose proof (queue_view_length p s); lia).
  destruct (pull_loop_spec c p sd now _ _ _ _ I Len E) as [A [B [C [D [F _]]]]]. cbv zeta. auto.
Qed.

Theorem peek_refines c s p sd now s' res :
  qinv c p s -> op_peek c s p sd now = (s', res) ->
  let L := drop_expired now (oriented sd (queue_view p s)) in
  res = deliver c s L /\ oriented sd (queue_view p s') = L /\ qinv c p s' /\
  (forall r, In r L -> fetch_row c s' r false = fetch_row c s r false) /\ frame p s s'.
Proof.
  intros I E. unfold op_peek in E.
  assert (Len : (length (queue_view p s) < S (length (rows s)))%nat) by (pose proof (queue_view_length p s); lia).
  destruct (peek_loop_spec c p sd now _ _ _ _ I Len E) as [A [B [C [D [F _]]]]]. cbv zeta. auto.
Qed.

(* peek returns what the next pull from that side returns, and removes only heads whose time has passed *)
Theorem peek_is_next_pull c s p sd now :
  qinv c p s ->
  snd (op_peek c s p sd now) = snd (op_pull c s p sd now)
  /\ snd (op_pull c (fst (op_peek c s p sd now)) p sd now) = snd (op_peek c s p sd now)
  /\ oriented sd (queue_view p (fst (op_peek c s p sd now))) = drop_expired now (oriented sd (queue_view p s)).
Proof.
  intros I.
  destruct (op_peek c s p sd now) as [s1 r1] eqn:E1. destruct (op_pull c s p sd now) as [s2 r2] eqn:E2.
  destruct (peek_refines _ _ _ _ _ _ _ I E1) as [A1 [B1 [C1 [D1 _]]]].
  destruct (pull_refines _ _ _ _ _ _ _ I E2) as [A2 _]. cbn [fst snd].
  split; [congruence|]. split; [|exact B1].
  destruct (op_pull c s1 p sd now) as [s3 r3] eqn:E3.
  destruct (pull_refines _ _ _ _ _ _ _ C1 E3) as [A3 _]. cbn [snd].
  rewrite A3, A1, B1, drop_expired_idem.
  destruct (drop_expired now (oriented sd (queue_view p s))) as [|r0 L] eqn:D; [reflexivity|]. cbn [deliver].
  rewrite D1; [reflexivity|left; reflexivity].
Qed.

(* ================================================================== isolation *)
(* frame without any assumption on what sits in the range of p: the row selected by pull/peek lies in the
   range of p, and the DELETE addresses exactly that row *)
Lemma delete_selected_frame p s r0 (wh : row -> bool) :
  (forall r, wh r = (rowid r =? rowid r0)) -> st_ok s -> In r0 (rows s) -> in_range p r0 = true ->
  frame p s (t_delete wh s) /\ st_ok (t_delete wh s).
Proof.
  intros Wh Ok H0 I0. unfold frame, st_ok. rewrite rows_t_delete. split; [|apply NoDup_map_filter, Ok].
  apply filter_absorb. intros x Hx Nx. rewrite Wh. apply negb_true_iff, Z.eqb_neq. intros E.
  assert (x = r0) by (eapply (map_inj_in rowid); eauto). subst x. rewrite I0 in Nx. discriminate.
Qed.

Lemma frame_rows p s s1 s2 : rows s2 = rows s1 -> frame p s s1 -> frame p s s2.
Proof. unfold frame. intros ->. auto. Qed.
Lemma st_ok_rows s1 s2 : rows s2 = rows s1 -> st_ok s1 -> st_ok s2.
Proof. unfold st_ok. intros ->. auto. Qed.

Lemma selected_in_range p sd t r0 l :
  take 1 (match sd with Front => range_sorted p t | Back => rev (range_sorted p t) end) = r0 :: l ->
  In r0 t /\ in_range p r0 = true.
Proof.
  rewrite take_1. intros E.
  assert (H : In r0 (range_sorted p t)).
  { destruct sd.
    - apply in_rev. destruct (rev (range_sorted p t)); inversion E; subst. left; reflexivity.
    - destruct (range_sorted p t); inversion E; subst. left; reflexivity. }
  unfold range_sorted in H. apply sort_stable_in, filter_In in H. exact H.
Qed.

Lemma pull_loop_frame c p sd now : forall fuel s, st_ok s ->
  frame p s (fst (op_pull_loop fuel c s p sd now)) /\ st_ok (fst (op_pull_loop fuel c s p sd now)).
Proof.
  induction fuel as [|f IH]; intros s Ok; [split; [apply frame_refl|exact Ok]|].
  cbn [op_pull_loop]. rewrite bridge_pull_select.
  destruct (take 1 _) as [|r0 l] eqn:Sel; [split; [apply frame_refl|exact Ok]|].
  destruct (selected_in_range _ _ _ _ _ Sel) as [H0 I0].
  destruct (delete_selected_frame p s r0 (pull_delete (rowid r0) (rows s)) (fun r => bridge_pull_delete _ _ r) Ok H0 I0) as [F1 Ok1].
  set (s2 := fs_remove (t_delete (pull_delete (rowid r0) (rows s)) s) [rfile r0]).
  assert (F2 : frame p s s2) by (eapply frame_rows; [apply rows_fs_remove|exact F1]).
  assert (Ok2 : st_ok s2) by (eapply st_ok_rows; [apply rows_fs_remove|exact Ok1]).
  destruct (IH s2 Ok2) as [F3 Ok3].
  destruct (pull_expired (expire_time r0) now); [split; [eapply frame_trans; eauto|exact Ok3]|].
  destruct (fetch_row c _ r0 false); cbn [fst]; try (split; [exact F2|exact Ok2]).
  split; [eapply frame_trans; eauto|exact Ok3].
Qed.

Lemma peek_loop_frame c p sd now : forall fuel s, st_ok s ->
  frame p s (fst (op_peek_loop fuel c s p sd now)) /\ st_ok (fst (op_peek_loop fuel c s p sd now)).
Proof.
  induction fuel as [|f IH]; intros s Ok; [split; [apply frame_refl|exact Ok]|].
  cbn [op_peek_loop]. rewrite bridge_peek_select.
  destruct (take 1 _) as [|r0 l] eqn:Sel; [split; [apply frame_refl|exact Ok]|].
  destruct (selected_in_range _ _ _ _ _ Sel) as [H0 I0].
  destruct (peek_expired (expire_time r0) now).
  - destruct (delete_selected_frame p s r0 (peek_delete (rowid r0) (rows s)) (fun r => bridge_peek_delete _ _ r) Ok H0 I0) as [F1 Ok1].
    set (s2 := fs_remove (t_delete (peek_delete (rowid r0) (rows s)) s) [rfile r0]).
    assert (F2 : frame p s s2) by (eapply frame_rows; [apply rows_fs_remove|exact F1]).
    assert (Ok2 : st_ok s2) by (eapply st_ok_rows; [apply rows_fs_remove|exact Ok1]).
    destruct (IH s2 Ok2) as [F3 Ok3]. split; [eapply frame_trans; eauto|exact Ok3].
  - destruct (fetch_row c s r0 false); cbn [fst]; split; try apply frame_refl; exact Ok.
Qed.

(* prefixes whose ranges cannot meet: neither "p-" followed by a digit is a prefix of "q-" nor the converse *)
Definition digit_ext (P Q : list Z) : Prop := exists c t, is_digit c = true /\ Q = P ++ c :: t.
Definition prefix_disjoint (p q : option (list Z)) : Prop :=
  match p, q with
  | Some a, Some b => a <> b /\ ~ digit_ext (a ++ [45]) (b ++ [45]) /\ ~ digit_ext (b ++ [45]) (a ++ [45])
  | None, None => False
  | _, _ => True
  end.

Lemma prefix_disjoint_sym p q : prefix_disjoint p q -> prefix_disjoint q p.
Proof. destruct p, q; cbn; auto. intros [A [B C]]. repeat split; auto. Qed.

(* two text strings that both continue a "prefix-" with a digit *)
Lemma shapes_clash a b c1 r1 c2 r2 :
  a <> b -> ~ digit_ext (a ++ [45]) (b ++ [45]) -> ~ digit_ext (b ++ [45]) (a ++ [45]) ->
  is_digit c1 = true -> is_digit c2 = true ->
  (a ++ [45]) ++ c1 :: r1 = (b ++ [45]) ++ c2 :: r2 -> False.
Proof.
  intros Ne N1 N2 D1 D2 E. apply app_eq_app in E as [l [[E1 E2]|[E1 E2]]].
  - destruct l as [|x l].
    + rewrite app_nil_r in E1. apply app_inj_tail in E1 as [E1 _]. contradiction.
    + cbn in E2. inversion E2; subst x. apply N2. exists c2, l. auto.
  - destruct l as [|x l].
    + rewrite app_nil_r in E1. apply app_inj_tail in E1 as [E1 _]. congruence.
    + cbn in E2. inversion E2; subst x. apply N1. exists c1, l. auto.
Qed.

Lemma sql_cmp_class_lt a b : sql_class a < sql_class b -> sql_cmp a b = Lt.
Proof. intros H. unfold sql_cmp. unfold Z.lt in H. rewrite H. reflexivity. Qed.
Lemma sql_cmp_class_gt a b : sql_class a > sql_class b -> sql_cmp a b = Gt.
Proof. intros H. unfold sql_cmp. unfold Z.gt in H. rewrite H. reflexivity. Qed.

(* no key lies in the ranges of two disjoint prefixes *)
Theorem ranges_disjoint p q r : prefix_disjoint p q -> in_range p r = true -> in_range q r = false.
Proof.
  intros D Ip. destruct (in_range q r) eqn:Iq; [exfalso|reflexivity].
  apply in_range_spec in Ip as [_ [Gp Lp]]. apply in_range_spec in Iq as [_ [Gq Lq]].
  destruct p as [a|], q as [b|]; cbn [prefix_disjoint] in D; try contradiction.
  - destruct (rkey r) as [|z|f|s|bb] eqn:K;
      try (rewrite sql_cmp_class_lt in Gp by (cbn; lia); discriminate);
      try (rewrite sql_cmp_class_gt in Lp by (cbn; lia); discriminate).
    destruct (text_in_range_shape a s Gp Lp) as [c1 [r1 [D1 E1]]].
    destruct (text_in_range_shape b s Gq Lq) as [c2 [r2 [D2 E2]]].
    destruct D as [Ne [N1 N2]]. rewrite E1 in E2. exact (shapes_clash a b c1 r1 c2 r2 Ne N1 N2 D1 D2 E2).
  - destruct (rkey r) as [|z|f|s|bb] eqn:K;
      try (rewrite sql_cmp_class_lt in Gp by (cbn; lia); discriminate);
      try (rewrite sql_cmp_class_gt in Lp by (cbn; lia); discriminate).
    rewrite sql_cmp_class_gt in Lq by (cbn; lia). discriminate.
  - destruct (rkey r) as [|z|f|s|bb] eqn:K;
      try (rewrite sql_cmp_class_lt in Gq by (cbn; lia); discriminate);
      try (rewrite sql_cmp_class_gt in Lq by (cbn; lia); discriminate).
    rewrite sql_cmp_class_gt in Lp by (cbn; lia). discriminate.
Qed.

(* a key made by push for p never lies in the range of a disjoint q, whatever its number *)
Lemma made_key_outside p q r n : prefix_disjoint p q -> rkey r = qkey_make p n -> in_range q r = false.
Proof.
  intros D K. destruct (in_range q r) eqn:Iq; [exfalso|reflexivity].
  apply in_range_spec in Iq as [_ [Gq Lq]]. rewrite K in Gq, Lq.
  destruct p as [a|], q as [b|]; cbn [prefix_disjoint qkey_make] in *; try contradiction.
  - destruct (text_in_range_shape b _ Gq Lq) as [c2 [r2 [D2 E2]]].
    destruct D as [Ne [N1 N2]].
    assert (Hd : exists c1 r1, is_digit c1 = true /\ digits_pad (Z.to_nat push_key_digits) n = c1 :: r1).
    { change (Z.to_nat push_key_digits) with 15%nat.
      destruct (digits_pad 15 n) as [|c1 r1] eqn:Dg; [apply (f_equal (@length Z)) in Dg; rewrite digits_pad_length in Dg; discriminate|].
      exists c1, r1. split; [|reflexivity].
      assert (R : 48 <= c1 <= 57) by (apply (digits_pad_range 15 n); rewrite Dg; left; reflexivity).
      unfold is_digit. apply andb_true_iff. split; apply Z.leb_le; lia. }
    destruct Hd as [c1 [r1 [D1 E1]]]. rewrite E1 in E2. rewrite app_assoc in E2. exact (shapes_clash a b c1 r1 c2 r2 Ne N1 N2 D1 D2 E2).
  - rewrite sql_cmp_class_gt in Lq by (cbn; lia). discriminate.
  - rewrite sql_cmp_class_lt in Gq by (cbn; lia). discriminate.
Qed.

Lemma view_of_frame p q s s' :
  (forall r, in_range q r = true -> in_range p r = false) -> frame p s s' -> queue_view q s' = queue_view q s.
Proof.
  intros D F. unfold queue_view. f_equal.
  rewrite <- (filter_absorb (in_range q) (fun x => negb (in_range p x)) (rows s')),
          <- (filter_absorb (in_range q) (fun x => negb (in_range p x)) (rows s)).
  - unfold frame in F. rewrite F. reflexivity.
  - intros x _ Hx. rewrite (D x Hx). reflexivity.
  - intros x _ Hx. rewrite (D x Hx). reflexivity.
Qed.

(* queues with disjoint prefixes, and every row outside the range of p, are untouched by operations on p *)
Theorem isolation_partial c s p q :
  prefix_disjoint p q -> st_ok s ->
  (forall sd now, let s' := fst (op_pull c s p sd now) in queue_view q s' = queue_view q s /\ frame p s s') /\
  (forall sd now, let s' := fst (op_peek c s p sd now) in queue_view q s' = queue_view q s /\ frame p s s') /\
  (forall v read sd_ expire tag now pg sd,
     store (c_codec c) (c_min_file_size c) v read = StOk sd ->
     cull_quiet c now pg (push_state s p sd_ expire tag now sd) ->
     let s' := fst (op_push c s v read p sd_ expire tag now pg) in
     queue_view q s' = queue_view q s /\
     exists r, rows s' = rows s ++ [r] /\ RKey (rkey r) = snd (op_push c s v read p sd_ expire tag now pg)).
Proof.
  intros D Ok.
  assert (DQ : forall r, in_range q r = true -> in_range p r = false).
  { intros r Hq. destruct (in_range p r) eqn:Hp; [|reflexivity].
    rewrite (ranges_disjoint p q r D Hp) in Hq. discriminate. }
  split; [|split].
  - intros sd now. cbv zeta. destruct (pull_loop_frame c p sd now (S (length (rows s))) s Ok) as [F _].
    split; [eapply view_of_frame; eauto|exact F].
  - intros sd now. cbv zeta. destruct (peek_loop_frame c p sd now (S (length (rows s))) s Ok) as [F _].
    split; [eapply view_of_frame; eauto|exact F].
  - intros v read sd_ expire tag now pg sd St Q. cbv zeta.
    rewrite (op_push_eq _ _ _ _ _ _ _ _ _ _ _ St), (cull_quiet_noop _ _ _ _ Q). cbn [fst snd].
    change (fs_remove (push_state s p sd_ expire tag now sd) []) with (push_state s p sd_ expire tag now sd).
    split; [|exists (push_row s p sd_ expire tag now sd); split; [apply push_state_rows|reflexivity]].
    unfold queue_view. rewrite push_state_rows, filter_app. cbn [filter].
    rewrite (made_key_outside p q (push_row s p sd_ expire tag now sd) _ D eq_refl). rewrite app_nil_r. reflexivity.
Qed.

(* ordinary keys that can never be taken for queue members of prefix p *)
Theorem ordinary_outside p r :
  rraw r = false \/ rkey r = SNull \/ (exists b, rkey r = SBlob b) \/
  (p = None /\ exists t, rkey r = SText t) \/
  (p = None /\ exists z, rkey r = SInt z /\ (z <= push_min_key \/ push_max_key <= z)) \/
  (p <> None /\ ((exists z, rkey r = SInt z) \/ (exists f, rkey r = SReal f))) ->
  in_range p r = false.
Proof.
  intros H. destruct (in_range p r) eqn:I; [exfalso|reflexivity].
  apply in_range_spec in I as [R [G L]].
  destruct H as [H|[H|[[b H]|[[-> [t H]]|[[-> [z [H Hz]]]|[Np H]]]]]].
  - congruence.
  - rewrite H in G. rewrite sql_cmp_class_lt in G; [discriminate|]. destruct p; cbn; lia.
  - rewrite H in L. rewrite sql_cmp_class_gt in L; [discriminate|]. destruct p; cbn; lia.
  - rewrite H in L. rewrite sql_cmp_class_gt in L; [discriminate|]. cbn; lia.
  - rewrite H in G, L. cbn [qkey_min qkey_max] in G, L. rewrite sql_cmp_int in G, L.
    apply Z.compare_gt_iff in G. change (z < push_max_key) in L. lia.
  - destruct p as [a|]; [|congruence]. destruct H as [[z H]|[f H]]; rewrite H in G;
      (rewrite sql_cmp_class_lt in G; [discriminate|cbn; lia]).
Qed.

(* ================================================================== validity range of the key scheme *)
Theorem key_range p r n :
  0 <= n < key_bound -> rkey r = qkey_make p n -> rraw r = true ->
  (in_range p r = true <-> push_min_key < n < push_max_key).
Proof.
  intros Hn K R. rewrite (in_range_make p r n Hn K), R. cbn [andb]. rewrite andb_true_iff, !Z.ltb_lt. reflexivity.
Qed.

(* in terms of how far the queue has grown on each side of the start key *)
Theorem range_counts n_front n_back :
  0 <= n_front -> 0 <= n_back ->
  ((push_min_key < push_start - n_front /\ push_start + n_back < push_max_key) <->
   (n_front <= 499999999999999 /\ n_back <= 499999999999998)).
Proof. unfold push_min_key, push_start, push_max_key. lia. Qed.

(* string keys keep exactly 15 digits after the last '-' and the digits read back as the number *)
Theorem key_digits p n : 0 <= n < key_bound ->
  exists d, qkey_make (Some p) n = SText (p ++ 45 :: d) /\ length d = 15%nat /\ parse_digits 0 d = n /\
            (forall x, In x d -> 48 <= x <= 57).
Proof.
  intros Hn. exists (digits_pad 15 n). split; [reflexivity|]. split; [apply digits_pad_length|]. split.
  - apply parse_digits_pad. exact Hn.
  - intros x. apply digits_pad_range.
Qed.

(* ================================================================== the refutation of full isolation (finding D11) *)
Definition wit_codec : codec := {| pkk := fun _ => []; pkv := fun _ => []; unpk := fun _ => None |}.
Definition wit_cfg : cfg :=
  {| c_policy := PNone; c_size_limit := 1073741824; c_cull_limit := 0; c_min_file_size := 32768; c_codec := wit_codec |}.
Definition wit_p : option (list Z) := Some [97].                 (* 'a'   *)
Definition wit_q : option (list Z) := Some [97; 45; 53].         (* 'a-5' *)
Definition wit_s1 : st := fst (op_push wit_cfg init_st (VInt 7) false wit_q Back None SNull 0 0).
Definition wit_key : sqlval :=
  SText [97; 45; 53; 45; 53; 48; 48; 48; 48; 48; 48; 48; 48; 48; 48; 48; 48; 48; 48].   (* 'a-5-500000000000000' *)

(* the full statement: for ALL p <> q an operation on p leaves the queue of q alone *)
Definition isolation_full : Prop :=
  forall c s p q sd now, p <> q -> st_ok s -> prefix_clean q s ->
    queue_view q (fst (op_pull c s p sd now)) = queue_view q s.

Lemma wit_s1_rows : exists r, rows wit_s1 = [r] /\ rkey r = wit_key /\ rraw r = true /\ rowid r = 1.
Proof. eexists. vm_compute. repeat split. Qed.

Theorem isolation_refuted_witness :
  wit_p <> wit_q /\ st_ok wit_s1 /\ prefix_clean wit_q wit_s1 /\
  snd (op_push wit_cfg init_st (VInt 7) false wit_q Back None SNull 0 0) = RKey wit_key /\
  snd (op_pull wit_cfg wit_s1 wit_p Front 0) = RKV wit_key true (FVal (VInt 7)) None SNull /\
  length (queue_view wit_q wit_s1) = 1%nat /\
  queue_view wit_q (fst (op_pull wit_cfg wit_s1 wit_p Front 0)) = [].
Proof.
  split; [discriminate|]. split; [|split].
  - unfold st_ok. vm_compute. repeat constructor. intros [].
  - intros r Hr _. exists 500000000000000. split; [unfold key_bound; lia|].
    destruct wit_s1_rows as [r1 [E [K _]]]. rewrite E in Hr. destruct Hr as [<-|[]]. rewrite K. reflexivity.
  - repeat split; vm_compute; reflexivity.
Qed.

Theorem isolation_refuted : ~ isolation_full.
Proof.
  intros H. destruct isolation_refuted_witness as [Ne [Ok [C [_ [_ [L E]]]]]].
  specialize (H wit_cfg wit_s1 wit_p wit_q Front 0 Ne Ok C). rewrite E in H. rewrite <- H in L. discriminate.
Qed.

(* the pair of the witness is exactly what prefix_disjoint excludes *)
Example wit_not_disjoint : ~ prefix_disjoint wit_p wit_q.
Proof. intros [_ [N _]]. apply N. exists 53, [45]. split; reflexivity. Qed.

(* ... while 'a' / 'b', 'a' / 'a-' (the '-' after "a-" is not a digit) and None / anything are disjoint *)
Example disjoint_examples :
  prefix_disjoint (Some [97]) (Some [98]) /\ prefix_disjoint (Some [97]) (Some [97; 45]) /\
  prefix_disjoint None (Some [97]) /\ prefix_disjoint (Some []) (Some [97]).
Proof.
  assert (T : forall a b, a <> b -> (forall c t, is_digit c = true -> b ++ [45] <> (a ++ [45]) ++ c :: t) ->
                          (forall c t, is_digit c = true -> a ++ [45] <> (b ++ [45]) ++ c :: t) ->
                          prefix_disjoint (Some a) (Some b)).
  { intros a b Ne H1 H2. split; [exact Ne|]. split; intros [c [t [D E]]]; [eapply H1|eapply H2]; eauto. }
  split; [|split; [|split; [exact I|]]]; apply T; try discriminate; cbn; intros c t D E; inversion E; subst; discriminate.
Qed.

(* ================================================================== non-vacuity of the hypotheses *)
Definition ex_cfg : cfg :=
  {| c_policy := PLRS; c_size_limit := 1073741824; c_cull_limit := 10; c_min_file_size := 2; c_codec := wit_codec |}.
(* two pushes at the back and one at the front of the integer queue, the second one file-backed and expiring *)
Definition ex_s : st :=
  fst (op_push ex_cfg (fst (op_push ex_cfg (fst (op_push ex_cfg init_st (VInt 1) false None Back None SNull 0 4096))
                                    (VStr [120; 121; 122]) false None Back (Some 2048) SNull 1024 4096))
               (VInt 3) false None Front None SNull 1024 4096).

Example qinv_satisfiable :
  qinv ex_cfg None ex_s /\ map (knum None) (queue_view None ex_s) = [499999999999999; 500000000000000; 500000000000001] /\
  push_min_key < push_num None Back (queue_view None ex_s) < push_max_key /\
  push_min_key < push_num None Front (queue_view None ex_s) < push_max_key.
Proof.
  assert (R : exists r1 r2 r3, rows ex_s = [r1; r2; r3] /\
            rkey r1 = SInt 500000000000000 /\ rkey r2 = SInt 500000000000001 /\ rkey r3 = SInt 499999999999999).
  { do 3 eexists. vm_compute. repeat split. }
  destruct R as [r1 [r2 [r3 [E [K1 [K2 K3]]]]]].
  split; [|split; [vm_compute; reflexivity|split; vm_compute; split; reflexivity]].
  split; [|split; [|split]].
  - unfold st_ok. vm_compute. repeat constructor; cbn; intuition discriminate.
  - intros r Hr _. rewrite E in Hr. destruct Hr as [<-|[<-|[<-|[]]]];
      [exists 500000000000000|exists 500000000000001|exists 499999999999999];
      (split; [unfold key_bound; lia|assumption]).
  - unfold files_sep. vm_compute. repeat constructor; cbn; intuition discriminate.
  - intros r Hr. apply in_queue_view in Hr as [Hr _]. rewrite E in Hr.
    assert (F : forallb (fun x => match fetch_row ex_cfg ex_s x false with FIOError => false | _ => true end) (rows ex_s) = true)
      by (vm_compute; reflexivity).
    rewrite forallb_forall in F. rewrite <- E in Hr. specialize (F r Hr). intros X. rewrite X in F. discriminate.
Qed.

(* ================================================================== exactly-once delivery (atomic layer) *)
From DC Require Import QueueConc.

Section ExactlyOnce.
Context {A : Type}.
Implicit Types (st : qstate A) (sched : list (event A)).

Lemma pushed_cons (e : event A) sched :
  pushed (e :: sched) = match snd e with QPush _ x => [(fst e, x)] | QPull _ => [] end ++ pushed sched.
Proof. reflexivity. Qed.

(* ALL schedules, any mix of sides: what was delivered plus what is still queued is, as a multiset, what
   was there plus what was pushed -- nothing lost, nothing duplicated, nothing invented *)
Theorem conservation : forall sched st,
  Permutation (delivered (q_run st sched) ++ q_items (q_run st sched)) (delivered st ++ q_items st ++ pushed sched).
Proof.
  induction sched as [|e sched IH]; intros st.
  - cbn. rewrite app_nil_r. reflexivity.
  - cbn [q_run fold_left]. fold (q_run (q_step st e) sched). rewrite IH, pushed_cons.
    destruct e as [c o]. unfold q_step, delivered. cbn [fst snd]. destruct o as [sd x|sd].
    + cbn [q_items q_out]. apply Permutation_app_head. rewrite app_assoc. apply Permutation_app_tail.
      destruct sd; cbn [q_push]; [reflexivity|apply Permutation_cons_append].
    + cbn [app]. destruct sd; cbn [q_pull].
      * destruct (rev (q_items st)) as [|y r] eqn:R; [reflexivity|]. cbn [q_items q_out].
        assert (E : q_items st = rev r ++ [y]) by (rewrite <- (rev_involutive (q_items st)), R; reflexivity).
        rewrite E, map_app. cbn [map snd]. rewrite <- !app_assoc. apply Permutation_app_head.
        rewrite !app_assoc. apply Permutation_app_tail. cbn [app]. apply Permutation_cons_append.
      * destruct (q_items st) as [|y r] eqn:R; [rewrite R; reflexivity|]. cbn [q_items q_out].
        rewrite map_app. cbn [map snd]. rewrite <- !app_assoc. reflexivity.
Qed.

(* back-push / front-pull: the deliveries followed by the queue ARE the pushes, in push order *)
Theorem fifo_order : forall sched st,
  forallb (fun e => fifo_op (snd e)) sched = true ->
  delivered (q_run st sched) ++ q_items (q_run st sched) = delivered st ++ q_items st ++ pushed sched.
Proof.
  induction sched as [|e sched IH]; intros st F.
  - cbn. rewrite app_nil_r. reflexivity.
  - cbn [forallb] in F. apply andb_true_iff in F as [Fe F].
    cbn [q_run fold_left]. fold (q_run (q_step st e) sched). rewrite (IH _ F), pushed_cons.
    destruct e as [c o]. unfold q_step, delivered. cbn [fst snd] in *.
    destruct o as [[|] x|[|]]; try discriminate Fe.
    + cbn [q_items q_out q_push]. rewrite <- !app_assoc. reflexivity.
    + cbn [q_pull app]. destruct (q_items st) as [|y r] eqn:R; [rewrite R; reflexivity|]. cbn [q_items q_out].
      rewrite map_app. cbn [map snd]. rewrite <- !app_assoc. reflexivity.
Qed.

(* mirror image: front-push / back-pull *)
Theorem mirror_order : forall sched st,
  forallb (fun e => mirror_op (snd e)) sched = true ->
  delivered (q_run st sched) ++ rev (q_items (q_run st sched)) = delivered st ++ rev (q_items st) ++ pushed sched.
Proof.
  induction sched as [|e sched IH]; intros st F.
  - cbn. rewrite app_nil_r. reflexivity.
  - cbn [forallb] in F. apply andb_true_iff in F as [Fe F].
    cbn [q_run fold_left]. fold (q_run (q_step st e) sched). rewrite (IH _ F), pushed_cons.
    destruct e as [c o]. unfold q_step, delivered. cbn [fst snd] in *.
    destruct o as [[|] x|[|]]; try discriminate Fe.
    + cbn [q_items q_out q_push rev]. rewrite <- !app_assoc. reflexivity.
    + cbn [q_pull app]. destruct (rev (q_items st)) as [|y r] eqn:R; [rewrite R; reflexivity|]. cbn [q_items q_out].
      rewrite rev_involutive, map_app. cbn [map snd]. rewrite <- !app_assoc. reflexivity.
Qed.

Definition pushes_of (prog : list (qop A)) : list A :=
  flat_map (fun o => match o with QPush _ x => [x] | QPull _ => [] end) prog.

(* the pushed items of producer c are its program's pushes, in program order *)
Lemma by_producer_pushed c sched : by_producer c (pushed sched) = map (pair c) (pushes_of (program c sched)).
Proof.
  induction sched as [|[c' o] sched IH]; [reflexivity|].
  rewrite pushed_cons. unfold by_producer in *. rewrite filter_app, IH. unfold program. cbn [filter fst snd].
  destruct o as [sd x|sd]; cbn [filter fst app]; destruct (Nat.eqb_spec c' c) as [->|N]; cbn [map snd pushes_of flat_map app]; reflexivity.
Qed.

(* from the empty queue, any number of producers and consumers, every interleaving *)
Theorem exactly_once_fifo sched :
  forallb (fun e => fifo_op (snd e)) sched = true ->
  let st := q_run q_init sched in
  delivered st ++ q_items st = pushed sched /\
  (forall c, by_producer c (delivered st) ++ by_producer c (q_items st) = map (pair c) (pushes_of (program c sched))) /\
  (NoDup (pushed sched) -> NoDup (delivered st ++ q_items st)).
Proof.
  intros F. cbv zeta. pose proof (fifo_order sched q_init F) as E.
  change (delivered q_init ++ q_items q_init ++ pushed sched) with (pushed sched) in E. split; [exact E|]. split.
  - intros c. rewrite <- by_producer_pushed. unfold by_producer. rewrite <- filter_app. f_equal. exact E.
  - rewrite E. auto.
Qed.

Theorem exactly_once_mirror sched :
  forallb (fun e => mirror_op (snd e)) sched = true ->
  let st := q_run q_init sched in
  delivered st ++ rev (q_items st) = pushed sched /\
  (forall c, by_producer c (delivered st) ++ by_producer c (rev (q_items st)) = map (pair c) (pushes_of (program c sched))) /\
  (NoDup (pushed sched) -> NoDup (delivered st ++ q_items st)).
Proof.
  intros F. cbv zeta. pose proof (mirror_order sched q_init F) as E.
  change (delivered q_init ++ rev (q_items q_init) ++ pushed sched) with (pushed sched) in E. split; [exact E|]. split.
  - intros c. rewrite <- by_producer_pushed. unfold by_producer. rewrite <- filter_app. f_equal. exact E.
  - intros N. rewrite <- E in N. eapply Permutation_NoDup; [|exact N].
    apply Permutation_app_head, Permutation_sym, Permutation_rev.
Qed.

Theorem exactly_once_any sched :
  let st := q_run q_init sched in
  Permutation (delivered st ++ q_items st) (pushed sched) /\
  (NoDup (pushed sched) -> NoDup (delivered st ++ q_items st)).
Proof.
  cbv zeta. pose proof (conservation sched q_init) as P.
  change (delivered q_init ++ q_items q_init ++ pushed sched) with (pushed sched) in P. split; [exact P|].
  intros N. eapply Permutation_NoDup; [apply Permutation_sym, P|exact N].
Qed.
End ExactlyOnce.

(* two producers, two consumers, one interleaving *)
Example exactly_once_example :
  let sched := [(1%nat, QPush Back 10); (2%nat, QPush Back 20); (3%nat, QPull Front); (1%nat, QPush Back 11);
                (4%nat, QPull Front); (4%nat, QPull Front); (3%nat, QPull Front); (2%nat, QPush Back 21)] in
  forallb (fun e => fifo_op (snd e)) sched = true /\
  q_out (q_run q_init sched) = [(3%nat, (1%nat, 10)); (4%nat, (2%nat, 20)); (4%nat, (1%nat, 11))] /\
  q_items (q_run q_init sched) = [(2%nat, 21)].
Proof. vm_compute. repeat split. Qed.

(* ================================================================== the three clauses together *)
Theorem deque_refines c p s :
  qinv c p s ->
  (* push: appends at the back / prepends at the front, returns the key of the row it inserted *)
  (forall v read sd_ expire tag now pg sd,
     store (c_codec c) (c_min_file_size c) v read = StOk sd ->
     push_min_key < push_num p sd_ (queue_view p s) < push_max_key ->
     cull_quiet c now pg (push_state s p sd_ expire tag now sd) ->
     let s' := push_state s p sd_ expire tag now sd in
     let r := push_row s p sd_ expire tag now sd in
     op_push c s v read p sd_ expire tag now pg = (s', RKey (rkey r))
     /\ rows s' = rows s ++ [r]
     /\ queue_view p s' = match sd_ with Back => queue_view p s ++ [r] | Front => r :: queue_view p s end
     /\ st_ok s' /\ prefix_clean p s'
     /\ rraw r = true /\ expire_time r = expire_at now expire /\ rtag r = tag
     /\ rmode r = s_mode sd /\ rvalue r = s_col sd /\ rfile r = snd (fs_write s (s_file sd))) /\
  (* pull: drops the heads whose time has passed, hands out the first live row of that side and removes it *)
  (forall sd now s' res, op_pull c s p sd now = (s', res) ->
     let L := drop_expired now (oriented sd (queue_view p s)) in
     res = deliver c s L /\ oriented sd (queue_view p s') = tl L /\ qinv c p s' /\
     (forall r, In r (tl L) -> fetch_row c s' r false = fetch_row c s r false) /\ frame p s s') /\
  (* peek: the same item, not removed *)
  (forall sd now s' res, op_peek c s p sd now = (s', res) ->
     let L := drop_expired now (oriented sd (queue_view p s)) in
     res = deliver c s L /\ oriented sd (queue_view p s') = L /\ qinv c p s' /\
     (forall r, In r L -> fetch_row c s' r false = fetch_row c s r false) /\ frame p s s').
Proof.
  intros I. split; [|split].
  - intros v read sd_ expire tag now pg sd St V Q. cbv zeta. destruct I as [Ok [C _]].
    destruct (push_refines c s v read p sd_ expire tag now pg sd Ok C St V Q) as [A [B [D [E F]]]].
    repeat split; auto.
  - intros sd now s' res E. exact (pull_refines c s p sd now s' res I E).
  - intros sd now s' res E. exact (peek_refines c s p sd now s' res I E).
Qed.

From DC Require Import DiskFacts.

(* ================================================================== the invariant is inductive *)
(* file ids come from a fresh-name supply *)
Definition fs_fresh (s : st) : Prop :=
  (forall i c, In (i, c) (fs s) -> i < next_file s) /\
  (forall r i, In r (rows s) -> rfile r = Some i -> i < next_file s).

Definition qinv_full (c : cfg) (p : option (list Z)) (s : st) : Prop := qinv c p s /\ fs_fresh s.

Lemma fetch_some_not_ioerror c mode f col read : fetch c mode (Some f) col read <> FIOError.
Proof.
  unfold fetch. destruct (fetch_plan_of mode _ read); destruct f;
    repeat match goal with |- context [match ?x with _ => _ end] => destruct x end; discriminate.
Qed.

(* what store wrote can be read back: no IOError *)
Lemma store_fetchable c m v read sd :
  store c m v read = StOk sd -> fetch c (s_mode sd) (s_file sd) (s_col sd) false <> FIOError.
Proof.
  intros St. destruct (s_file sd) as [f|] eqn:F; [apply fetch_some_not_ioerror|].
  revert St. unfold store. rewrite bridge_store_plan.
  assert (Inl : forall mode col, (mode = MODE_RAW \/ (mode = MODE_PICKLE /\ exists b, col = VBytes b)) ->
                 run_plan v (PlanInline mode col) = StOk sd ->
                 fetch c (s_mode sd) None (s_col sd) false <> FIOError).
  { intros mode col Hm. cbn [run_plan]. destruct (bind col) as [bv| | |] eqn:B; try discriminate.
    intros E; inversion E; subst sd; cbn [s_mode s_col]. unfold fetch. rewrite bridge_fetch_plan.
    destruct Hm as [->|[-> [b ->]]].
    - cbn. destruct (column bv); discriminate.
    - cbn in B. inversion B; subst bv. cbn. destruct (unpk c b); discriminate. }
  assert (Pk : run_plan v (pickle_plan m (pkv c) v) = StOk sd -> fetch c (s_mode sd) None (s_col sd) false <> FIOError).
  { unfold pickle_plan. cbv zeta. destruct (_ <? m).
    - apply Inl. right. split; [reflexivity|eexists; reflexivity].
    - cbn. intros E; inversion E; subst sd. cbn in F. discriminate. }
  destruct v as [z|f|s|b|i|b]; cbn [store_plan_spec].
  - destruct (in_int64 z); [apply Inl; left; reflexivity|]. destruct read; [|exact Pk].
    cbn. intros E; inversion E; subst sd. cbn in F. discriminate.
  - destruct (is_nan (VFloat f)); [|apply Inl; left; reflexivity]. destruct read; [|exact Pk].
    cbn. intros E; inversion E; subst sd. cbn in F. discriminate.
  - destruct (pv_len (VStr s) <? m); [apply Inl; left; reflexivity|].
    cbn [run_plan]. destruct (_ && _); [|discriminate]. intros E; inversion E; subst sd. cbn in F. discriminate.
  - destruct (pv_len (VBytes b) <? m); [apply Inl; left; reflexivity|].
    cbn. intros E; inversion E; subst sd. cbn in F. discriminate.
  - destruct read; [|exact Pk]. cbn. intros E; inversion E; subst sd. cbn in F. discriminate.
  - destruct read; [|exact Pk]. cbn. intros E; inversion E; subst sd. cbn in F. discriminate.
Qed.

Lemma fs_get_app_old f i x : (forall c, In (i, c) f -> True) -> i <> fst x -> fs_get (f ++ [x]) i = fs_get f i.
Proof.
  intros _ N. induction f as [|[j c] f IH]; cbn.
  - destruct x as [j c]. cbn in N. destruct (Z.eqb_spec j i); [congruence|reflexivity].
  - destruct (j =? i); auto.
Qed.

Lemma fs_get_app_new f nf content : (forall i c, In (i, c) f -> i < nf) -> fs_get (f ++ [(nf, content)]) nf = Some content.
Proof.
  induction f as [|[j c] f IH]; cbn; intros H.
  - rewrite Z.eqb_refl. reflexivity.
  - destruct (Z.eqb_spec j nf) as [->|N]; [specialize (H nf c (or_introl eq_refl)); lia|].
    apply IH. intros i c' Hi. eapply H. right; exact Hi.
Qed.

Lemma file_ids_lt l n : (forall r i, In r l -> rfile r = Some i -> i < n) -> forall i, In i (file_ids l) -> i < n.
Proof.
  intros H i Hi. unfold file_ids in Hi. apply in_flat_map in Hi as [r [Hr Hi]].
  destruct (rfile r) as [j|] eqn:F; [|destruct Hi]. destruct Hi as [<-|[]]. eauto.
Qed.

(* push preserves the full invariant *)
Theorem push_preserves c s v read p sd_ expire tag now sd :
  qinv_full c p s ->
  store (c_codec c) (c_min_file_size c) v read = StOk sd ->
  push_min_key < push_num p sd_ (queue_view p s) < push_max_key ->
  qinv_full c p (push_state s p sd_ expire tag now sd).
Proof.
  intros [[Ok [C [Fs Rd]]] [Ff Fr]] St V.
  destruct (push_view s p sd_ expire tag now sd Ok C V) as [Vw [Ok' [C' _]]].
  set (s' := push_state s p sd_ expire tag now sd) in *. set (r := push_row s p sd_ expire tag now sd) in *.
  assert (Rows : rows s' = rows s ++ [r]) by apply push_state_rows.
  assert (ViewIn : forall x, In x (queue_view p s) -> In x (rows s)) by (intros x Hx; apply in_queue_view in Hx; tauto).
  (* the file system after the write *)
  assert (FS : (s_file sd = None /\ rfile r = None /\ fs s' = fs s /\ next_file s' = next_file s) \/
               (exists content, s_file sd = Some content /\ rfile r = Some (next_file s) /\
                                fs s' = fs s ++ [(next_file s, content)] /\ next_file s' = next_file s + 1)).
  { unfold s', r, push_state, push_row. destruct (s_file sd) as [content|] eqn:F; [right; exists content|left]; cbn; auto. }
  assert (Old : forall x, In x (rows s) -> fetch_row c s' x false = fetch_row c s x false).
  { intros x Hx. unfold fetch_row, fs_lookup. destruct (rfile x) as [i|] eqn:Fx; [|reflexivity].
    destruct FS as [[_ [_ [E _]]]|[content [_ [_ [E _]]]]]; rewrite E; [reflexivity|].
    rewrite fs_get_app_old; auto. cbn. pose proof (Fr x i Hx Fx). lia. }
  assert (New : fetch_row c s' r false <> FIOError).
  { unfold fetch_row. replace (rmode r) with (s_mode sd) by reflexivity. replace (rvalue r) with (s_col sd) by reflexivity.
    replace (fs_lookup s' (rfile r)) with (s_file sd); [eapply store_fetchable; eauto|].
    destruct FS as [[E1 [E2 _]]|[content [E1 [E2 [E3 _]]]]]; rewrite E1, E2; cbn [fs_lookup]; [reflexivity|].
    rewrite E3. symmetry. apply fs_get_app_new. exact Ff. }
  assert (Ids : forall i, In i (file_ids (queue_view p s)) -> i < next_file s).
  { apply file_ids_lt. intros x i Hx. apply Fr, ViewIn, Hx. }
  assert (IdR : file_ids [r] = match rfile r with Some i => [i] | None => [] end) by (cbn; apply app_nil_r).
  split; [split; [exact Ok'|split; [exact C'|split]]|].
  - unfold files_sep. rewrite Vw.
    assert (N : NoDup (file_ids (queue_view p s) ++ file_ids [r])).
    { rewrite IdR. destruct FS as [[_ [E _]]|[content [_ [E _]]]]; rewrite E; [rewrite app_nil_r; exact Fs|].
      apply NoDup_snoc; [exact Fs|]. intros H. apply Ids in H. lia. }
    destruct sd_.
    + rewrite file_ids_app. exact N.
    + change (r :: queue_view p s) with ([r] ++ queue_view p s). rewrite file_ids_app.
      eapply Permutation_NoDup; [apply Permutation_app_comm|exact N].
  - intros x Hx. rewrite Vw in Hx.
    assert (Hx' : x = r \/ In x (queue_view p s)).
    { destruct sd_; [apply in_app_or in Hx as [Hx|[<-|[]]]; auto|destruct Hx as [<-|Hx]; auto]. }
    destruct Hx' as [->|Hx']; [exact New|]. rewrite Old by (apply ViewIn, Hx'). apply Rd, Hx'.
  - split.
    + intros i ct Hi. destruct FS as [[_ [_ [E1 E2]]]|[content [_ [_ [E1 E2]]]]]; rewrite E1 in Hi; rewrite E2; [eapply Ff; eauto|].
      apply in_app_or in Hi as [Hi|[Hi|[]]]; [pose proof (Ff i ct Hi); lia|inversion Hi; lia].
    + intros x i Hx Fx. rewrite Rows in Hx.
      assert (B : i < next_file s \/ (x = r /\ rfile r = Some i)).
      { apply in_app_or in Hx as [Hx|[<-|[]]]; [left; eapply Fr; eauto|right; auto]. }
      destruct FS as [[_ [E0 [_ E2]]]|[content [_ [E0 [_ E2]]]]]; rewrite E2; destruct B as [B|[-> B]]; try lia; rewrite E0 in B; [discriminate|inversion B; lia].
Qed.

(* pull / peek only remove: files and file ids stay below the supply *)
Lemma fs_remove1_sub s o : (forall x, In x (fs (fs_remove s [o])) -> In x (fs s)) /\ next_file (fs_remove s [o]) = next_file s.
Proof. destruct o as [j|]; cbn; split; auto. intros x Hx. apply filter_In in Hx. tauto. Qed.

Lemma pull_loop_fs c p sd now : forall fuel s,
  let s' := fst (op_pull_loop fuel c s p sd now) in
  (forall x, In x (fs s') -> In x (fs s)) /\ next_file s' = next_file s /\ (forall r, In r (rows s') -> In r (rows s)).
Proof.
  induction fuel as [|f IH]; intros s; cbv zeta; [cbn; auto|].
  cbn [op_pull_loop]. destruct (pull_select sd p (rows s)) as [|r0 l]; [cbn; auto|].
  set (s1 := t_delete (pull_delete (rowid r0) (rows s)) s). set (s2 := fs_remove s1 [rfile r0]).
  assert (B : (forall x, In x (fs s2) -> In x (fs s)) /\ next_file s2 = next_file s /\ (forall r, In r (rows s2) -> In r (rows s))).
  { destruct (fs_remove1_sub s1 (rfile r0)) as [A1 A2]. fold s2 in A1, A2. split; [|split].
    - intros x Hx. apply A1 in Hx. unfold s1 in Hx. rewrite fs_t_delete in Hx. exact Hx.
    - rewrite A2. unfold s1, t_delete. destruct (del_rows _ _ _ _) as [[? ?] ?]. reflexivity.
    - intros r Hr. unfold s2 in Hr. rewrite rows_fs_remove in Hr. unfold s1 in Hr. rewrite rows_t_delete in Hr.
      apply filter_In in Hr. tauto. }
  destruct B as [B1 [B2 B3]]. specialize (IH s2). cbv zeta in IH. destruct IH as [I1 [I2 I3]].
  assert (T : (forall x, In x (fs (fst (op_pull_loop f c s2 p sd now))) -> In x (fs s)) /\
              next_file (fst (op_pull_loop f c s2 p sd now)) = next_file s /\
              (forall r, In r (rows (fst (op_pull_loop f c s2 p sd now))) -> In r (rows s))).
  { split; [auto|split; [congruence|auto]]. }
  destruct (pull_expired (expire_time r0) now); [exact T|].
  destruct (fetch_row c s1 r0 false); cbn [fst]; try (split; [exact B1|split; [exact B2|exact B3]]). exact T.
Qed.

Lemma peek_loop_fs c p sd now : forall fuel s,
  let s' := fst (op_peek_loop fuel c s p sd now) in
  (forall x, In x (fs s') -> In x (fs s)) /\ next_file s' = next_file s /\ (forall r, In r (rows s') -> In r (rows s)).
Proof.
  induction fuel as [|f IH]; intros s; cbv zeta; [cbn; auto|].
  cbn [op_peek_loop]. destruct (peek_select sd p (rows s)) as [|r0 l]; [cbn; auto|].
  destruct (peek_expired (expire_time r0) now).
  - set (s1 := t_delete (peek_delete (rowid r0) (rows s)) s). set (s2 := fs_remove s1 [rfile r0]).
    destruct (fs_remove1_sub s1 (rfile r0)) as [A1 A2]. fold s2 in A1, A2.
    specialize (IH s2). cbv zeta in IH. destruct IH as [I1 [I2 I3]]. split; [|split].
    + intros x Hx. apply I1, A1 in Hx. unfold s1 in Hx. rewrite fs_t_delete in Hx. exact Hx.
    + rewrite I2, A2. unfold s1, t_delete. destruct (del_rows _ _ _ _) as [[? ?] ?]. reflexivity.
    + intros r Hr. apply I3 in Hr. unfold s2 in Hr. rewrite rows_fs_remove in Hr. unfold s1 in Hr. rewrite rows_t_delete in Hr.
      apply filter_In in Hr. tauto.
  - destruct (fetch_row c s r0 false); cbn; auto.
Qed.

Lemma fs_fresh_sub s s' :
  (forall x, In x (fs s') -> In x (fs s)) -> next_file s' = next_file s -> (forall r, In r (rows s') -> In r (rows s)) ->
  fs_fresh s -> fs_fresh s'.
Proof. intros A B C [F1 F2]. split; [intros i c Hi|intros r i Hr Fi]; rewrite B; eauto. Qed.

Theorem pull_preserves c s p sd now : qinv_full c p s -> qinv_full c p (fst (op_pull c s p sd now)).
Proof.
  intros [I F]. destruct (op_pull c s p sd now) as [s' res] eqn:E.
  destruct (pull_refines _ _ _ _ _ _ _ I E) as [_ [_ [I' _]]]. split; [exact I'|].
  pose proof (pull_loop_fs c p sd now (S (length (rows s))) s) as H. cbv zeta in H. unfold op_pull in E. rewrite E in H.
  destruct H as [A [B C]]. eapply fs_fresh_sub; eauto.
Qed.

Theorem peek_preserves c s p sd now : qinv_full c p s -> qinv_full c p (fst (op_peek c s p sd now)).
Proof.
  intros [I F]. destruct (op_peek c s p sd now) as [s' res] eqn:E.
  destruct (peek_refines _ _ _ _ _ _ _ I E) as [_ [_ [I' _]]]. split; [exact I'|].
  pose proof (peek_loop_fs c p sd now (S (length (rows s))) s) as H. cbv zeta in H. unfold op_peek in E. rewrite E in H.
  destruct H as [A [B C]]. eapply fs_fresh_sub; eauto.
Qed.

Lemma qinv_full_init c p : qinv_full c p init_st.
Proof.
  split; [split; [constructor|split; [intros r []|split; [constructor|intros r Hr; apply in_queue_view in Hr as [[] _]]]]|].
  split; [intros i ct []|intros r i []].
Qed.

(* every state reachable from the empty cache by pushes (inside the key range, _cull quiet), pulls and peeks on
   prefix p satisfies the invariant -- so the clauses of deque_refines hold at every point of every such history *)
Inductive q_reach (c : cfg) (p : option (list Z)) : st -> Prop :=
| qr_init : q_reach c p init_st
| qr_push s v read sd_ expire tag now pg sd :
    q_reach c p s ->
    store (c_codec c) (c_min_file_size c) v read = StOk sd ->
    push_min_key < push_num p sd_ (queue_view p s) < push_max_key ->
    cull_quiet c now pg (push_state s p sd_ expire tag now sd) ->
    q_reach c p (fst (op_push c s v read p sd_ expire tag now pg))
| qr_pull s sd now : q_reach c p s -> q_reach c p (fst (op_pull c s p sd now))
| qr_peek s sd now : q_reach c p s -> q_reach c p (fst (op_peek c s p sd now)).

Theorem q_reach_inv c p s : q_reach c p s -> qinv_full c p s.
Proof.
  induction 1 as [|s v read sd_ expire tag now pg sd R IH St V Q|s sd now R IH|s sd now R IH].
  - apply qinv_full_init.
  - destruct IH as [[Ok [C X]] F].
    destruct (push_refines c s v read p sd_ expire tag now pg sd Ok C St V Q) as [E _]. rewrite E. cbn [fst].
    apply (push_preserves c s v read p sd_ expire tag now sd); auto. split; [split; [exact Ok|split; [exact C|exact X]]|exact F].
  - apply pull_preserves, IH.
  - apply peek_preserves, IH.
Qed.
