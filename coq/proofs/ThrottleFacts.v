(* throttle (C20): token bucket over exact rationals.  All statements are for every count >= 1,
   every rate >= 0, every number of callers and every arrival pattern (list of (caller, clock
   reading) in the atomic order of the transact blocks) whose clock readings never go back. *)
From Coq Require Import QArith Lqa.
From DC Require Import DCPrelude RecipesBase Gen_Recipes Recipes.
Local Open Scope Q_scope.

(* ---- bridge lemmas ---- *)
Lemma bridge_thr_retry : thr_init_retry = true /\ thr_transact_retry = true.
Proof. split; reflexivity. Qed.

Lemma bridge_thr_rate count seconds : thr_rate count seconds = count / seconds.
Proof. reflexivity. Qed.

Lemma bridge_thr_init now count : thr_init now count = (now, count).
Proof. reflexivity. Qed.

Lemma Qltb_lt a b : Qltb a b = true <-> a < b.
Proof.
  unfold Qltb. rewrite negb_true_iff. split.
  - intros H. apply Qnot_le_lt. intros L. apply Qle_bool_iff in L. congruence.
  - intros H. destruct (Qle_bool b a) eqn:E; auto. apply Qle_bool_iff in E. apply Qlt_not_le in H. tauto.
Qed.

(* the three branches of the wrapper's transact block; y is the refilled tally *)
Lemma bridge_thr_attempt count rate last tally now :
  let y := tally + (now - last) * rate in
  (count < y /\ thr_attempt count rate (last, tally) now = ((now, count - 1), TStart now)) \/
  (y <= count /\ 1 <= y /\ thr_attempt count rate (last, tally) now = ((now, y - 1), TStart now)) \/
  (y <= count /\ y < 1 /\ thr_attempt count rate (last, tally) now = ((last, tally), TSleep ((1 - y) / rate))).
Proof.
  intros y. unfold thr_attempt.
  cbv [thr_refill thr_full_guard thr_full_store thr_ok_guard thr_ok_store thr_delay].
  change (inject_Z 1) with 1. fold y.
  destruct (Qltb count y) eqn:E1.
  - left. apply Qltb_lt in E1. split; [exact E1|reflexivity].
  - right. assert (L : y <= count).
    { apply Qnot_lt_le. intros H. apply Qltb_lt in H. congruence. }
    destruct (Qle_bool 1 y) eqn:E2.
    + left. apply Qle_bool_iff in E2. repeat split; auto.
    + right. repeat split; auto. apply Qnot_le_lt. intros H. apply Qle_bool_iff in H. congruence.
Qed.

(* ---- bucket invariant: 0 <= tally <= count; a start spends exactly one token ---- *)
Definition bucket_ok (count : Q) (s : thr_state) : Prop := 0 <= snd s /\ snd s <= count.

Lemma thr_attempt_bucket count rate s now :
  1 <= count -> bucket_ok count s -> bucket_ok count (fst (thr_attempt count rate s now)).
Proof.
  intros C [H0 H1]. destruct s as [last tally]. cbn [snd] in *.
  destruct (bridge_thr_attempt count rate last tally now) as [(A & ->)|[(A & B & ->)|(A & B & ->)]];
    unfold bucket_ok; cbn [fst snd]; split; lra.
Qed.

(* On a start the new tally is min(count, refilled tally) - 1 and `last` becomes the clock reading;
   on a sleep nothing is written. *)
Lemma thr_attempt_spends_one count rate last tally now :
  let y := tally + (now - last) * rate in
  match snd (thr_attempt count rate (last, tally) now) with
  | TStart t => t = now /\ fst (fst (thr_attempt count rate (last, tally) now)) = now /\
                (if Qltb count y then snd (fst (thr_attempt count rate (last, tally) now)) = count - 1
                 else snd (fst (thr_attempt count rate (last, tally) now)) = y - 1 /\ 1 <= y)
  | TSleep dl => fst (thr_attempt count rate (last, tally) now) = (last, tally) /\ dl = (1 - y) / rate /\ y < 1
  end.
Proof.
  intros y. destruct (bridge_thr_attempt count rate last tally now) as [(A & E)|[(A & B & E)|(A & B & E)]];
    fold y in A, E; rewrite E; cbn [fst snd].
  - apply Qltb_lt in A. rewrite A. auto.
  - assert (F : Qltb count y = false).
    { destruct (Qltb count y) eqn:G; auto. apply Qltb_lt in G. lra. }
    rewrite F. auto.
  - auto.
Qed.

Lemma thr_run_cons count rate s c now r :
  thr_run count rate s ((c, now) :: r) =
  (fst (thr_run count rate (fst (thr_attempt count rate s now)) r),
   (c, snd (thr_attempt count rate s now)) :: snd (thr_run count rate (fst (thr_attempt count rate s now)) r)).
Proof.
  cbn [thr_run]. destruct (thr_attempt count rate s now) as [s' e]. cbn [fst snd].
  destruct (thr_run count rate s' r) as [s'' es]. reflexivity.
Qed.

Theorem thr_bucket_invariant count rate s att :
  1 <= count -> bucket_ok count s -> bucket_ok count (fst (thr_run count rate s att)).
Proof.
  intros C. revert s. induction att as [|[c now] r IH]; intros s B; [exact B|].
  rewrite thr_run_cons. cbn [fst]. apply IH. apply thr_attempt_bucket; auto.
Qed.

(* ---- counting starts in a window ---- *)
Definition inwin (t u x : Q) : bool := Qle_bool t x && Qle_bool x u.

Lemma starts_in_start t u c x es :
  starts_in t u ((c, TStart x) :: es) = ((if inwin t u x then 1 else 0) + starts_in t u es)%Z.
Proof.
  unfold starts_in, starts. cbn [flat_map snd app filter]. fold (inwin t u x).
  destruct (inwin t u x); cbn [length]; lia.
Qed.

Lemma starts_in_sleep t u c dl es : starts_in t u ((c, TSleep dl) :: es) = starts_in t u es.
Proof. reflexivity. Qed.

Lemma starts_in_nonneg t u es : (0 <= starts_in t u es)%Z.
Proof. unfold starts_in. lia. Qed.

Lemma inwin_true t u x : inwin t u x = true <-> t <= x /\ x <= u.
Proof. unfold inwin. rewrite andb_true_iff, !Qle_bool_iff. tauto. Qed.

Lemma inwin_after t u x : u < x -> inwin t u x = false.
Proof.
  intros H. destruct (inwin t u x) eqn:E; auto. apply inwin_true in E. lra.
Qed.

Lemma inwin_before t u x : x < t -> inwin t u x = false.
Proof.
  intros H. destruct (inwin t u x) eqn:E; auto. apply inwin_true in E. lra.
Qed.

Lemma monotone_weaken a b att : a <= b -> monotone b att -> monotone a att.
Proof. destruct att as [|[c now] r]; cbn; auto. intros L [H M]. split; [lra|auto]. Qed.

Definition nstarts (t u count rate : Q) (s : thr_state) (att : list (nat * Q)) : Q :=
  inject_Z (starts_in t u (snd (thr_run count rate s att))).

Lemma nstarts_nil t u count rate s : nstarts t u count rate s [] == 0.
Proof. reflexivity. Qed.

(* one attempt: either a sleep (nothing changes) or a start at `now` leaving a tally <= y - 1 *)
Lemma nstarts_cons t u count rate last tally c now r :
  1 <= count ->
  let y := tally + (now - last) * rate in
  (y < 1 /\ nstarts t u count rate (last, tally) ((c, now) :: r) == nstarts t u count rate (last, tally) r) \/
  (exists tally', 1 <= y /\ tally' <= y - 1 /\ tally' <= count - 1 /\
     0 <= tally' /\
     nstarts t u count rate (last, tally) ((c, now) :: r) ==
       (if inwin t u now then 1 else 0) + nstarts t u count rate (now, tally') r).
Proof.
  intros C1 y. unfold nstarts. rewrite thr_run_cons. cbn [snd].
  destruct (bridge_thr_attempt count rate last tally now) as [(A & E)|[(A & B & E)|(A & B & E)]];
    fold y in A, E; try fold y in B; rewrite E; cbn [fst snd].
  - right. exists (count - 1). rewrite starts_in_start, inject_Z_plus.
    split; [lra|]. split; [lra|]. split; [lra|]. split; [lra|]. destruct (inwin t u now); reflexivity.
  - right. exists (y - 1). rewrite starts_in_start, inject_Z_plus.
    split; [lra|]. split; [lra|]. split; [lra|]. split; [lra|]. destruct (inwin t u now); reflexivity.
  - left. split; [exact B|]. rewrite starts_in_sleep. reflexivity.
Qed.

(* inside: every remaining start is at or after `last` >= t *)
Lemma window_inside t u count rate : 1 <= count -> 0 <= rate -> forall att last tally,
  t <= last -> 0 <= tally -> monotone last att ->
  (u < last -> nstarts t u count rate (last, tally) att == 0) /\
  (last <= u -> nstarts t u count rate (last, tally) att <= tally + rate * (u - last)).
Proof.
  intros C1 R. induction att as [|[c now] r IH]; intros last tally T0 Y0 M.
  - rewrite nstarts_nil. split; [reflexivity|]. intros L.
    assert (0 <= rate * (u - last)) by (apply Qmult_le_0_compat; lra). lra.
  - destruct M as [Ln M].
    destruct (nstarts_cons t u count rate last tally c now r C1) as [(A & E)|(y' & A & B & C & D & E)]; rewrite E.
    + apply IH; auto. eapply monotone_weaken; eauto.
    + destruct (IH now y') as [I1 I2]; auto; try lra.
      split.
      * intros U. rewrite (inwin_after t u now) by lra. rewrite I1 by lra. reflexivity.
      * intros U. destruct (Qlt_le_dec u now) as [G|G].
        -- rewrite (inwin_after t u now) by lra. rewrite I1 by lra.
           assert (0 <= rate * (u - last)) by (apply Qmult_le_0_compat; lra). lra.
        -- specialize (I2 G).
           assert (X : (if inwin t u now then 1 else 0) <= 1) by (destruct (inwin t u now); lra).
           assert (Z : rate * (u - now) + (now - last) * rate == rate * (u - last)) by ring.
           lra.
Qed.

(* anywhere: the state may be older than the window *)
Lemma window_general t u count rate : 1 <= count -> 0 <= rate -> t <= u -> forall att last tally,
  0 <= tally -> tally <= count -> monotone last att ->
  nstarts t u count rate (last, tally) att <= count + rate * (u - t).
Proof.
  intros C1 R TU.
  assert (P0 : 0 <= rate * (u - t)) by (apply Qmult_le_0_compat; lra).
  induction att as [|[c now] r IH]; intros last tally Y0 Y1 M.
  - rewrite nstarts_nil. lra.
  - destruct M as [Ln M].
    destruct (nstarts_cons t u count rate last tally c now r C1) as [(A & E)|(y' & A & B & C & D & E)]; rewrite E.
    + apply IH; auto. eapply monotone_weaken; eauto.
    + destruct (Qlt_le_dec now t) as [G|G].
      * rewrite (inwin_before t u now G). assert (IH' := IH now y' D ltac:(lra) M). lra.
      * destruct (window_inside t u count rate C1 R r now y' G D M) as [I1 I2].
        destruct (Qlt_le_dec u now) as [H|H].
        -- rewrite (inwin_after t u now H), (I1 H). lra.
        -- specialize (I2 H).
           assert (X : (if inwin t u now then 1 else 0) <= 1) by (destruct (inwin t u now); lra).
           assert (P1 : 0 <= rate * (now - t)) by (apply Qmult_le_0_compat; lra).
           assert (Z : rate * (u - now) + rate * (now - t) == rate * (u - t)) by ring.
           lra.
Qed.

Lemma rate_nonneg count seconds : 1 <= count -> 0 < seconds -> 0 <= thr_rate count seconds.
Proof.
  intros C S. rewrite bridge_thr_rate. unfold Qdiv. apply Qmult_le_0_compat; [lra|].
  apply Qlt_le_weak, Qinv_lt_0_compat, S.
Qed.

(* THE RATE BOUND: in any window [t, t+W] the number of starts, over all callers, is at most
   count + (count/seconds) * W. *)
Theorem thr_rate_bound count seconds t0 att t W :
  1 <= count -> 0 < seconds -> 0 <= W -> monotone t0 att ->
  let es := snd (thr_run count (thr_rate count seconds) (thr_init t0 count) att) in
  inject_Z (starts_in t (t + W) es) <= count + (count / seconds) * W.
Proof.
  intros C S HW M es. subst es. rewrite bridge_thr_init.
  pose proof (window_general t (t + W) count (thr_rate count seconds) C (rate_nonneg _ _ C S)) as G.
  assert (TU : t <= t + W) by lra. specialize (G TU att t0 count).
  unfold nstarts in G. rewrite bridge_thr_rate in *.
  assert (Z : count / seconds * (t + W - t) == count / seconds * W) by ring.
  assert (G' := G ltac:(lra) ltac:(lra) M). lra.
Qed.

(* lone caller: after a sleep of the computed delay (or longer) the next attempt starts the call *)
Theorem thr_lone_progress count rate s now dl now' :
  0 < rate -> snd (thr_attempt count rate s now) = TSleep dl -> now + dl <= now' ->
  0 < dl /\ fst (thr_attempt count rate s now) = s /\
  snd (thr_attempt count rate (fst (thr_attempt count rate s now)) now') = TStart now'.
Proof.
  intros R E L. destruct s as [last tally].
  destruct (bridge_thr_attempt count rate last tally now) as [(A & E1)|[(A & B & E1)|(A & B & E1)]];
    rewrite E1 in E |- *; cbn [fst snd] in *; try discriminate.
  inversion E as [D]. clear E.
  set (y := tally + (now - last) * rate) in *.
  assert (DR : (1 - y) / rate * rate == 1 - y) by (field; lra).
  assert (Dpos : 0 < (1 - y) / rate).
  { unfold Qdiv. apply Qmult_lt_0_compat; [lra|]. apply Qinv_lt_0_compat, R. }
  rewrite D in DR, Dpos |- *. clear D.
  split; [exact Dpos|]. split; [reflexivity|].
  assert (Y' : 1 <= tally + (now' - last) * rate).
  { assert (M : (now + dl - last) * rate <= (now' - last) * rate).
    { apply Qmult_le_compat_r; lra. }
    assert (X : (now + dl - last) * rate == (now - last) * rate + dl * rate) by ring.
    unfold y in DR. lra. }
  destruct (bridge_thr_attempt count rate last tally now') as [(A' & E2)|[(A' & B' & E2)|(A' & B' & E2)]];
    rewrite E2; cbn [snd]; try reflexivity. lra.
Qed.

(* non-vacuity: 2 calls per second, three callers arriving together, then the sleeper returns *)
Example thr_nonvacuous :
  check_throttle 2 1 0 [(0%nat, 0); (1%nat, 0); (2%nat, 0); (2%nat, 1 # 2); (0%nat, 1 # 2)]
    [(0%nat, TStart 0); (1%nat, TStart 0); (2%nat, TSleep (1 # 2)); (2%nat, TStart (1 # 2)); (0%nat, TSleep (1 # 2))]
    (1 # 2, 0) = true /\ monotone 0 [(0%nat, 0); (1%nat, 0); (2%nat, 0); (2%nat, 1 # 2); (0%nat, 1 # 2)].
Proof. split; [vm_compute; reflexivity|cbn; repeat split; lra]. Qed.
