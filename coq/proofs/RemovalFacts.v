(* C03, last clause: nothing is ever removed except by an explicit removal call, by expiry, or by
   size-based eviction once the size limit has been reached.  Row level, every state with ascending
   rowids (i.e. every reachable state), every configuration, clock value and volume oracle. *)
From DC Require Import DCPrelude DCPreludeFacts Val DiskBase SqlBase Gen_Disk Disk Gen_Sql Cache
     TableFacts TableRows SqlBridge ExpiryFacts.

Definition has (s : st) (rid : Z) : Prop := exists r, In r (rows s) /\ rowid r = rid.

(* why an item may disappear during a write *)
Definition evictable (c : cfg) (pg : Z) : Prop :=
  policy_has_cull (c_policy c) = true /\ exists s1, c_size_limit c <= volume pg s1.

Lemma bridge_cull_skip_policy sp vol lim : cull_skip_policy sp vol lim = is_none sp || (vol <? lim).
Proof. reflexivity. Qed.

Lemma bridge_cull_expired_delete now lim t r :
  cull_expired_delete now lim t r = mem_rowid (rowid r) (cull_expired_select now lim t).
Proof. unfold cull_expired_delete, cull_expired_select, truthy. destruct (mem_rowid _ _); reflexivity. Qed.

Lemma has_t_delete wh s r : In r (rows s) -> wh r = false -> has (t_delete wh s) (rowid r).
Proof. intros I W. exists r. split; [|reflexivity]. rewrite rows_t_delete. apply filter_In. rewrite W. auto. Qed.

Lemma has_t_update wh f s rid : keeps_id f -> has s rid -> has (t_update wh f s) rid.
Proof.
  intros K [r [I E]]. rewrite <- E. exists (if wh r then f r else r). split.
  - rewrite rows_t_update. apply in_map_iff. exists r. auto.
  - destruct (wh r); [apply K|reflexivity].
Qed.

Lemma has_t_insert mk s rid : has s rid -> has (t_insert mk s) rid.
Proof. intros [r [I E]]. exists r. split; [|exact E]. rewrite rows_t_insert. apply in_or_app. auto. Qed.

Lemma has_rows_eq s s' rid : rows s' = rows s -> has s rid -> has s' rid.
Proof. intros E [r [I Er]]. exists r. rewrite E. auto. Qed.

Lemma mem_rowid_in i sel : mem_rowid i sel = true -> exists x, In x sel /\ rowid x = i.
Proof. unfold mem_rowid. intros H. apply existsb_exists in H as [x [I E]]. apply Z.eqb_eq in E. eauto. Qed.

(* the lazy cull: an item it removes had expired, or the size limit had been reached under an evicting policy *)
Theorem cull_removes_only c now pg s r :
  rowids_ok s -> In r (rows s) -> ~ has (fst (cull c now pg s)) (rowid r) ->
  passed now r = true \/ evictable c pg.
Proof.
  intros Ok I G. unfold cull in G.
  destruct (cull_disabled (c_cull_limit c)); [exfalso; apply G; exists r; auto|].
  set (er := cull_expired_select now (c_cull_limit c) (rows s)) in *.
  destruct (negb (is_nil er)) eqn:Ne.
  - (* expired rows were deleted first *)
    set (s1 := t_delete (cull_expired_delete now (c_cull_limit c) (rows s)) s) in *.
    destruct (cull_expired_delete now (c_cull_limit c) (rows s) r) eqn:W.
    + left. rewrite bridge_cull_expired_delete in W. apply mem_rowid_in in W as [x [Ix Ex]].
      apply lazy_cull_selects_passed in Ix as [Ix P]. rewrite (rowid_unique s r x Ok I Ix (eq_sym Ex)). exact P.
    + assert (H1 : has s1 (rowid r)) by (apply has_t_delete; assumption).
      destruct (cull_exhausted _); [contradiction|].
      rewrite bridge_cull_skip_policy in G.
      destruct (policy_has_cull (c_policy c)) eqn:Pc; cbn [is_none is_some negb orb] in G; [|contradiction].
      destruct (volume pg s1 <? c_size_limit c) eqn:V; [contradiction|].
      right. split; [exact Pc|]. exists s1. lia.
  - rewrite bridge_cull_skip_policy in G.
    destruct (policy_has_cull (c_policy c)) eqn:Pc; cbn [is_none is_some negb orb] in G; [|exfalso; apply G; exists r; auto].
    destruct (volume pg s <? c_size_limit c) eqn:V; [exfalso; apply G; exists r; auto|].
    right. split; [exact Pc|]. exists s. lia.
Qed.

(* set / add on key k never remove another key's item except through that cull *)
Lemma first_match_in dbk rz t r0 rs : filter (key_match dbk rz) t = r0 :: rs -> In r0 t /\ key_match dbk rz r0 = true.
Proof. apply filter_cons_in. Qed.

Theorem set_removes_only c s k v rd e tag now pg r dbk raw :
  rowids_ok s -> put (c_codec c) k = PutOk dbk raw -> In r (rows s) -> key_match dbk (b2z raw) r = false ->
  ~ has (fst (op_set c s k v rd e tag now pg)) (rowid r) ->
  passed now r = true \/ evictable c pg.
Proof.
  intros Ok P I M G. unfold op_set in G. rewrite P in G.
  destruct (store _ _ v rd) as [sd|]; [|exfalso; apply G; exists r; auto].
  destruct (fs_write s (s_file sd)) as [s1 fid] eqn:W.
  assert (R1 : rows s1 = rows s) by (pose proof (rows_fs_write s (s_file sd)) as X; rewrite W in X; exact X).
  assert (Ok1 : rowids_ok s1) by (unfold rowids_ok; rewrite R1; exact Ok).
  rewrite bridge_set_select in G.
  destruct (filter (key_match dbk (b2z raw)) (rows s1)) as [|r0 rs] eqn:F.
  - set (s2 := t_insert _ s1) in *.
    destruct (cull c now pg s2) as [s3 cl2] eqn:C. cbn [fst] in G.
    assert (I2 : In r (rows s2)) by (unfold s2; rewrite rows_t_insert, R1; apply in_or_app; auto).
    assert (Ok2 : rowids_ok s2) by (apply (pc_insert _ rowids_closed); [apply bridge_columns_insert_at|exact Ok1]).
    apply (cull_removes_only c now pg s2 r Ok2 I2). rewrite C. cbn [fst].
    intros H. apply G. eapply has_rows_eq; [apply rows_fs_remove|exact H].
  - apply first_match_in in F as [I0 M0].
    set (s2 := columns_update (rowid r0) now (expire_at now e) tag sd fid s1) in *.
    destruct (cull c now pg s2) as [s3 cl2] eqn:C. cbn [fst] in G.
    assert (Ne : rowid r <> rowid r0).
    { intros E. rewrite R1 in I0. rewrite (rowid_unique s r r0 Ok I I0 E) in M. congruence. }
    assert (I2 : In r (rows s2)).
    { unfold s2, columns_update. rewrite rows_t_update, R1. apply in_map_iff. exists r. split; [|exact I].
      unfold row_update_where, tvz_eq. cbn. apply Z.eqb_neq in Ne. rewrite Ne. reflexivity. }
    assert (Ok2 : rowids_ok s2) by (apply (pc_update _ rowids_closed); [apply bridge_row_update_keeps_id|exact Ok1]).
    apply (cull_removes_only c now pg s2 r Ok2 I2). rewrite C. cbn [fst].
    intros H. apply G. eapply has_rows_eq; [apply rows_fs_remove|exact H].
Qed.

(* lookups and touch remove nothing *)
Theorem get_removes_nothing c s k rd now rid : has s rid -> has (fst (op_get c s k rd now)) rid.
Proof.
  intros H. unfold op_get. destruct (put _ k); [|exact H].
  destruct (get_fast_path _ _).
  - destruct (get_select _ _ _ _); [exact H|]. destruct (fetch_row _ _ _ _); exact H.
  - destruct (get_select _ _ _ _); cbn [fst]; [eapply has_rows_eq; [apply rows_bump|exact H]|].
    destruct (fetch_row _ _ _ _); cbn [fst]; try (eapply has_rows_eq; [apply rows_bump|exact H]);
      destruct (policy_has_get _);
      try (apply has_t_update; [apply bridge_policy_get_update_keeps_id|]);
      (eapply has_rows_eq; [apply rows_bump|exact H]).
Qed.

Theorem contains_removes_nothing c s k now : fst (op_contains c s k now) = s.
Proof. unfold op_contains. destruct (put _ k); reflexivity. Qed.

Theorem touch_removes_nothing c s k e now rid : has s rid -> has (fst (op_touch c s k e now)) rid.
Proof.
  intros H. unfold op_touch. destruct (put _ k); [|exact H].
  destruct (touch_select _ _ _); [exact H|]. destruct (touch_live _ _); cbn [fst]; [|exact H].
  apply has_t_update; [apply bridge_touch_update_keeps_id|exact H].
Qed.

(* delete / pop remove exactly the one live item the key addresses *)
Theorem delete_removes_only c s k di now r dbk raw :
  rowids_ok s -> put (c_codec c) k = PutOk dbk raw -> In r (rows s) ->
  ~ has (fst (op_delete c s k di now)) (rowid r) ->
  key_match dbk (b2z raw) r = true /\ live_at now r = true.
Proof.
  intros Ok P I G. unfold op_delete in G. rewrite P, bridge_del_select in G.
  destruct (filter _ (rows s)) as [|r0 rs] eqn:F; [exfalso; apply G; destruct di; exists r; auto|].
  apply filter_cons_in in F as [I0 M0]. apply andb_true_iff in M0 as [M0 L0]. cbn [fst] in G.
  destruct (del_delete (rowid r0) (rows s) r) eqn:W.
  - rewrite bridge_del_delete in W. apply Z.eqb_eq in W. rewrite (rowid_unique s r r0 Ok I I0 W). auto.
  - exfalso. apply G. eapply has_rows_eq; [apply rows_fs_remove|]. apply has_t_delete; assumption.
Qed.

Theorem pop_removes_only c s k now r dbk raw :
  rowids_ok s -> put (c_codec c) k = PutOk dbk raw -> In r (rows s) ->
  ~ has (fst (op_pop c s k now)) (rowid r) ->
  key_match dbk (b2z raw) r = true /\ live_at now r = true.
Proof.
  intros Ok P I G. unfold op_pop in G. rewrite P, bridge_pop_select in G.
  destruct (filter _ (rows s)) as [|r0 rs] eqn:F; [exfalso; apply G; exists r; auto|].
  apply filter_cons_in in F as [I0 M0]. apply andb_true_iff in M0 as [M0 L0]. cbv zeta in G.
  destruct (pop_delete (rowid r0) (rows s) r) eqn:W.
  - rewrite bridge_pop_delete in W. apply Z.eqb_eq in W. rewrite (rowid_unique s r r0 Ok I I0 W). auto.
  - exfalso. apply G.
    assert (H1 : has (fs_remove (t_delete (pop_delete (rowid r0) (rows s)) s) [rfile r0]) (rowid r)).
    { eapply has_rows_eq; [apply rows_fs_remove|]. apply has_t_delete; assumption. }
    destruct (fetch_row _ _ r0 false); exact H1.
Qed.

(* insertion order: a new item gets a rowid above every existing one, and replacing keeps the rowid *)
Theorem insert_appends mk s : inserts_at mk ->
  rows (t_insert mk s) = rows s ++ [mk (next_rowid (rows s))] /\
  forall r, In r (rows s) -> rowid r < rowid (mk (next_rowid (rows s))).
Proof. intros Hm. split; [apply rows_t_insert|]. intros r I. rewrite Hm. apply next_rowid_gt, I. Qed.

Example cull_removes_only_nonvacuous :
  exists s, rowids_ok s /\ rows s <> [].
Proof.
  exists (t_insert (columns_insert (SText [97]) true 0 None SNull
                     {| s_size := 0; s_mode := 1; s_file := None; s_col := SInt 1 |} None) init_st).
  split; [apply (pc_insert _ rowids_closed); [apply bridge_columns_insert_at|apply rowids_init] | discriminate].
Qed.
