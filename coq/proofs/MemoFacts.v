(* The memoizing wrappers return what the function returns (C16). *)
From DC Require Import DCPrelude DCPreludeFacts ArgsKeyBase Gen_ArgsKey Memo ArgsKeyFacts.

Section W.
  Variable f : list el -> kwargs_t -> Z.
  Variables (base : list el) (typed : bool) (ig : ignore_t).

  (* calls on which the key is injective: no positional None (finding C16-F1 is the complement) *)
  Definition wf_call (a : list el) : Prop := no_none (visible_args ig a) = true.

  (* f may not depend on ignored arguments (that is what `ignore` promises the decorator) *)
  Hypothesis f_visible : forall a1 kw1 a2 kw2,
      visible_args ig a1 = visible_args ig a2 -> visible_kwargs ig kw1 = visible_kwargs ig kw2 ->
      f a1 kw1 = f a2 kw2.

  Definition K a kw := args_to_key base a kw typed ig.

  (* every entry stored under a memo key of a well-formed call holds that call's result;
     "no foreign writer of the memo keys" is exactly the assumption that this is all that is ever
     stored under such keys. *)
  Definition memo_ok (s : mstore) : Prop :=
    forall e, In e s -> forall a kw, wf_call a -> e_key e = K a kw -> e_val e = f a kw.

  Lemma mget_some now k s v : mget now k s = Some v -> exists e, In e s /\ e_key e = k /\ e_val e = v /\ live now e = true.
  Proof.
    induction s as [|e s IH]; cbn; [discriminate|].
    destruct (key_eqb (e_key e) k) eqn:E.
    - destruct (live now e) eqn:L; [|discriminate]. intros H; inversion H; subst.
      exists e. apply key_eqb_spec in E. auto.
    - intros H. destruct (IH H) as [e' [? ?]]. exists e'. auto.
  Qed.

  Lemma mset_in k v x s e : In e (mset k v x s) -> In e s \/ e = {| e_key := k; e_val := v; e_exp := x |}.
  Proof.
    induction s as [|e0 s IH]; cbn.
    - intros [<-|[]]; auto.
    - destruct (key_eqb (e_key e0) k); cbn; intros [<-|H]; auto. destruct (IH H); auto.
  Qed.

  Lemma key_eqb_refl k : key_eqb k k = true.
  Proof. apply key_eqb_spec; reflexivity. Qed.

  Lemma mget_mset_same now k v x s :
    (match x with None => true | Some t => t >? now end) = true ->
    mget now k (mset k v x s) = Some v.
  Proof.
    intros L. induction s as [|e0 s IH]; cbn.
    - rewrite key_eqb_refl. unfold live; cbn. rewrite L. reflexivity.
    - destruct (key_eqb (e_key e0) k) eqn:E; cbn.
      + rewrite key_eqb_refl. unfold live; cbn. rewrite L. reflexivity.
      + rewrite E. exact IH.
  Qed.

  Lemma memo_ok_mset s a kw x : wf_call a -> memo_ok s -> memo_ok (mset (K a kw) (f a kw) x s).
  Proof.
    intros W H e I a' kw' W' Ek. apply mset_in in I as [I| ->]; [eauto|]. cbn in *.
    unfold K in Ek. apply key_injective_partial in Ek as [E1 E2]; auto.
  Qed.

  (* Cache.memoize / FanoutCache.memoize / Index.memoize (expire = None) *)
  Theorem wrapper_returns_f expire now s a kw :
    memo_ok s -> wf_call a ->
    let '(r, s', _) := wrapper f base typed ig expire now s a kw in
    r = f a kw /\ memo_ok s'.
  Proof.
    intros H W. unfold wrapper. fold (K a kw).
    destruct (mget now (K a kw) s) as [v|] eqn:G.
    - apply mget_some in G as [e [I [Ek [Ev _]]]]. split; [|exact H]. rewrite <- Ev. eauto.
    - destruct (memo_store_cache expire); split; auto using memo_ok_mset.
  Qed.

  (* a repeated call within the expiry time is served from the cache, f is not run again *)
  Theorem wrapper_repeat_hits expire now now' s a kw :
    mget now (K a kw) s = None ->
    (match expire with None => True | Some d => d > 0 /\ now' < now + d end) ->
    let '(_, s', _) := wrapper f base typed ig expire now s a kw in
    wrapper f base typed ig expire now' s' a kw = (f a kw, s', false).
  Proof.
    intros G L. unfold wrapper at 1. fold (K a kw). rewrite G.
    pose proof (bridge_memo_store_cache expire) as B.
    destruct expire as [d|].
    - destruct L as [L1 L2]. replace (d >? 0) with true in B by lia. rewrite B.
      unfold wrapper. fold (K a kw). rewrite mget_mset_same; [reflexivity|lia].
    - rewrite B. unfold wrapper. fold (K a kw). rewrite mget_mset_same; reflexivity.
  Qed.

  (* an expiry of zero (or less) stores nothing *)
  Theorem wrapper_zero_stores_nothing d now s a kw :
    d <= 0 -> snd (fst (wrapper f base typed ig (Some d) now s a kw)) = s.
  Proof.
    intros L. unfold wrapper. destruct (mget _ _ _); [reflexivity|].
    rewrite bridge_memo_store_cache. replace (d >? 0) with false by lia. reflexivity.
  Qed.

  (* DjangoCache.memoize *)
  Theorem wrapper_django_returns_f dflt timeout now s a kw :
    memo_ok s -> wf_call a ->
    let '(r, s', _) := wrapper_django f base typed ig dflt timeout now s a kw in
    r = f a kw /\ memo_ok s'.
  Proof.
    intros H W. unfold wrapper_django. fold (K a kw).
    destruct (mget now (K a kw) s) as [v|] eqn:G.
    - apply mget_some in G as [e [I [Ek [Ev _]]]]. split; [|exact H]. rewrite <- Ev. eauto.
    - destruct (memo_store_django timeout); split; auto using memo_ok_mset.
  Qed.

  Theorem wrapper_django_zero_stores_nothing dflt d now s a kw :
    d <= 0 -> snd (fst (wrapper_django f base typed ig dflt (DjNum d) now s a kw)) = s.
  Proof.
    intros L. unfold wrapper_django. destruct (mget _ _ _); [reflexivity|].
    rewrite bridge_memo_store_django. replace (d >? 0) with false by lia. reflexivity.
  Qed.
End W.

Example memo_ok_nonvacuous :
  memo_ok (fun _ _ => 7) [EStr [102]] false no_ignore
          [{| e_key := args_to_key [EStr [102]] [EObj 10 1] [] false no_ignore; e_val := 7; e_exp := None |}].
Proof. intros e [<-|[]] a kw _ _. reflexivity. Qed.
