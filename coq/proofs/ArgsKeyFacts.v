(* Facts about the generated args_to_key (C16).  The two bridge lemmas at the top are the only
   places that look inside the generated definitions. *)
From DC Require Import DCPrelude DCPreludeFacts ArgsKeyBase Gen_ArgsKey Memo.

(* ---- bridge lemmas: what the proofs need from the generated file ---- *)
Lemma bridge_separator : separator = [ENone].
Proof. reflexivity. Qed.

Lemma bridge_items_sorted : items_sorted = true.
Proof. reflexivity. Qed.

Lemma bridge_stampede_suffix : stampede_suffix = [EEnoval].
Proof. reflexivity. Qed.

Lemma bridge_memo_store_cache e :
  memo_store_cache e = match e with None => true | Some d => d >? 0 end.
Proof. destruct e; reflexivity. Qed.

Lemma bridge_memo_store_django t :
  memo_store_django t = match t with DjDefault => true | DjNone => true | DjNum d => d >? 0 end.
Proof. destruct t; reflexivity. Qed.

(* ---- el equality ---- *)
Lemma el_eqb_spec a b : el_eqb a b = true <-> a = b.
Proof.
  destruct a, b; cbn; try (split; congruence).
  - rewrite zlist_eqb_spec. split; congruence.
  - rewrite andb_true_iff, !Z.eqb_eq. split; [intros [-> ->]; reflexivity|intros E; inversion E; auto].
  - rewrite Z.eqb_eq. split; congruence.
Qed.

Lemma key_eqb_spec a b : key_eqb a b = true <-> a = b.
Proof. apply list_eqb_spec, el_eqb_spec. Qed.

(* ---- normal form of the key ---- *)
Definition types_part (typed : bool) (va : list el) (vk : kwargs_t) : list el :=
  if typed then map type_el va ++ map (fun kv => type_el (snd kv)) vk else [].

Lemma order_items_nil b : order_items b [] = [].
Proof. destruct b; reflexivity. Qed.

Lemma order_items_is_nil b kw : is_nil (order_items b kw) = is_nil kw.
Proof.
  destruct b; cbn; auto. unfold order_items.
  pose proof (sort_stable_length (fun a b : list Z * el => name_ltb (fst a) (fst b)) kw) as L.
  destruct kw, (sort_stable _ _); cbn in *; auto; discriminate.
Qed.

Lemma args_to_key_nf base a kw typed ig :
  args_to_key base a kw typed ig =
  base ++ visible_args ig a ++ [ENone] ++ flat_map item_flat (visible_kwargs ig kw)
       ++ types_part typed (visible_args ig a) (visible_kwargs ig kw).
Proof.
  unfold args_to_key, visible_args, visible_kwargs, types_part.
  rewrite bridge_separator, bridge_items_sorted.
  destruct kw as [|p kw].
  - cbn [is_nil negb filter]. rewrite order_items_nil. cbn [flat_map map is_nil negb].
    destruct typed; rewrite ?app_nil_r, <- ?app_assoc; cbn; rewrite ?app_nil_r; reflexivity.
  - cbn [is_nil negb]. set (k' := filter _ (p :: kw)).
    destruct typed.
    + assert (E : (if negb (is_nil k') then map (fun kv => type_el (snd kv)) (order_items true k') else [])
                  = map (fun kv => type_el (snd kv)) (order_items true k')).
      { destruct k'; cbn [is_nil negb]; auto. }
      rewrite E. rewrite <- !app_assoc. reflexivity.
    + rewrite app_nil_r, <- !app_assoc. reflexivity.
Qed.

(* ---- splitting at the first None ---- *)
Definition no_none (l : list el) : bool := forallb (fun e => negb (el_eqb e ENone)) l.

Lemma split_first_none a1 : forall a2 r1 r2,
  no_none a1 = true -> no_none a2 = true ->
  a1 ++ ENone :: r1 = a2 ++ ENone :: r2 -> a1 = a2 /\ r1 = r2.
Proof.
  induction a1 as [|x a1 IH]; intros [|y a2] r1 r2 H1 H2 E; cbn in *.
  - inversion E; auto.
  - inversion E; subst. cbn in H2. discriminate.
  - inversion E; subst. cbn in H1. discriminate.
  - inversion E; subst. apply andb_true_iff in H1 as [_ H1]. apply andb_true_iff in H2 as [_ H2].
    destruct (IH a2 r1 r2 H1 H2 H3) as [-> ->]. auto.
Qed.

Lemma flat_items_inj (k1 : kwargs_t) : forall k2, flat_map item_flat k1 = flat_map item_flat k2 -> k1 = k2.
Proof.
  induction k1 as [|[n v] k1 IH]; intros [|[m w] k2]; cbn; try discriminate; auto.
  intros E. inversion E; subst. f_equal. auto.
Qed.

Lemma flat_items_length (k : kwargs_t) : length (flat_map item_flat k) = (2 * length k)%nat.
Proof. induction k as [|p k IH]; cbn; auto. rewrite IH. lia. Qed.

(* ---- the injectivity theorem (partial: no None among the visible positional arguments) ---- *)
Theorem key_injective_partial base typed ig a1 kw1 a2 kw2 :
  no_none (visible_args ig a1) = true -> no_none (visible_args ig a2) = true ->
  args_to_key base a1 kw1 typed ig = args_to_key base a2 kw2 typed ig ->
  visible_args ig a1 = visible_args ig a2 /\ visible_kwargs ig kw1 = visible_kwargs ig kw2.
Proof.
  intros N1 N2. rewrite !args_to_key_nf. intros E.
  apply app_inv_head in E. cbn [app] in E.
  destruct (split_first_none _ _ _ _ N1 N2 E) as [Ea Er]. split; [exact Ea|].
  rewrite Ea in Er. unfold types_part in Er. destruct typed.
  - set (k1 := visible_kwargs ig kw1) in *. set (k2 := visible_kwargs ig kw2) in *.
    assert (L : length k1 = length k2).
    { apply (f_equal (@length el)) in Er. rewrite !app_length, !map_length, !flat_items_length in Er. lia. }
    apply app_eq_length_inv in Er; [|rewrite !flat_items_length; lia].
    apply flat_items_inj, Er.
  - rewrite !app_nil_r in Er. apply flat_items_inj, Er.
Qed.

(* Different wrapped functions (base is the one-element tuple holding the function's name). *)
Theorem key_base_injective b1 b2 a1 kw1 a2 kw2 typed ig :
  args_to_key [b1] a1 kw1 typed ig = args_to_key [b2] a2 kw2 typed ig -> b1 = b2.
Proof. rewrite !args_to_key_nf. cbn. intros E; inversion E; auto. Qed.

(* ---- the full statement is false of the code as written: None separates positional from keyword
        arguments, so a positional None can imitate the separator (finding C16-F1). ---- *)
Definition w_a1 : list el := [EObj 10 1; ENone; EStr [97]].
Definition w_kw1 : kwargs_t := [].
Definition w_a2 : list el := [EObj 10 1].
Definition w_kw2 : kwargs_t := [([97], ENone)].
Definition no_ignore := {| ig_pos := []; ig_names := [] |}.

Theorem key_injective_refuted :
  exists base typed ig a1 kw1 a2 kw2,
    args_to_key base a1 kw1 typed ig = args_to_key base a2 kw2 typed ig /\
    visible_args ig a1 <> visible_args ig a2.
Proof.
  exists [EStr [102]], false, no_ignore, w_a1, w_kw1, w_a2, w_kw2.
  split; [vm_compute; reflexivity | vm_compute; discriminate].
Qed.

(* non-vacuity of the partial theorem's hypotheses *)
Example key_injective_hyps_satisfiable :
  no_none (visible_args no_ignore [EObj 10 1; EStr [97]]) = true.
Proof. reflexivity. Qed.

(* ---- the recompute-guard key of memoize_stampede is never a memo key ---- *)
Definition no_enoval (l : list el) : Prop := ~ In EEnoval l.

Lemma filter_index_from_in {A} f i (l : list A) x : In x (filter_index_from f i l) -> In x l.
Proof.
  revert i; induction l as [|y l IH]; cbn; intros i; auto.
  destruct (f i); cbn; intuition eauto.
Qed.

Theorem stampede_guard_distinct base typed ig a kw a' kw' :
  no_enoval base -> no_enoval a' -> (forall n v, In (n, v) kw' -> v <> EEnoval) ->
  args_to_key base a kw typed ig ++ stampede_suffix <> args_to_key base a' kw' typed ig.
Proof.
  intros Hb Ha Hk E. rewrite bridge_stampede_suffix in E.
  assert (I : In EEnoval (args_to_key base a' kw' typed ig)).
  { rewrite <- E. apply in_or_app. right. left. reflexivity. }
  rewrite args_to_key_nf in I. unfold types_part, visible_args, visible_kwargs, filter_index in I.
  repeat (apply in_app_or in I as [I|I]).
  - exact (Hb I).
  - apply filter_index_from_in in I. exact (Ha I).
  - cbn in I. destruct I as [I|[]]. discriminate.
  - apply in_flat_map in I as [[n v] [I1 I2]]. unfold order_items in I1.
    apply sort_stable_in, filter_In in I1 as [I1 _].
    cbn in I2. destruct I2 as [I2|[I2|[]]]; [discriminate|]. cbn in I2. subst. eapply Hk; eauto.
  - destruct typed; [|destruct I].
    apply in_app_or in I as [I|I]; apply in_map_iff in I as [x [I _]]; discriminate.
Qed.

(* ---- the base derived for a function memoized without name= (full_name, generated from core.py):
        within one module, functions with different qualified names get different bases, hence
        (key_base_injective) never share an entry ---- *)
Theorem full_name_injective m q1 q2 : full_name m q1 = full_name m q2 -> q1 = q2.
Proof. unfold full_name. intros E. apply app_inv_head in E. apply app_inv_head in E. exact E. Qed.

Theorem derived_names_never_share m q1 q2 a1 kw1 a2 kw2 typed ig :
  args_to_key [EStr (full_name m q1)] a1 kw1 typed ig = args_to_key [EStr (full_name m q2)] a2 kw2 typed ig -> q1 = q2.
Proof.
  intros E. apply key_base_injective in E. inversion E as [E']. apply (full_name_injective m), E'.
Qed.
