(* Order facts about the SQLite comparison of base/Val.v (sql_cmp / num_cmp / dy_cmp / lex_cmp):
   equality under the comparison is symmetric and transitive (what the UNIQUE (key, raw) index relies on),
   and facts about ORDER BY / LIMIT on a table that is already in the requested order (used by iteration). *)
From Coq Require Import ZArith List Bool Lia Sorted Permutation.
From DC Require Import DCPrelude DCPreludeFacts Val SqlBase SortFacts.

(* ------------------------------------------------------------------ dyadic comparison *)
Lemma pow2_pos e : 0 <= e -> 0 < pow2 e.
Proof. intros H. unfold pow2. apply Z.pow_pos_nonneg; lia. Qed.

(* the comparison may be carried out at any common scale not above both exponents *)
Lemma dy_cmp_scale m1 e1 m2 e2 k : k <= e1 -> k <= e2 ->
  dy_cmp m1 e1 m2 e2 = (m1 * pow2 (e1 - k) ?= m2 * pow2 (e2 - k)).
Proof.
  intros H1 H2. unfold dy_cmp. cbv zeta.
  set (e := Z.min e1 e2). assert (Hk : k <= e) by (unfold e; lia).
  assert (He1 : e <= e1) by (unfold e; lia). assert (He2 : e <= e2) by (unfold e; lia).
  replace (e1 - k) with ((e1 - e) + (e - k)) by lia.
  replace (e2 - k) with ((e2 - e) + (e - k)) by lia.
  unfold pow2. rewrite !Z.pow_add_r by lia. rewrite !Z.mul_assoc.
  pose proof (pow2_pos (e - k)) as P. unfold pow2 in P.
  apply Zmult_compare_compat_r. lia.
Qed.

Lemma dy_cmp_antisym m1 e1 m2 e2 : dy_cmp m2 e2 m1 e1 = CompOpp (dy_cmp m1 e1 m2 e2).
Proof. unfold dy_cmp. cbv zeta. rewrite (Z.min_comm e2 e1). apply Z.compare_antisym. Qed.

Lemma dy_cmp_refl m e : dy_cmp m e m e = Eq.
Proof. unfold dy_cmp. cbv zeta. apply Z.compare_refl. Qed.

Lemma dy_cmp_eq_trans m1 e1 m2 e2 m3 e3 :
  dy_cmp m1 e1 m2 e2 = Eq -> dy_cmp m2 e2 m3 e3 = Eq -> dy_cmp m1 e1 m3 e3 = Eq.
Proof.
  set (k := Z.min e1 (Z.min e2 e3)).
  rewrite (dy_cmp_scale m1 e1 m2 e2 k), (dy_cmp_scale m2 e2 m3 e3 k), (dy_cmp_scale m1 e1 m3 e3 k) by (unfold k; lia).
  rewrite !Z.compare_eq_iff. congruence.
Qed.

(* the whole order is transitive, not only its equality *)
Lemma dy_cmp_lt_trans m1 e1 m2 e2 m3 e3 :
  dy_cmp m1 e1 m2 e2 = Lt -> dy_cmp m2 e2 m3 e3 = Lt -> dy_cmp m1 e1 m3 e3 = Lt.
Proof.
  set (k := Z.min e1 (Z.min e2 e3)).
  rewrite (dy_cmp_scale m1 e1 m2 e2 k), (dy_cmp_scale m2 e2 m3 e3 k), (dy_cmp_scale m1 e1 m3 e3 k) by (unfold k; lia).
  rewrite !Z.compare_lt_iff. lia.
Qed.

(* ------------------------------------------------------------------ num_cmp *)
Lemma num_cmp_antisym a b : num_cmp b a = CompOpp (num_cmp a b).
Proof. destruct a, b; cbn [num_cmp CompOpp]; try reflexivity. apply dy_cmp_antisym. Qed.

Lemma num_cmp_refl a : num_cmp a a = Eq.
Proof. destruct a; cbn [num_cmp]; auto using dy_cmp_refl. Qed.

Lemma num_cmp_eq_sym a b : num_cmp a b = Eq -> num_cmp b a = Eq.
Proof. intros H. rewrite num_cmp_antisym, H. reflexivity. Qed.

Lemma num_cmp_eq_trans a b c : num_cmp a b = Eq -> num_cmp b c = Eq -> num_cmp a c = Eq.
Proof.
  destruct a, b, c; cbn [num_cmp]; try congruence. apply dy_cmp_eq_trans.
Qed.

(* ------------------------------------------------------------------ sql_cmp *)
(* a REAL column never holds NaN (CPython binds NaN as NULL): the only sqlval excluded *)
Definition sv_wf (v : sqlval) : bool := match v with SReal FNaN => false | _ => true end.

Lemma sv_wf_num v : sv_wf v = true -> sql_class v = 1 -> exists n, sql_num v = Some n.
Proof.
  destruct v as [|z|f|s|s]; cbn; try discriminate; intros W _.
  - eauto.
  - destruct f as [|[]|[]|m e]; cbn; try discriminate; eauto.
Qed.

Lemma sql_cmp_class a b : sql_cmp a b = Eq -> sql_class a = sql_class b.
Proof.
  unfold sql_cmp. destruct (sql_class a ?= sql_class b) eqn:C; try discriminate.
  intros _. apply Z.compare_eq_iff. exact C.
Qed.

(* the comparison of two values of the numeric class *)
Lemma sql_cmp_numeric a b : sql_class a = 1 -> sql_class b = 1 ->
  sql_cmp a b = match sql_num a, sql_num b with Some x, Some y => num_cmp x y | _, _ => Eq end.
Proof.
  intros Ca Cb. unfold sql_cmp. rewrite Ca, Cb. cbn [Z.compare Pos.compare Pos.compare_cont].
  destruct a, b; try discriminate; reflexivity.
Qed.

Lemma sql_cmp_text s t : sql_cmp (SText s) (SText t) = lex_cmp s t.
Proof. reflexivity. Qed.
Lemma sql_cmp_blob s t : sql_cmp (SBlob s) (SBlob t) = lex_cmp s t.
Proof. reflexivity. Qed.

Lemma sql_class_cases v :
  (v = SNull) \/ (sql_class v = 1) \/ (exists s, v = SText s) \/ (exists s, v = SBlob s).
Proof. destruct v; eauto. Qed.

Lemma sql_cmp_antisym a b : sql_cmp b a = CompOpp (sql_cmp a b).
Proof.
  destruct (Z.compare_spec (sql_class a) (sql_class b)) as [E|L|G].
  - destruct (sql_class_cases a) as [->|[Ca|[[s ->]|[s ->]]]].
    + destruct b; try discriminate. reflexivity.
    + assert (Cb : sql_class b = 1) by congruence.
      rewrite (sql_cmp_numeric a b Ca Cb), (sql_cmp_numeric b a Cb Ca).
      destruct (sql_num a), (sql_num b); try reflexivity. apply num_cmp_antisym.
    + destruct b; try discriminate. rewrite !sql_cmp_text. apply lex_cmp_antisym.
    + destruct b; try discriminate. rewrite !sql_cmp_blob. apply lex_cmp_antisym.
  - unfold sql_cmp. rewrite (Z.compare_antisym (sql_class a)).
    apply Z.compare_lt_iff in L. rewrite L. reflexivity.
  - unfold sql_cmp. rewrite (Z.compare_antisym (sql_class a)).
    apply Z.compare_gt_iff in G. rewrite G. reflexivity.
Qed.

Lemma sql_cmp_eq_sym a b : sql_cmp a b = Eq -> sql_cmp b a = Eq.
Proof. intros H. rewrite sql_cmp_antisym, H. reflexivity. Qed.

Lemma sql_cmp_refl a : sql_cmp a a = Eq.
Proof.
  destruct (sql_class_cases a) as [->|[Ca|[[s ->]|[s ->]]]]; try reflexivity.
  - rewrite (sql_cmp_numeric a a Ca Ca). destruct (sql_num a); auto using num_cmp_refl.
  - rewrite sql_cmp_text. apply lex_cmp_refl.
  - rewrite sql_cmp_blob. apply lex_cmp_refl.
Qed.

(* transitivity of equality needs the MIDDLE value to be a real SQLite value (not REAL NaN, which the
   model's comparison treats as equal to every number) *)
Lemma sql_cmp_eq_trans a b c : sv_wf b = true ->
  sql_cmp a b = Eq -> sql_cmp b c = Eq -> sql_cmp a c = Eq.
Proof.
  intros W H1 H2. pose proof (sql_cmp_class a b H1) as C1. pose proof (sql_cmp_class b c H2) as C2.
  destruct (sql_class_cases b) as [->|[Cb|[[s ->]|[s ->]]]].
  - destruct a, c; try discriminate. reflexivity.
  - assert (Ca : sql_class a = 1) by congruence. assert (Cc : sql_class c = 1) by congruence.
    rewrite (sql_cmp_numeric a b Ca Cb) in H1. rewrite (sql_cmp_numeric b c Cb Cc) in H2.
    rewrite (sql_cmp_numeric a c Ca Cc).
    destruct (sv_wf_num b W Cb) as [y Ny]. rewrite Ny in H1, H2.
    destruct (sql_num a) as [x|]; [|reflexivity]. destruct (sql_num c) as [z|]; [|reflexivity].
    eapply num_cmp_eq_trans; eauto.
  - destruct a, c; try discriminate. rewrite sql_cmp_text in *.
    apply lex_cmp_eq in H1, H2. subst. apply lex_cmp_refl.
  - destruct a, c; try discriminate. rewrite sql_cmp_blob in *.
    apply lex_cmp_eq in H1, H2. subst. apply lex_cmp_refl.
Qed.

(* without the restriction transitivity fails: 1 = NaN = 2 in the model's order *)
Example sql_cmp_eq_trans_needs_wf :
  sql_cmp (SInt 1) (SReal FNaN) = Eq /\ sql_cmp (SReal FNaN) (SInt 2) = Eq /\ sql_cmp (SInt 1) (SInt 2) = Lt.
Proof. repeat split; reflexivity. Qed.

(* ------------------------------------------------------------------ take / drop / last *)
Lemma take_app_drop {A} n (l : list A) : l = take n l ++ drop n l.
Proof. symmetry. apply take_drop. Qed.

Lemma take_nonempty {A} n (l : list A) : (0 < n)%nat -> l <> [] -> take n l <> [].
Proof. destruct n; [lia|]. destruct l; [congruence|]. cbn. discriminate. Qed.

Lemma drop_length {A} n (l : list A) : length (drop n l) = (length l - n)%nat.
Proof. revert l. induction n; intros [|x l]; cbn; auto. Qed.

Lemma last_in {A} (l : list A) d : l <> [] -> In (last l d) l.
Proof.
  induction l as [|x l IH]; [congruence|]. intros _. destruct l as [|y l]; [left; reflexivity|].
  right. apply IH. discriminate.
Qed.

Lemma last_snoc {A} (l : list A) x d : last (l ++ [x]) d = x.
Proof. induction l as [|y l IH]; cbn; auto. destruct (l ++ [x]) eqn:E; [destruct l; discriminate|exact IH]. Qed.

Lemma list_snoc_cases {A} (l : list A) : l = [] \/ exists l' x, l = l' ++ [x].
Proof. destruct l as [|a l] using rev_ind; [left; reflexivity|right; eauto]. Qed.

(* ------------------------------------------------------------------ ORDER BY rowid on an ascending table *)
Definition rowid_ltb (a b : row) : bool := c_lt (lex_rcmp [ord_z rowid] a b).

Lemma rowid_ltb_spec a b : rowid_ltb a b = (rowid a <? rowid b).
Proof.
  unfold rowid_ltb, lex_rcmp, ord_z. destruct (Z.compare_spec (rowid a) (rowid b)) as [E|L|G]; cbn.
  - symmetry. apply Z.ltb_ge. lia.
  - symmetry. apply Z.ltb_lt. lia.
  - symmetry. apply Z.ltb_ge. lia.
Qed.

Definition asc (t : list row) : Prop := StronglySorted Z.lt (map rowid t).

Lemma asc_app_inv a b : asc (a ++ b) -> asc a /\ asc b /\ forall x y, In x a -> In y b -> rowid x < rowid y.
Proof.
  unfold asc. induction a as [|r a IH]; cbn; intros S.
  - repeat split; [constructor|exact S|intros x y []].
  - inversion S as [|? ? S' F]; subst. destruct (IH S') as [Sa [Sb L]]. repeat split.
    + constructor; [exact Sa|]. rewrite map_app in F. apply Forall_app in F as [F _]. exact F.
    + exact Sb.
    + intros x y [<-|Ix] Iy; [|auto]. rewrite Forall_forall in F. apply F. rewrite map_app. apply in_or_app. right.
      apply in_map, Iy.
Qed.

Lemma asc_filter p t : asc t -> asc (filter p t).
Proof.
  unfold asc. induction t as [|a t IH]; cbn; intros S; [constructor|]. inversion S as [|? ? S' F]; subst.
  destruct (p a); cbn; [|auto]. constructor; [auto|].
  apply Forall_forall. intros y I. apply in_map_iff in I as [r [<- I]]. apply filter_In in I as [I _].
  rewrite Forall_forall in F. apply F, in_map, I.
Qed.

(* ORDER BY rowid ASC leaves an ascending table alone *)
Lemma sort_rowid_asc t : asc t -> sort_stable rowid_ltb t = t.
Proof.
  induction t as [|x t IH] using rev_ind; intros S; [reflexivity|].
  apply asc_app_inv in S as [Sa [_ L]].
  rewrite sort_stable_snoc, (IH Sa). apply insert_stable_last.
  intros y Iy. rewrite rowid_ltb_spec. apply Z.ltb_ge. specialize (L y x Iy (or_introl eq_refl)). lia.
Qed.

Lemma sql_order_rowid_asc t : asc t -> sql_order false [ord_z rowid] t = t.
Proof. intros S. unfold sql_order. apply (sort_rowid_asc t S). Qed.

Lemma sql_order_rowid_desc t : asc t -> sql_order true [ord_z rowid] t = rev t.
Proof. intros S. unfold sql_order. f_equal. apply (sort_rowid_asc t S). Qed.

Lemma sql_limit_take n t : 0 <= n -> sql_limit n t = take (Z.to_nat n) t.
Proof. intros H. unfold sql_limit. destruct (Z.ltb_spec n 0); [lia|reflexivity]. Qed.

Print Assumptions sql_cmp_eq_trans.
Print Assumptions sql_cmp_antisym.
Print Assumptions sql_order_rowid_asc.
