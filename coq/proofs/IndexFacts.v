(* Index refines an insertion-ordered dictionary (C12, sequential clauses): on caches with distinct keys
   every operation of model/Index.v returns what the OrderedDict specification returns and leaves the
   same items in the same order. *)
From DC Require Import DCPrelude DCPreludeFacts PersistentBase Gen_Persistent QCache Index
     PersistentBridge QCacheFacts.

#[local] Opaque index_init_policy index_setdefault_returns_stored index_setdefault_add index_peekitem_call
  index_peekitem_last index_pop_default index_pop_call index_pop_miss index_pop_exn index_popitem_retry
  index_popitem_last index_clear_call index_getstate index_eq_len_differs index_eq_ordered_kinds
  index_eq_pair_differs.

Definition IInv (c : icache) : Prop := NoDup (ic_keys c).

Lemma pair_eqb_spec a b : pair_eqb a b = true <-> a = b.
Proof.
  destruct a as [k v], b as [k' v']. unfold pair_eqb. cbn. rewrite andb_true_iff, !Z.eqb_eq.
  split; [intros [-> ->]; reflexivity|intros E; inversion E; auto].
Qed.

(* ---- membership / lookup ---- *)

Lemma od_mem_in k l : od_mem k l = true <-> In k (map fst l).
Proof.
  unfold od_mem. rewrite existsb_exists. split.
  - intros [[k' v] [H E]]. cbn in E. apply Z.eqb_eq in E. subst. apply (in_map fst) in H. exact H.
  - intros H. apply in_map_iff in H as [[k' v] [E H]]. cbn in E. subst. exists (k, v). split; auto. cbn. apply Z.eqb_refl.
Qed.

Lemma od_mem_false k l : od_mem k l = false <-> ~ In k (map fst l).
Proof. rewrite <- od_mem_in. destruct (od_mem k l); split; congruence. Qed.

Lemma ic_get_find k c : ic_get k c = od_find k c.
Proof.
  unfold od_find. induction c as [|[k' v] c IH]; cbn; [reflexivity|].
  rewrite (Z.eqb_sym k' k). destruct (k =? k'); auto.
Qed.

Lemma od_find_mem k l : od_mem k l = match od_find k l with Some _ => true | None => false end.
Proof.
  unfold od_mem, od_find. induction l as [|[k' v] l IH]; cbn; [reflexivity|]. destruct (k' =? k); cbn; auto.
Qed.

Lemma ic_get_none_notin k c : ic_get k c = None <-> ~ In k (ic_keys c).
Proof.
  rewrite ic_get_find. pose proof (od_find_mem k c) as M. rewrite <- od_mem_false.
  destruct (od_find k c); rewrite M; split; congruence.
Qed.

(* ---- set ---- *)

Lemma map_replace_notin k v (l : items) :
  ~ In k (map fst l) -> map (fun kv => if fst kv =? k then (k, v) else kv) l = l.
Proof.
  induction l as [|[k' v'] l IH]; cbn; intros H; [reflexivity|].
  replace (k' =? k) with false by zbool. rewrite IH; auto.
Qed.

Lemma remove_notin k (l : items) : ~ In k (map fst l) -> od_remove k l = l.
Proof.
  unfold od_remove. induction l as [|[k' v'] l IH]; cbn; intros H; [reflexivity|].
  replace (k' =? k) with false by zbool. cbn. rewrite IH; auto.
Qed.

Lemma ic_set_od k v c : IInv c -> ic_set k v c = od_set k v c.
Proof.
  unfold IInv, od_set. induction c as [|[k' v'] c IH]; cbn [ic_set ic_keys map fst]; intros N; [reflexivity|].
  inversion N as [|? ? N1 N2]; subst. cbn [od_mem existsb fst map]. rewrite (Z.eqb_sym k' k).
  destruct (Z.eqb_spec k k') as [->|D]; cbn [orb].
  - rewrite map_replace_notin by exact N1. reflexivity.
  - rewrite IH by exact N2. fold (od_mem k c). destruct (od_mem k c); reflexivity.
Qed.

Lemma od_set_keys k v l :
  map fst (od_set k v l) = if od_mem k l then map fst l else map fst l ++ [k].
Proof.
  unfold od_set. destruct (od_mem k l).
  - rewrite map_map. apply map_ext_in. intros [k' v'] _. cbn. destruct (Z.eqb_spec k' k); cbn; congruence.
  - rewrite map_app. reflexivity.
Qed.

Lemma NoDup_snoc {A} (l : list A) x : NoDup l -> ~ In x l -> NoDup (l ++ [x]).
Proof.
  intros N H. apply NoDup_rev in N. rewrite <- (rev_involutive (l ++ [x])). apply NoDup_rev.
  rewrite rev_app_distr. cbn. constructor; auto. rewrite <- in_rev. exact H.
Qed.

Lemma NoDup_app_l {A} (l1 l2 : list A) : NoDup (l1 ++ l2) -> NoDup l1.
Proof.
  induction l1 as [|x l1 IH]; cbn; intros N; [constructor|]. inversion N as [|? ? N1 N2]; subst.
  constructor; auto. intros H. apply N1, in_or_app. auto.
Qed.

Lemma IInv_od_set k v l : IInv l -> IInv (od_set k v l).
Proof.
  unfold IInv, ic_keys. intros N. rewrite od_set_keys. destruct (od_mem k l) eqn:M; [exact N|].
  apply NoDup_snoc; auto. apply od_mem_false, M.
Qed.

Lemma ic_set_absent k v c : ic_get k c = None -> ic_set k v c = c ++ [(k, v)].
Proof.
  induction c as [|[k' v'] c IH]; cbn; [reflexivity|]. destruct (k =? k'); [discriminate|].
  intros H. rewrite IH; auto.
Qed.

Lemma ic_get_snoc_same k v c : ic_get k c = None -> ic_get k (c ++ [(k, v)]) = Some v.
Proof.
  induction c as [|[k' v'] c IH]; cbn; [rewrite Z.eqb_refl; reflexivity|]. destruct (k =? k'); [discriminate|]. exact IH.
Qed.

(* ---- delete ---- *)

Lemma remove_keys k (l : items) : map fst (od_remove k l) = filter (fun x => negb (x =? k)) (map fst l).
Proof.
  unfold od_remove. induction l as [|[k' v'] l IH]; cbn; [reflexivity|]. destruct (k' =? k); cbn; rewrite IH; reflexivity.
Qed.

Lemma IInv_remove k l : IInv l -> IInv (od_remove k l).
Proof. unfold IInv, ic_keys. intros N. rewrite remove_keys. apply NoDup_filter, N. Qed.

Lemma ic_del_od k c : IInv c -> ic_del k c = if od_mem k c then Some (od_remove k c) else None.
Proof.
  unfold IInv. induction c as [|[k' v'] c IH]; cbn [ic_del ic_keys map fst]; intros N; [reflexivity|].
  inversion N as [|? ? N1 N2]; subst. cbn [od_mem existsb fst]. rewrite (Z.eqb_sym k' k). fold (od_mem k c).
  unfold od_remove. cbn [filter fst]. rewrite (Z.eqb_sym k' k).
  destruct (Z.eqb_spec k k') as [->|D]; cbn [orb negb].
  - f_equal. symmetry. apply remove_notin, N1.
  - rewrite IH by exact N2. destruct (od_mem k c); reflexivity.
Qed.

Lemma ic_del_last c k v : ~ In k (ic_keys c) -> ic_del k (c ++ [(k, v)]) = Some c.
Proof.
  induction c as [|[k' v'] c IH]; cbn; intros H.
  - rewrite Z.eqb_refl. reflexivity.
  - replace (k =? k') with false by zbool. rewrite IH; auto.
Qed.

(* ---- views ---- *)

Lemma ic_get_mid c1 k v c2 : ~ In k (ic_keys c1) -> ic_get k (c1 ++ (k, v) :: c2) = Some v.
Proof.
  induction c1 as [|[k1 v1] c1 IH]; cbn; intros H.
  - rewrite Z.eqb_refl. reflexivity.
  - replace (k =? k1) with false by zbool. apply IH. auto.
Qed.

Lemma NoDup_mid_notin c1 k (v : val) c2 : NoDup (ic_keys (c1 ++ (k, v) :: c2)) -> ~ In k (ic_keys c1).
Proof.
  unfold ic_keys. rewrite map_app. cbn. intros N H. apply NoDup_remove_2 in N. apply N, in_or_app. auto.
Qed.

Lemma lookup_suffix {B} (f : Z -> val -> list B) c2 : forall c1, IInv (c1 ++ c2) ->
  flat_map (fun key => match ic_get key (c1 ++ c2) with Some v => f key v | None => [] end) (ic_keys c2)
  = flat_map (fun kv => f (fst kv) (snd kv)) c2.
Proof.
  induction c2 as [|[k v] c2 IH]; intros c1 N; cbn [ic_keys map fst flat_map]; [reflexivity|].
  rewrite ic_get_mid by (eapply NoDup_mid_notin; exact N). cbn [fst snd]. f_equal.
  specialize (IH (c1 ++ [(k, v)])). rewrite <- app_assoc in IH. apply IH, N.
Qed.

Lemma flat_map_single {A B} (g : A -> B) (l : list A) : flat_map (fun x => [g x]) l = map g l.
Proof. induction l; cbn; congruence. Qed.

Lemma ix_values_eq c : IInv c -> ix_values c = map snd c.
Proof.
  intros N. unfold ix_values. cbn [ic_iter].
  pose proof (lookup_suffix (fun _ v => [v]) c [] N) as L. cbn [app] in L. unfold ic_keys in *. rewrite L.
  apply flat_map_single.
Qed.

Lemma ix_items_eq c : IInv c -> ix_items c = c.
Proof.
  intros N. unfold ix_items. cbn [ic_iter].
  pose proof (lookup_suffix (fun k v => [(k, v)]) c [] N) as L. cbn [app] in L. unfold ic_keys in *. rewrite L.
  rewrite flat_map_single.
  rewrite <- (map_id c) at 2. apply map_ext. intros [k v]; reflexivity.
Qed.

Lemma forallb_lookup_suffix (h : Z -> option val -> bool) c2 : forall c1, IInv (c1 ++ c2) ->
  forallb (fun key => h key (ic_get key (c1 ++ c2))) (ic_keys c2)
  = forallb (fun kv => h (fst kv) (Some (snd kv))) c2.
Proof.
  induction c2 as [|[k v] c2 IH]; intros c1 N; cbn [ic_keys map fst forallb]; [reflexivity|].
  rewrite ic_get_mid by (eapply NoDup_mid_notin; exact N). cbn [fst snd]. f_equal.
  specialize (IH (c1 ++ [(k, v)])). rewrite <- app_assoc in IH. apply IH, N.
Qed.

(* ---- equality ---- *)

Lemma forallb_ext' {A} (f g : A -> bool) l : (forall x, f x = g x) -> forallb f l = forallb g l.
Proof. intros H. induction l; cbn; congruence. Qed.

Lemma existsb_ext' {A} (f g : A -> bool) l : (forall x, f x = g x) -> existsb f l = existsb g l.
Proof. intros H. induction l; cbn; congruence. Qed.

Lemma list_eqb_length_neq {A} (e : A -> A -> bool) (a b : list A) : length a <> length b -> list_eqb e a b = false.
Proof.
  revert b; induction a as [|x a IH]; intros [|y b] H; cbn in *; try congruence.
  rewrite IH by lia. apply andb_false_r.
Qed.

Lemma eq_ordered_walk (a b : items) : length a = length b ->
  negb (existsb (fun p => negb (fst (fst p) =? fst (snd p)) || negb (snd (fst p) =? snd (snd p))) (combine a b))
  = list_eqb pair_eqb a b.
Proof.
  revert b; induction a as [|[k v] a IH]; intros [|[k' v'] b] L; cbn in L; try discriminate; [reflexivity|].
  cbn [combine existsb list_eqb fst snd]. rewrite negb_orb, IH by lia. unfold pair_eqb at 2. cbn [fst snd].
  rewrite negb_orb, !negb_involutive. reflexivity.
Qed.

Lemma existsb_pair_get k v (other : items) : NoDup (map fst other) ->
  existsb (pair_eqb (k, v)) other = match ic_get k other with Some b => v =? b | None => false end.
Proof.
  induction other as [|[k' v'] other IH]; cbn [existsb ic_get map fst]; intros N; [reflexivity|].
  inversion N as [|? ? N1 N2]; subst. unfold pair_eqb at 1. cbn [fst snd].
  destruct (Z.eqb_spec k k') as [->|D]; cbn [andb orb].
  - destruct (v =? v') eqn:E; [reflexivity|]. cbn [orb].
    apply not_true_is_false. intros X. apply existsb_exists in X as [[k2 v2] [H X]].
    apply pair_eqb_spec in X. inversion X; subst. apply N1. apply (in_map fst) in H. exact H.
  - apply IH, N2.
Qed.

Lemma subset_incl a b : subset a b = true <-> incl a b.
Proof.
  unfold subset, incl. rewrite forallb_forall. split.
  - intros H x Hx. specialize (H x Hx). apply existsb_exists in H as [y [Hy E]]. apply pair_eqb_spec in E. subst. exact Hy.
  - intros H x Hx. apply existsb_exists. exists x. split; [auto|]. apply pair_eqb_spec. reflexivity.
Qed.

Lemma NoDup_keys_pairs (l : items) : NoDup (map fst l) -> NoDup l.
Proof. apply NoDup_map_inv. Qed.

Lemma eq_unordered (c other : items) : IInv c -> NoDup (map fst other) ->
  (if negb (ic_len c =? Z.of_nat (length other)) then false
   else forallb (fun key => match ic_get key c, ic_get key other with
                            | Some a, Some b => a =? b
                            | _, _ => false
                            end) (ic_iter false c))
  = subset c other && subset other c.
Proof.
  intros N No. unfold ic_len. cbn [ic_iter].
  pose proof (forallb_lookup_suffix
                (fun key o => match o, ic_get key other with Some a, Some b => a =? b | _, _ => false end) c [] N) as F.
  cbn [app] in F. rewrite F. clear F.
  assert (S1 : forallb (fun kv : Z * val => match ic_get (fst kv) other with Some b => snd kv =? b | None => false end) c
               = subset c other).
  { unfold subset. apply forallb_ext'. intros [k v]. cbn [fst snd]. symmetry. apply existsb_pair_get, No. }
  rewrite S1. clear S1.
  destruct (Z.eqb_spec (Z.of_nat (length c)) (Z.of_nat (length other))) as [L|L]; cbn [negb].
  - destruct (subset c other) eqn:S; [|reflexivity]. cbn [andb]. symmetry. apply subset_incl.
    apply subset_incl in S. apply NoDup_length_incl; auto using NoDup_keys_pairs. lia.
  - symmetry. apply not_true_is_false. intros X. apply andb_true_iff in X as [X1 X2].
    apply subset_incl in X1, X2. apply L. f_equal.
    apply Nat.le_antisymm; apply NoDup_incl_length; auto using NoDup_keys_pairs.
Qed.

Lemma ix_eq_od kind other c : IInv c -> NoDup (map fst other) -> ix_eq kind other c = od_eq kind c other.
Proof.
  intros N No. unfold ix_eq. rewrite (bridge_index_eq_len_differs (ic_len c)), bridge_index_eq_ordered_kinds.
  destruct kind; cbn [existsb mapkind_eqb orb od_eq].
  - rewrite ix_items_eq by exact N. unfold ic_len.
    destruct (Z.eqb_spec (Z.of_nat (length c)) (Z.of_nat (length other))) as [L|L]; cbn [negb].
    + rewrite <- eq_ordered_walk by lia. apply f_equal. apply existsb_ext'. intros [[a b] [x y]]. apply bridge_index_eq_pair_differs.
    + symmetry. apply list_eqb_length_neq. intros H. apply L. f_equal. exact H.
  - rewrite ix_items_eq by exact N. unfold ic_len.
    destruct (Z.eqb_spec (Z.of_nat (length c)) (Z.of_nat (length other))) as [L|L]; cbn [negb].
    + rewrite <- eq_ordered_walk by lia. apply f_equal. apply existsb_ext'. intros [[a b] [x y]]. apply bridge_index_eq_pair_differs.
    + symmetry. apply list_eqb_length_neq. intros H. apply L. f_equal. exact H.
  - apply eq_unordered; auto.
Qed.

(* ---- the operations ---- *)

Definition op_wf (o : ix_op) : Prop :=
  match o with IEq _ other | INe _ other => NoDup (map fst other) | _ => True end.

Lemma ix_pop_od k default c : IInv c ->
  ix_pop k default c =
  match od_find k c with
  | Some v => (od_remove k c, RVal v)
  | None => (c, if comp_is_enoval default then RRaise KeyError else res_of_comp default)
  end.
Proof.
  intros N. unfold ix_pop, i_exec_pop, ic_pop. rewrite bridge_index_pop_call, bridge_index_pop_exn. cbn [qc_meth].
  rewrite ic_get_find, ic_del_od, od_find_mem by exact N.
  destruct (od_find k c) as [v|]; rewrite bridge_index_pop_miss; reflexivity.
Qed.

Lemma update_od ps : forall c, IInv c ->
  ix_update ps c = fold_left (fun acc kv => od_set (fst kv) (snd kv) acc) ps c /\ IInv (ix_update ps c).
Proof.
  unfold ix_update. induction ps as [|[k v] ps IH]; intros c N; cbn [fold_left fst snd]; [auto|].
  rewrite ic_set_od by exact N. apply IH, IInv_od_set, N.
Qed.

Theorem index_refines : forall c o, IInv c -> op_wf o ->
  ix_step c o = od_step c o /\ IInv (fst (ix_step c o)).
Proof.
  intros c o N Wf. destruct o; cbn [ix_step od_step op_wf] in *.
  - (* set *) rewrite ic_set_od by exact N. split; [reflexivity|]. apply IInv_od_set, N.
  - (* get *) unfold ix_getitem. rewrite ic_get_find. split; [destruct (od_find k c); reflexivity|exact N].
  - (* del *) unfold ix_delitem. rewrite ic_del_od by exact N.
    destruct (od_mem k c); split; auto. apply IInv_remove, N.
  - (* pop *) rewrite bridge_index_pop_default, ix_pop_od by exact N.
    destruct (od_find k c); split; auto. apply IInv_remove, N.
  - (* pop with default *) rewrite ix_pop_od by exact N.
    destruct (od_find k c); split; auto. apply IInv_remove, N.
  - (* popitem *) unfold ix_popitem. rewrite bridge_index_popitem_last. destruct last; cbn [ic_peekitem].
    + destruct (rev_cases c) as [->|[c' [[k v] ->]]]; [split; auto|].
      rewrite rev_app_distr. cbn [rev app]. rewrite rev_involutive.
      assert (H : ~ In k (ic_keys c')).
      { unfold IInv, ic_keys in N. rewrite map_app in N. cbn in N. apply NoDup_remove_2 in N. rewrite app_nil_r in N. exact N. }
      rewrite ic_del_last by exact H. split; [reflexivity|]. cbn [fst].
      unfold IInv, ic_keys in *. rewrite map_app in N. apply NoDup_app_l in N. exact N.
    + destruct c as [|[k v] c]; [split; auto|]. cbn [ic_del]. rewrite Z.eqb_refl. split; [reflexivity|].
      cbn [fst]. unfold IInv in *. cbn in N. inversion N; auto.
  - (* peekitem *) unfold ix_peekitem, i_exec_peekitem. rewrite bridge_index_peekitem_call, bridge_index_peekitem_last.
    cbn [qc_meth]. split; [|exact N]. destruct last; cbn [ic_peekitem].
    + destruct (rev c) as [|[k v] r]; reflexivity.
    + destruct c as [|[k v] r]; reflexivity.
  - (* setdefault *) unfold ix_setdefault. cbn [setdefault_loop]. rewrite bridge_index_setdefault_returns_stored.
    rewrite <- ic_get_find. destruct (ic_get k c) as [v|] eqn:G; [split; auto|].
    unfold i_exec_add, ic_add. rewrite bridge_index_setdefault_add. cbn [qc_meth]. rewrite G. cbn [snd].
    rewrite ic_set_absent by exact G. rewrite ic_get_snoc_same by exact G. split; [reflexivity|]. cbn [fst].
    unfold IInv, ic_keys. rewrite map_app. apply NoDup_snoc; [exact N|]. apply ic_get_none_notin, G.
  - (* update *) destruct (update_od l c N) as [E I]. rewrite E. split; [reflexivity|]. rewrite <- E. exact I.
  - (* keys *) split; [reflexivity|exact N].
  - (* values *) rewrite ix_values_eq by exact N. split; [reflexivity|exact N].
  - (* items *) rewrite ix_items_eq by exact N. split; [reflexivity|exact N].
  - (* == *) rewrite ix_eq_od by auto. split; [reflexivity|exact N].
  - (* != *) rewrite ix_eq_od by auto. split; [reflexivity|exact N].
  - (* iter *) split; [reflexivity|exact N].
  - (* reversed *) split; [reflexivity|exact N].
  - (* clear *) unfold i_exec_clear. rewrite bridge_index_clear_call. cbn. split; [reflexivity|constructor].
  - (* len *) split; [reflexivity|exact N].
  - (* get with default *) unfold ix_getitem. rewrite ic_get_find. split; [destruct (od_find k c); reflexivity|exact N].
  - (* in *) unfold ix_getitem. rewrite od_find_mem, ic_get_find. split; [destruct (od_find k c); reflexivity|exact N].
Qed.

(* whole histories *)
Fixpoint ix_results (c : icache) (os : list ix_op) : list (res * items) :=
  match os with [] => [] | o :: r => let '(c', x) := ix_step c o in (x, c') :: ix_results c' r end.
Fixpoint od_results (l : items) (os : list ix_op) : list (res * items) :=
  match os with [] => [] | o :: r => let '(l', x) := od_step l o in (x, l') :: od_results l' r end.

Theorem index_history_refines : forall os c, IInv c -> Forall op_wf os -> ix_results c os = od_results c os.
Proof.
  induction os as [|o os IH]; intros c N F; cbn [ix_results od_results]; [reflexivity|].
  inversion F as [|? ? F1 F2]; subst. destruct (index_refines c o N F1) as [E I]. rewrite <- E.
  destruct (ix_step c o) as [c' x]. f_equal. apply IH; auto.
Qed.

Lemma IInv_new init : IInv (ix_new init).
Proof. apply update_od. constructor. Qed.

(* persistence: reopening the directory or unpickling yields the same items in the same order *)
Theorem index_persistent : forall c, ix_reopen c = c /\ ix_unpickle_pickle c = c.
Proof. intros c. unfold ix_reopen, ix_unpickle_pickle, ix_carry. rewrite bridge_index_getstate. auto. Qed.

(* never loses: the cache is built with eviction_policy='none'; only del / pop / popitem / clear remove
   an item, and assignment replaces a value in place *)
Definition ix_removing (o : ix_op) : bool :=
  match o with IDel _ | IPop _ | IPopDefault _ _ | IPopItem _ | IClear => true | _ => false end.

Lemma od_set_keeps_keys k v l x : In x (map fst l) -> In x (map fst (od_set k v l)).
Proof. rewrite od_set_keys. destruct (od_mem k l); auto. intros H. apply in_or_app. auto. Qed.

Lemma fold_od_set_keeps_keys ps : forall l x,
  In x (map fst l) -> In x (map fst (fold_left (fun acc kv => od_set (fst kv) (snd kv) acc) ps l)).
Proof. induction ps as [|[k v] ps IH]; intros l x H; cbn [fold_left]; auto. apply IH, od_set_keeps_keys, H. Qed.

Theorem index_never_loses : forall c o, IInv c -> op_wf o -> ix_removing o = false ->
  index_init_policy = PolNone /\
  forall k, In k (ic_keys c) -> In k (ic_keys (fst (ix_step c o))).
Proof.
  intros c o N Wf R. split; [exact bridge_index_init_policy|].
  destruct (index_refines c o N Wf) as [E _]. rewrite E. clear E. unfold ic_keys.
  destruct o; try discriminate R; cbn [od_step fst]; auto.
  - intros x. apply od_set_keeps_keys.
  - destruct last; auto.
  - destruct (od_find k c); cbn [fst]; auto. intros x H. rewrite map_app. apply in_or_app. auto.
  - intros x. apply fold_od_set_keeps_keys.
Qed.

(* the hypotheses of the theorems above are satisfiable *)
Example IInv_example :
  IInv (ix_new [(1, 10); (2, 20); (1, 11)]) /\ ix_new [(1, 10); (2, 20); (1, 11)] = [(1, 11); (2, 20)] /\
  op_wf (IEq MK_dict [(2, 20); (1, 11)]) /\ ix_removing (ISetDefault 3 0) = false.
Proof.
  split; [apply IInv_new|]. split; [vm_compute; reflexivity|]. split; [|reflexivity].
  cbn. repeat constructor; cbn; intuition discriminate.
Qed.
