(* Facts about the Disk codec (C01, C02).  Bridge lemmas first: they are the only statements that look
   inside the generated decision trees. *)
From DC Require Import DCPrelude DCPreludeFacts Val DiskBase Gen_Disk Disk.

(* ---------------- bridge lemmas ---------------- *)
Definition put_plan_spec (key : pyval) : put_plan :=
  match key with
  | VBytes _ => PutBlob true
  | VStr _ => PutNative true
  | VFloat f => if is_nan key then PutPickle false else PutNative true      (* `key == key`: NaN is pickled *)
  | VInt z => if in_int64 z then PutNative true else PutPickle false
  | VOther _ => PutPickle false
  | VStream _ => PutPickle false
  end.

Lemma bridge_put_plan key : put_plan_of key = put_plan_spec key.
Proof.
  destruct key as [z|f|s|b|i|b]; try reflexivity.
  - unfold put_plan_of, put_plan_spec, in_int64, int64_min, int64_max. cbn.
    destruct (_ <=? z); destruct (z <=? _); reflexivity.
  - destruct f; reflexivity.
Qed.

Definition pickle_plan (m : Z) (pkv : pyval -> list Z) (value : pyval) : store_plan :=
  let r := pkv value in
  if Z.of_nat (length r) <? m then PlanInline MODE_PICKLE (VBytes r)
  else PlanBytesFile MODE_PICKLE SzLenResult OM_xb r.

Definition store_plan_spec (m : Z) (pkv : pyval -> list Z) (value : pyval) (read : bool) : store_plan :=
  match value with
  | VInt z => if in_int64 z then PlanInline MODE_RAW value
              else if read then PlanStreamFile MODE_BINARY SzWritten OM_xb [] else pickle_plan m pkv value
  | VFloat f => if is_nan value
                then (if read then PlanStreamFile MODE_BINARY SzWritten OM_xb [] else pickle_plan m pkv value)
                else PlanInline MODE_RAW value
  | VStr s => if pv_len value <? m then PlanInline MODE_RAW value
              else PlanTextFile MODE_TEXT SzGetsize OM_x true s
  | VBytes b => if pv_len value <? m then PlanInline MODE_RAW value
                else PlanBytesFile MODE_BINARY SzLenValue OM_xb b
  | VOther _ => if read then PlanStreamFile MODE_BINARY SzWritten OM_xb [] else pickle_plan m pkv value
  | VStream b => if read then PlanStreamFile MODE_BINARY SzWritten OM_xb b else pickle_plan m pkv value
  end.

Lemma bridge_store_plan m pkv value read :
  store_plan_of m pkv value read = store_plan_spec m pkv value read.
Proof.
  destruct value as [z|f|s|b|i|b]; unfold store_plan_of, store_plan_spec, pickle_plan.
  - unfold in_int64, int64_min, int64_max. cbn.
    destruct (_ <=? z); destruct (z <=? _); reflexivity.
  - destruct f; reflexivity.
  - cbn [is_str is_int is_float is_bytes andb orb]. rewrite !orb_false_r.
    destruct (pv_len (VStr s) <? m); reflexivity.
  - cbn [is_str is_int is_float is_bytes andb orb].
    destruct (pv_len (VBytes b) <? m); reflexivity.
  - reflexivity.
  - reflexivity.
Qed.

Lemma bridge_write_newline_text : write_newline true = NLEmpty.
Proof. reflexivity. Qed.

Definition fetch_plan_spec (mode : Z) (col_is_null read : bool) : fetch_plan :=
  if mode =? MODE_RAW then FRaw
  else if mode =? MODE_BINARY then (if read then FHandle OM_rb else FReadBytes OM_rb)
  else if mode =? MODE_TEXT then FReadText OM_r true NLEmpty
  else if mode =? MODE_PICKLE then (if col_is_null then FUnpickleFile OM_rb else FUnpickleCol)
  else FNone.

Lemma bridge_fetch_plan mode n r : fetch_plan_of mode n r = fetch_plan_spec mode n r.
Proof. reflexivity. Qed.

Lemma bridge_modes_distinct :
  MODE_RAW <> MODE_BINARY /\ MODE_RAW <> MODE_TEXT /\ MODE_RAW <> MODE_PICKLE /\
  MODE_BINARY <> MODE_TEXT /\ MODE_BINARY <> MODE_PICKLE /\ MODE_TEXT <> MODE_PICKLE.
Proof. repeat split; discriminate. Qed.

(* ---------------- value round trip (C01) ---------------- *)
Definition codec_ok (c : codec) : Prop :=
  (forall v, unpk c (pkv c v) = Some v) /\ (forall k, unpk c (pkk c k) = Some k).

Lemma fl_eqb_refl f : fl_eqb f f = true.
Proof. destruct f as [|[]|[]|m e]; cbn; auto. rewrite !Z.eqb_refl. reflexivity. Qed.

Lemma pv_same_refl v : pv_same v v = true.
Proof. destruct v; cbn; auto using Z.eqb_refl, fl_eqb_refl, zlist_eqb_refl. Qed.

Lemma fetch_pickle_inline c v :
  codec_ok c -> fetch c MODE_PICKLE None (SBlob (pkv c v)) false = FVal v.
Proof. intros [H _]. unfold fetch. rewrite bridge_fetch_plan. cbn. rewrite H. reflexivity. Qed.

Lemma fetch_pickle_file c v read :
  codec_ok c -> fetch c MODE_PICKLE (Some (FBytes (pkv c v))) SNull read = FVal v.
Proof. intros [H _]. unfold fetch. rewrite bridge_fetch_plan. cbn. rewrite H. reflexivity. Qed.

Lemma store_pickle_plan c m v s :
  codec_ok c ->
  run_plan v (pickle_plan m (pkv c) v) = StOk s ->
  fetch c (s_mode s) (s_file s) (s_col s) false = FVal v /\ s_size s = (match s_file s with Some f => fsize f | None => 0 end).
Proof.
  intros Hc. unfold pickle_plan. cbv zeta. destruct (_ <? m); cbn; intros E; inversion E; subst; cbn.
  - split; [apply fetch_pickle_inline; exact Hc | reflexivity].
  - split; [apply (fetch_pickle_file c v false); exact Hc | reflexivity].
Qed.

(* The round-trip theorem: whatever store accepts, a lookup hands back unchanged; and the recorded size
   is the size of the value file (0 when there is none). *)
Theorem store_fetch_roundtrip c m value read s :
  codec_ok c -> shape_ok value read = true ->
  store c m value read = StOk s ->
  fetch c (s_mode s) (s_file s) (s_col s) false = FVal (expected value)
  /\ (forall b, value = VStream b -> fetch c (s_mode s) (s_file s) (s_col s) true = FHandleOn b)
  /\ s_size s = (match s_file s with Some f => fsize f | None => 0 end).
Proof.
  intros Hc Hs. unfold store. rewrite bridge_store_plan.
  destruct value as [z|f|st|b|i|b]; cbn [store_plan_spec shape_ok] in *.
  - (* int *) apply negb_true_iff in Hs. subst read.
    destruct (in_int64 z) eqn:R.
    + cbn [run_plan bind]. rewrite R. intros E; inversion E; subst; cbn.
      repeat split; auto. intros; discriminate.
    + intros E. destruct (store_pickle_plan c m (VInt z) s Hc E) as [F S].
      repeat split; auto. intros; discriminate.
  - (* float *) apply negb_true_iff in Hs. subst read.
    destruct (is_nan (VFloat f)) eqn:N.
    + intros E. destruct (store_pickle_plan c m (VFloat f) s Hc E) as [F S].
      repeat split; auto. intros; discriminate.
    + destruct f; try discriminate; cbn; intros E; inversion E; subst; cbn;
        (repeat split; auto; intros; discriminate).
  - (* str *) apply negb_true_iff in Hs. subst read.
    destruct (pv_len (VStr st) <? m).
    + cbn [run_plan bind]. destruct (encodable st); [|discriminate]. intros E; inversion E; subst; cbn.
      repeat split; auto. intros; discriminate.
    + cbn [run_plan om_binary negb andb]. destruct (encodable st); [|discriminate]. cbn [andb].
      rewrite bridge_write_newline_text. intros E; inversion E; subst; cbn.
      repeat split; auto. intros; discriminate.
  - (* bytes *) apply negb_true_iff in Hs. subst read.
    destruct (pv_len (VBytes b) <? m); cbn; intros E; inversion E; subst; cbn;
      (repeat split; auto; intros; discriminate).
  - (* other object *) apply negb_true_iff in Hs. subst read.
    intros E. destruct (store_pickle_plan c m (VOther i) s Hc E) as [F S].
    repeat split; auto. intros; discriminate.
  - (* stream *) subst read. cbn. intros E; inversion E; subst; cbn.
    repeat split; auto. intros b' Eb; inversion Eb; reflexivity.
Qed.

(* store never records a representation that decodes to something else: it either raises or the
   lookup gives the value back (restating the theorem in the "rejected, never altered" form) *)
Corollary store_rejects_or_preserves c m value read :
  codec_ok c -> shape_ok value read = true ->
  match store c m value read with
  | StRaise => True
  | StOk s => fetch c (s_mode s) (s_file s) (s_col s) false = FVal (expected value)
  end.
Proof.
  intros Hc Hs. destruct (store c m value read) as [s|] eqn:E; auto.
  apply (store_fetch_roundtrip c m value read s Hc Hs E).
Qed.

(* what store rejects: exactly unencodable text (lone surrogates) *)
Theorem store_accepts c m value read :
  shape_ok value read = true ->
  (store c m value read = StRaise <-> exists st, value = VStr st /\ encodable st = false).
Proof.
  intros Hs. unfold store. rewrite bridge_store_plan.
  destruct value as [z|f|st|b|i|b]; cbn [store_plan_spec shape_ok] in *;
    try (apply negb_true_iff in Hs; subst read).
  - destruct (in_int64 z) eqn:R; [cbn [run_plan bind]; rewrite R|unfold pickle_plan; cbv zeta; destruct (_ <? m); cbn];
      (split; [discriminate|intros [? [? _]]; discriminate]).
  - destruct (is_nan (VFloat f)); [unfold pickle_plan; cbv zeta; destruct (_ <? m); cbn|destruct f; cbn];
      (split; [discriminate|intros [? [? _]]; discriminate]).
  - destruct (pv_len (VStr st) <? m); cbn; destruct (encodable st) eqn:En; cbn;
      (split; [try discriminate; intros _; exists st; auto | intros [st' [E1 E2]]; inversion E1; subst; congruence]).
  - destruct (pv_len (VBytes b) <? m); cbn; (split; [discriminate|intros [? [? _]]; discriminate]).
  - unfold pickle_plan; cbv zeta; destruct (_ <? m); cbn; (split; [discriminate|intros [? [? _]]; discriminate]).
  - subst read. cbn. split; [discriminate|intros [? [? _]]; discriminate].
Qed.

Example roundtrip_hyps_satisfiable :
  shape_ok (VStr [97; 13; 10; 98]) false = true /\
  exists s, store {| pkk := fun _ => []; pkv := fun _ => []; unpk := fun _ => None |} 2 (VStr [97; 13; 10; 98]) false = StOk s.
Proof. split; [reflexivity|]. eexists. vm_compute. reflexivity. Qed.

(* ---------------- key identity (C02) ---------------- *)
Definition pkk_inj (c : codec) : Prop := forall a b, pkk c a = pkk c b -> a = b.

Lemma c_eq_lex a b : c_eq (lex_cmp a b) = zlist_eqb a b.
Proof.
  destruct (lex_cmp a b) eqn:E; cbn.
  - apply lex_cmp_eq in E. subst. symmetry. apply zlist_eqb_refl.
  - destruct (zlist_eqb a b) eqn:Z; auto. apply zlist_eqb_spec in Z. subst. rewrite lex_cmp_refl in E. discriminate.
  - destruct (zlist_eqb a b) eqn:Z; auto. apply zlist_eqb_spec in Z. subst. rewrite lex_cmp_refl in E. discriminate.
Qed.

Lemma pv_same_spec a b : pv_same a b = true -> a = b.
Proof.
  destruct a, b; cbn; try discriminate.
  - intros H; apply Z.eqb_eq in H; congruence.
  - destruct f, f0; cbn; try discriminate; intros H.
    + reflexivity.
    + apply eqb_prop in H. congruence.
    + apply eqb_prop in H. congruence.
    + apply andb_true_iff in H as [H1 H2]. apply Z.eqb_eq in H1, H2. congruence.
  - intros H; apply zlist_eqb_spec in H; congruence.
  - intros H; apply zlist_eqb_spec in H; congruence.
  - intros H; apply Z.eqb_eq in H; congruence.
  - intros H; apply zlist_eqb_spec in H; congruence.
Qed.

Lemma put_spec c key :
  put c key = match key with
              | VBytes b => PutOk (SBlob b) true
              | VStr s => if encodable s then PutOk (SText s) true else PutRaise
              | VFloat FNaN => PutOk (SBlob (pkk c key)) false
              | VFloat f => PutOk (SReal f) true
              | VInt z => if in_int64 z then PutOk (SInt z) true else PutOk (SBlob (pkk c key)) false
              | _ => PutOk (SBlob (pkk c key)) false
              end.
Proof.
  unfold put, put_with. rewrite bridge_put_plan. destruct key as [z|f|s|b|i|b]; cbn; auto.
  - destruct (in_int64 z) eqn:R; cbn; rewrite ?R; reflexivity.
  - destruct f; reflexivity.
  - destruct (encodable s); reflexivity.
Qed.

Lemma key_num_sql c k n : key_domain k = true -> key_num k = Some n ->
  exists v, put c k = PutOk v true /\ sql_num v = Some n /\ sql_class v = 1.
Proof.
  intros D. rewrite put_spec. destruct k as [z|f|s|b|i|b]; cbn in *; try discriminate.
  - destruct (in_int64 z); [|discriminate]. intros E; inversion E; subst. eexists; repeat split.
  - destruct f as [|[]|[]|]; try discriminate; intros E; inversion E; subst; eexists; repeat split.
Qed.

Lemma key_num_none c k : key_domain k = true -> key_num k = None ->
  (exists s, k = VStr s /\ put c k = PutOk (SText s) true) \/
  (exists b, k = VBytes b /\ put c k = PutOk (SBlob b) true) \/
  (put c k = PutOk (SBlob (pkk c k)) false /\ (forall s, k <> VStr s) /\ (forall b, k <> VBytes b)).
Proof.
  intros D. rewrite put_spec. destruct k as [z|f|s|b|i|b]; cbn in *; try discriminate.
  - destruct (in_int64 z); [discriminate|]. intros _. right; right. repeat split; intros; discriminate.
  - destruct f as [|[]|[]|]; try discriminate. intros _. right; right. repeat split; intros; discriminate.
  - intros _. left. exists s. rewrite D. auto.
  - intros _. right; left. exists b. auto.
  - intros _. right; right. repeat split; intros; discriminate.
Qed.

Lemma sql_cmp_num a b x y : sql_class a = 1 -> sql_class b = 1 -> sql_num a = Some x -> sql_num b = Some y ->
  sql_cmp a b = num_cmp x y.
Proof.
  intros Ca Cb Na Nb. unfold sql_cmp. rewrite Ca, Cb. cbn.
  destruct a, b; cbn in *; try discriminate; rewrite ?Na, ?Nb; auto;
    repeat match goal with H : Some _ = Some _ |- _ => inversion H; clear H; subst end; reflexivity.
Qed.

(* Two keys address one database entry exactly when they are equal under the documented rule. *)
Theorem key_identity c k1 k2 :
  pkk_inj c -> key_domain k1 = true -> key_domain k2 = true ->
  db_same (put c k1) (put c k2) = key_eq k1 k2.
Proof.
  intros Inj D1 D2. unfold key_eq.
  destruct (key_num k1) as [x|] eqn:N1; destruct (key_num k2) as [y|] eqn:N2.
  - destruct (key_num_sql c k1 x D1 N1) as [v1 [P1 [S1 C1]]].
    destruct (key_num_sql c k2 y D2 N2) as [v2 [P2 [S2 C2]]].
    rewrite P1, P2. cbn. rewrite (sql_cmp_num v1 v2 x y); auto.
  - destruct (key_num_sql c k1 x D1 N1) as [v1 [P1 [S1 C1]]]. rewrite P1.
    destruct (key_num_none c k2 D2 N2) as [[s [-> P2]]|[[b [-> P2]]|[P2 _]]]; rewrite P2; cbn; auto;
      unfold sql_cmp; rewrite C1; reflexivity.
  - destruct (key_num_sql c k2 y D2 N2) as [v2 [P2 [S2 C2]]]. rewrite P2.
    destruct (key_num_none c k1 D1 N1) as [[s [-> P1]]|[[b [-> P1]]|[P1 _]]]; rewrite P1; cbn; auto;
      unfold sql_cmp; rewrite C2; reflexivity.
  - destruct (key_num_none c k1 D1 N1) as [[s1 [-> P1]]|[[b1 [-> P1]]|[P1 [Ns1 Nb1]]]];
    destruct (key_num_none c k2 D2 N2) as [[s2 [-> P2]]|[[b2 [-> P2]]|[P2 [Ns2 Nb2]]]];
    rewrite P1, P2; cbn; try reflexivity.
    + apply c_eq_lex.
    + destruct k2; try reflexivity. exfalso; eapply Ns2; reflexivity.
    + apply c_eq_lex.
    + destruct k2; try reflexivity. exfalso; eapply Nb2; reflexivity.
    + destruct k1; try reflexivity. exfalso; eapply Ns1; reflexivity.
    + destruct k1; try reflexivity. exfalso; eapply Nb1; reflexivity.
    + rewrite c_eq_lex. destruct (zlist_eqb (pkk c k1) (pkk c k2)) eqn:Z.
      * apply zlist_eqb_spec, Inj in Z. subst. symmetry. apply pv_same_refl.
      * destruct (pv_same k1 k2) eqn:S; auto. apply pv_same_spec in S. subst.
        rewrite zlist_eqb_refl in Z. discriminate.
Qed.

(* iteration decodes a stored key back to an equal key of the same type *)
Theorem get_put c k v raw :
  codec_ok c -> key_domain k = true -> put c k = PutOk v raw -> get c v raw = Some k.
Proof.
  intros [_ Hk] D. rewrite put_spec. unfold get.
  destruct k as [z|f|s|b|i|b]; cbn in *; try discriminate.
  - destruct (in_int64 z); intros E; inversion E; subst; cbn; auto.
  - destruct f; intros E; inversion E; subst; cbn; auto.
  - rewrite D. intros E; inversion E; subst; reflexivity.
  - intros E; inversion E; subst; reflexivity.
  - intros E; inversion E; subst; cbn; auto.
Qed.

(* JSONDisk: identity is identity of the compressed JSON text (raw bytes) *)
Theorem json_key_identity c j k1 k2 :
  db_same (jput c j k1) (jput c j k2) = zlist_eqb (jz j k1) (jz j k2).
Proof. unfold jput. rewrite !put_spec. cbn. apply c_eq_lex. Qed.

(* ... so under JSONDisk 1 and 1.0 are two keys whenever their JSON texts differ ("1" vs "1.0"):
   the documented rule (key_eq (VInt 1) (VFloat 1.0) = true) is not met -- finding C02-F1 *)
Theorem json_int_float_refuted c j :
  jz j (VInt 1) <> jz j (VFloat (FFin 1 0)) ->
  key_eq (VInt 1) (VFloat (FFin 1 0)) = true /\
  db_same (jput c j (VInt 1)) (jput c j (VFloat (FFin 1 0))) = false.
Proof.
  intros H. split; [reflexivity|]. rewrite json_key_identity.
  destruct (zlist_eqb _ _) eqn:Z; auto. apply zlist_eqb_spec in Z. contradiction.
Qed.

Example key_identity_examples :
  key_eq (VInt 1) (VFloat (FFin 1 0)) = true /\ key_eq (VInt 0) (VFloat (FZero true)) = true /\
  key_eq (VStr [97]) (VBytes [97]) = false /\
  key_eq (VInt 9007199254740993) (VFloat (FFin 1 53)) = false /\
  key_eq (VInt 9223372036854775808) (VFloat (FFin 1 63)) = false /\
  (* all NaNs are one key, different from every number, text, bytes and object *)
  key_domain (VFloat FNaN) = true /\ key_eq (VFloat FNaN) (VFloat FNaN) = true /\
  key_eq (VFloat FNaN) (VInt 0) = false /\ key_eq (VFloat FNaN) (VFloat (FInf false)) = false /\
  key_eq (VFloat FNaN) (VStr [110; 97; 110]) = false /\ key_eq (VFloat FNaN) (VOther 0) = false.
Proof. repeat split; reflexivity. Qed.

(* Disk.put never hands SQLite a NULL key (nor a REAL NaN, which SQLite would store as NULL): for EVERY key and
   every codec.  Before the repair of C02-F2 float('nan') was bound natively and became NULL
   (FormatFacts.released_put_nan_null). *)
Theorem put_never_null c k dbk raw : put c k = PutOk dbk raw -> dbk <> SNull /\ dbk <> SReal FNaN.
Proof.
  rewrite put_spec. destruct k as [z|f|s|b|i|b].
  - destruct (in_int64 z); intros E; inversion E; split; discriminate.
  - destruct f; intros E; inversion E; split; discriminate.
  - destruct (encodable s); intros E; inversion E; split; discriminate.
  - intros E; inversion E; split; discriminate.
  - intros E; inversion E; split; discriminate.
  - intros E; inversion E; split; discriminate.
Qed.

Lemma key_domain_spec k :
  key_domain k = match k with VStr s => encodable s | VStream _ => false | _ => true end.
Proof. destruct k; reflexivity. Qed.

Theorem nan_is_one_key :
  key_domain (VFloat FNaN) = true /\ key_eq (VFloat FNaN) (VFloat FNaN) = true /\
  forall k, k <> VFloat FNaN -> key_eq (VFloat FNaN) k = false /\ key_eq k (VFloat FNaN) = false.
Proof.
  split; [reflexivity|]. split; [reflexivity|]. intros k N. unfold key_eq.
  destruct k as [z|f|s|b|i|b]; cbn [key_num num_of_fl]; try (split; reflexivity).
  - destruct (in_int64 z); split; reflexivity.
  - destruct f as [|[]|[]|m e]; try (split; reflexivity). contradiction.
Qed.

(* a NaN key: pickled, not raw; found again by any NaN; decoded back to NaN by iteration *)
Theorem put_nan c : put c (VFloat FNaN) = PutOk (SBlob (pkk c (VFloat FNaN))) false.
Proof. rewrite put_spec. reflexivity. Qed.

(* ---------------- JSONDisk values ---------------- *)
Definition jcodec_ok (j : jcodec) : Prop := forall v, unjz j (jz j v) = Some v.

Theorem json_store_fetch_roundtrip c j m value s :
  jcodec_ok j -> (forall b, value <> VStream b) ->
  jstore c j m value false = StOk s ->
  jfetch c j (s_mode s) (s_file s) (s_col s) false = FVal value.
Proof.
  intros Hj Hv. unfold jstore, store. rewrite bridge_store_plan. cbn [store_plan_spec].
  destruct (pv_len (VBytes (jz j value)) <? m); cbn [run_plan bind om_binary]; intros E; inversion E; subst;
    unfold jfetch, fetch; rewrite bridge_fetch_plan; cbn; rewrite Hj; reflexivity.
Qed.

(* a stream stored with read=True comes back through read=True ... *)
Theorem json_stream_handle c j m b s :
  jstore c j m (VStream b) true = StOk s ->
  jfetch c j (s_mode s) (s_file s) (s_col s) true = FHandleOn b.
Proof.
  unfold jstore, store. rewrite bridge_store_plan. cbn [store_plan_spec run_plan om_binary].
  intros E; inversion E; subst. unfold jfetch, fetch. rewrite bridge_fetch_plan. reflexivity.
Qed.

(* ... but a plain lookup runs the JSON decoder over the raw bytes: it raises unless the stream happened
   to contain compressed JSON (finding C01-F3) *)
Theorem json_stream_plain_get_refuted c j m b s :
  unjz j b = None ->
  jstore c j m (VStream b) true = StOk s ->
  jfetch c j (s_mode s) (s_file s) (s_col s) false = FBad.
Proof.
  intros Hn. unfold jstore, store. rewrite bridge_store_plan. cbn [store_plan_spec run_plan om_binary].
  intros E; inversion E; subst. unfold jfetch, fetch. rewrite bridge_fetch_plan. cbn. rewrite Hn. reflexivity.
Qed.
