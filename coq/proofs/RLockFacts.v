(* RLock (C15): invariant of the contender machine over arbitrary programs, clients and schedules.
   No discipline of the programs is needed: a release by a non-holder is refused. *)
From DC Require Import DCPrelude RecipesBase Gen_Recipes Recipes RecipesFacts.

Lemma optZ_eqb_spec a b : optZ_eqb a b = true <-> a = b.
Proof.
  destruct a, b; cbn; try (split; congruence).
  rewrite Z.eqb_eq. split; congruence.
Qed.

Lemma optZ_eqb_id (c c' : nat) : optZ_eqb (Some (Z.of_nat c')) (Some (Z.of_nat c)) = Nat.eqb c' c.
Proof.
  cbn. destruct (Nat.eqb c' c) eqn:E.
  - apply Nat.eqb_eq in E. subst. apply Z.eqb_refl.
  - apply Nat.eqb_neq in E. apply Z.eqb_neq. lia.
Qed.

Lemma rlock_owner_some o n : rlock_owner (Some (o, n)) = o.
Proof. reflexivity. Qed.
Lemma rlock_count_some o n : rlock_count (Some (o, n)) = n.
Proof. reflexivity. Qed.
Lemma rlock_count_none : rlock_count None = 0.
Proof. destruct bridge_rlock_defaults as [E _]. unfold rlock_count. cbn [k_get]. rewrite E. reflexivity. Qed.

(* held c = stored count if c is the stored owner, else 0; a positive count has a real owner *)
Definition rinv (s : rlock_state) (l : list client) : Prop :=
  0 <= rlock_count s /\
  (forall c cl, nth_error l c = Some cl ->
     held cl = if optZ_eqb (Some (Z.of_nat c)) (rlock_owner s) then rlock_count s else 0) /\
  (0 < rlock_count s -> exists c cl, rlock_owner s = Some (Z.of_nat c) /\ nth_error l c = Some cl) /\
  sum_held l = rlock_count s.

Definition rlock_inv (cfg : config rlock_state) : Prop := rinv (shared cfg) (clients cfg).

Lemma rinv_upd_same_held s l c cl p :
  rinv s l -> nth_error l c = Some cl -> rinv s (upd c {| prog := p; held := held cl |} l).
Proof.
  intros (H0 & H1 & H2 & H3) En. split; [exact H0|]. split; [|split].
  - intros c' cl' En'. destruct (Nat.eq_dec c c') as [<-|Ne].
    + rewrite (nth_error_upd_same _ _ _ _ En) in En'. inversion En'; subst. cbn [held]. apply H1; auto.
    + rewrite (nth_error_upd_other _ _ _ _ Ne) in En'. apply H1; auto.
  - intros P. destruct (H2 P) as (c0 & cl0 & Eo & En0). exists c0.
    destruct (Nat.eq_dec c c0) as [<-|Ne].
    + eexists. split; [exact Eo|]. eapply nth_error_upd_same; eauto.
    + exists cl0. split; [exact Eo|]. rewrite (nth_error_upd_other _ _ _ _ Ne). exact En0.
  - rewrite (sum_held_upd _ _ _ _ En). cbn [held]. lia.
Qed.

Lemma rlock_step_inv cfg c : rlock_inv cfg -> rlock_inv (step _ rlock_acq rlock_rel rlock_probe cfg c).
Proof.
  unfold rlock_inv. intros I. unfold step.
  destruct (nth_error (clients cfg) c) as [cl|] eqn:En; [|exact I].
  destruct (prog cl) as [|o rest] eqn:Ep; [exact I|].
  destruct o; cbn [shared clients]; try (apply rinv_upd_same_held; assumption).
  - (* acquire *)
    rewrite bridge_rlock_acq.
    destruct (optZ_eqb (Some (Z.of_nat c)) (rlock_owner (shared cfg)) || (rlock_count (shared cfg) =? 0)) eqn:G;
      cbn [shared clients]; [|exact I].
    destruct I as (H0 & H1 & H2 & H3).
    set (n := rlock_count (shared cfg)) in *. set (o := rlock_owner (shared cfg)) in *.
    unfold rinv. rewrite rlock_owner_some, rlock_count_some.
    assert (Hc : held cl = n).
    { rewrite (H1 c cl En). apply orb_true_iff in G as [G|G]; [rewrite G; reflexivity|].
      apply Z.eqb_eq in G. destruct (optZ_eqb _ o); lia. }
    split; [lia|]. split; [|split].
    + intros c' cl' En'. rewrite optZ_eqb_id. destruct (Nat.eqb c' c) eqn:E.
      * apply Nat.eqb_eq in E. subst c'. rewrite (nth_error_upd_same _ _ _ _ En) in En'.
        inversion En'; subst. cbn [held]. lia.
      * apply Nat.eqb_neq in E. rewrite (nth_error_upd_other _ c c') in En' by auto.
        rewrite (H1 c' cl' En'). destruct (optZ_eqb (Some (Z.of_nat c')) o) eqn:E'; auto.
        apply optZ_eqb_spec in E'. apply orb_true_iff in G as [G|G].
        -- apply optZ_eqb_spec in G. rewrite <- E' in G. inversion G. lia.
        -- apply Z.eqb_eq in G. exact G.
    + intros _. exists c. eexists. split; [reflexivity|]. eapply nth_error_upd_same; eauto.
    + rewrite (sum_held_upd _ _ _ _ En). cbn [held]. lia.
  - (* release *)
    rewrite bridge_rlock_rel.
    destruct (optZ_eqb (Some (Z.of_nat c)) (rlock_owner (shared cfg)) && (rlock_count (shared cfg) >? 0)) eqn:G;
      cbn [shared clients]; [|apply rinv_upd_same_held; assumption].
    destruct I as (H0 & H1 & H2 & H3).
    set (n := rlock_count (shared cfg)) in *. set (o := rlock_owner (shared cfg)) in *.
    apply andb_true_iff in G as [Go Gn]. apply Z.gtb_lt in Gn.
    unfold rinv. rewrite rlock_owner_some, rlock_count_some.
    assert (Hc : held cl = n) by (rewrite (H1 c cl En), Go; reflexivity).
    apply optZ_eqb_spec in Go.
    split; [lia|]. split; [|split].
    + intros c' cl' En'. rewrite <- Go, optZ_eqb_id. destruct (Nat.eqb c' c) eqn:E.
      * apply Nat.eqb_eq in E. subst c'. rewrite (nth_error_upd_same _ _ _ _ En) in En'.
        inversion En'; subst. cbn [held]. lia.
      * apply Nat.eqb_neq in E. rewrite (nth_error_upd_other _ c c') in En' by auto.
        rewrite (H1 c' cl' En'), <- Go, optZ_eqb_id. apply Nat.eqb_neq in E. rewrite E. reflexivity.
    + intros _. exists c. eexists. split; [symmetry; exact Go|]. eapply nth_error_upd_same; eauto.
    + rewrite (sum_held_upd _ _ _ _ En). cbn [held]. lia.
Qed.

Lemma rlock_init_inv progs : rlock_inv (init _ None progs).
Proof.
  unfold rlock_inv, rinv. cbn [init shared clients]. rewrite rlock_count_none. split; [lia|]. split; [|split; [lia|]].
  - intros c cl En. apply nth_error_In, in_map_iff in En as (p & <- & _). cbn.
    destruct (optZ_eqb (Some (Z.of_nat c)) (rlock_owner None)); reflexivity.
  - unfold sum_held. rewrite map_map. cbn [held]. induction progs; cbn; lia.
Qed.

Lemma rlock_run_inv progs sched : rlock_inv (run _ rlock_acq rlock_rel rlock_probe sched (init _ None progs)).
Proof. apply run_invariant; [apply rlock_step_inv|apply rlock_init_inv]. Qed.

Lemma sum_as_holders n l :
  0 < n -> Forall (fun cl => held cl = 0 \/ held cl = n) l -> sum_held l = n * holders l.
Proof.
  intros Hn. unfold sum_held, holders, in_cs. induction 1 as [|a l Ha F IH]; cbn; [lia|].
  destruct Ha as [Ha|Ha]; rewrite Ha.
  - replace (0 <? 0) with false by reflexivity. lia.
  - replace (0 <? n) with true by (symmetry; apply Z.ltb_lt; lia). cbn [length]. lia.
Qed.

Lemma rinv_values s l : rinv s l -> Forall (fun cl => held cl = 0 \/ held cl = rlock_count s) l.
Proof.
  intros (_ & H1 & _). apply Forall_forall. intros cl I. apply In_nth_error in I as [c En].
  rewrite (H1 c cl En). destruct (optZ_eqb _ _); auto.
Qed.

(* ---- the statements of C15 about RLock ---- *)

(* unique holder; somebody holds it exactly when the stored count is positive *)
Theorem rlock_mutex progs sched :
  let cfg := run _ rlock_acq rlock_rel rlock_probe sched (init _ None progs) in
  holders (clients cfg) <= 1 /\ (holders (clients cfg) = 1 <-> 0 < rlock_count (shared cfg)).
Proof.
  intros cfg. pose proof (rlock_run_inv progs sched) as I. fold cfg in I. unfold rlock_inv in I.
  pose proof (rinv_values _ _ I) as V. destruct I as (H0 & H1 & H2 & H3).
  destruct (Z.eq_dec (rlock_count (shared cfg)) 0) as [E|E].
  - assert (Z0 : holders (clients cfg) = 0).
    { rewrite E in V. unfold holders, in_cs. clear -V. induction V as [|a l Ha F IH]; cbn; [reflexivity|].
      replace (held a) with 0 by (destruct Ha; lia). cbn. exact IH. }
    rewrite Z0, E. split; [lia|]. split; lia.
  - assert (P : 0 < rlock_count (shared cfg)) by lia.
    pose proof (sum_as_holders _ _ P V) as S. rewrite H3 in S.
    assert (holders (clients cfg) = 1) by nia. split; [lia|]. split; auto.
Qed.

(* the holder's depth is the stored count; everybody else's is 0; two holders are the same client *)
Theorem rlock_depth progs sched :
  let cfg := run _ rlock_acq rlock_rel rlock_probe sched (init _ None progs) in
  (forall c cl, nth_error (clients cfg) c = Some cl -> 0 < held cl ->
     rlock_owner (shared cfg) = Some (Z.of_nat c) /\ held cl = rlock_count (shared cfg)) /\
  (forall c1 c2 cl1 cl2, nth_error (clients cfg) c1 = Some cl1 -> nth_error (clients cfg) c2 = Some cl2 ->
     0 < held cl1 -> 0 < held cl2 -> c1 = c2) /\
  (rlock_count (shared cfg) = 0 <-> forall c cl, nth_error (clients cfg) c = Some cl -> held cl = 0).
Proof.
  intros cfg. pose proof (rlock_run_inv progs sched) as I. fold cfg in I. destruct I as (H0 & H1 & H2 & H3).
  assert (A : forall c cl, nth_error (clients cfg) c = Some cl -> 0 < held cl ->
     rlock_owner (shared cfg) = Some (Z.of_nat c) /\ held cl = rlock_count (shared cfg)).
  { intros c cl En P. rewrite (H1 c cl En) in P |- *.
    destruct (optZ_eqb (Some (Z.of_nat c)) (rlock_owner (shared cfg))) eqn:E; [|lia].
    apply optZ_eqb_spec in E. auto. }
  split; [exact A|]. split.
  - intros c1 c2 cl1 cl2 E1 E2 P1 P2. destruct (A _ _ E1 P1) as [O1 _]. destruct (A _ _ E2 P2) as [O2 _].
    rewrite O1 in O2. inversion O2. lia.
  - split.
    + intros Z0 c cl En. rewrite (H1 c cl En), Z0. destruct (optZ_eqb _ _); reflexivity.
    + intros All. destruct (Z.eq_dec (rlock_count (shared cfg)) 0) as [E|E]; auto.
      destruct H2 as (c & cl & Eo & En); [lia|]. specialize (All c cl En).
      rewrite (H1 c cl En), Eo in All. replace (optZ_eqb (Some (Z.of_nat c)) (Some (Z.of_nat c))) with true in All; auto.
      symmetry. apply optZ_eqb_spec. reflexivity.
Qed.

(* while it is held (count > 0) an acquire attempt succeeds for the owner and only for the owner *)
Theorem rlock_reacquire_only_holder me s :
  0 < rlock_count s -> (rlock_acq me s <> None <-> rlock_owner s = Some me).
Proof.
  intros P. rewrite bridge_rlock_acq.
  replace (rlock_count s =? 0) with false by (symmetry; apply Z.eqb_neq; lia). rewrite orb_false_r.
  destruct (optZ_eqb (Some me) (rlock_owner s)) eqn:E.
  - apply optZ_eqb_spec in E. split; [auto|discriminate].
  - split; [congruence|]. intros O. rewrite O in E.
    assert (optZ_eqb (Some me) (Some me) = true) by (apply optZ_eqb_spec; reflexivity). congruence.
Qed.

Lemma rlock_reacquire_deepens me s :
  0 < rlock_count s -> rlock_owner s = Some me -> rlock_acq me s = Some (Some (Some me, rlock_count s + 1)).
Proof.
  intros P O. rewrite bridge_rlock_acq, O.
  replace (optZ_eqb (Some me) (Some me)) with true by (symmetry; apply optZ_eqb_spec; reflexivity). reflexivity.
Qed.

(* release by a non-holder, or of a free lock, is refused (AssertionError), state unchanged *)
Theorem rlock_release_refused me s :
  rlock_owner s <> Some me \/ rlock_count s <= 0 -> rlock_rel me s = None.
Proof.
  intros H. rewrite bridge_rlock_rel.
  destruct (optZ_eqb (Some me) (rlock_owner s)) eqn:E; cbn [andb]; auto.
  apply optZ_eqb_spec in E. destruct H as [H|H]; [congruence|].
  replace (rlock_count s >? 0) with false; auto. symmetry. rewrite Z.gtb_ltb. apply Z.ltb_ge. lia.
Qed.

Theorem rlock_release_by_holder me s :
  rlock_owner s = Some me -> 0 < rlock_count s -> rlock_rel me s = Some (Some (Some me, rlock_count s - 1)).
Proof.
  intros O P. rewrite bridge_rlock_rel, O.
  replace (optZ_eqb (Some me) (Some me)) with true by (symmetry; apply optZ_eqb_spec; reflexivity).
  replace (rlock_count s >? 0) with true by (symmetry; apply Z.gtb_lt; lia). reflexivity.
Qed.

(* progress: a free RLock (count 0) is taken by the next attempt of any contender *)
Lemma rlock_progress (cfg : config rlock_state) c cl rest :
  nth_error (clients cfg) c = Some cl -> prog cl = OAcq :: rest -> rlock_count (shared cfg) = 0 ->
  let cfg' := step _ rlock_acq rlock_rel rlock_probe cfg c in
  hd_error (trace cfg') = Some (c, EAcqOk) /\
  nth_error (clients cfg') c = Some {| prog := rest; held := held cl + 1 |}.
Proof.
  intros En Ep Z0.
  assert (Ea : rlock_acq (Z.of_nat c) (shared cfg) = Some (Some (Some (Z.of_nat c), rlock_count (shared cfg) + 1))).
  { rewrite bridge_rlock_acq, Z0. cbn [Z.eqb]. rewrite orb_true_r. reflexivity. }
  destruct (step_acquire_ok _ rlock_rel rlock_probe _ _ _ _ _ En Ep Ea) as (_ & T & N). auto.
Qed.

(* barrier over RLock *)
Theorem rlock_barrier ns sched :
  let cfg := run _ rlock_acq rlock_rel rlock_probe sched (init _ None (map barrier_calls ns)) in
  working (clients cfg) <= 1 /\
  (forall c cl, nth_error (clients cfg) c = Some cl -> in_work cl = true -> 0 < held cl).
Proof.
  intros cfg.
  (* programs stay bracketed: a release of a bracketed program is never refused *)
  assert (D : disciplined bracketed (clients cfg) /\ rlock_inv cfg).
  { subst cfg. apply (run_invariant rlock_acq rlock_rel rlock_probe
      (fun cfg => disciplined bracketed (clients cfg) /\ rlock_inv cfg)).
    - intros cfg c [Hd I]. split; [|apply rlock_step_inv; exact I].
      destruct bracketed_discipline as (DA & DR & DW & DP). unfold step.
      destruct (nth_error (clients cfg) c) as [cl|] eqn:En; [|exact Hd].
      destruct (prog cl) as [|o rest] eqn:Ep; [exact Hd|].
      pose proof (Forall_nth_error _ _ _ _ Hd En) as [Hn Hb]. cbn beta in Hn, Hb. rewrite Ep in Hb.
      destruct o.
      + destruct (rlock_acq _ _); cbn [clients]; [|exact Hd].
        apply Forall_upd; [assumption|cbn; split; [lia|apply DA; assumption]].
      + destruct (DR _ _ Hb) as [Hpos Hb'].
        destruct (rlock_rel (Z.of_nat c) (shared cfg)) eqn:Er; cbn [clients].
        * apply Forall_upd; [assumption|cbn; split; [lia|assumption]].
        * exfalso. destruct I as (H0 & H1 & H2 & H3). rewrite (H1 c cl En) in Hpos.
          destruct (optZ_eqb (Some (Z.of_nat c)) (rlock_owner (shared cfg))) eqn:E; [|lia].
          apply optZ_eqb_spec in E. rewrite (rlock_release_by_holder _ _ (eq_sym E) Hpos) in Er. discriminate.
      + cbn [clients]. apply Forall_upd; [assumption|cbn; split; [lia|eauto]].
      + cbn [clients]. apply Forall_upd; [assumption|cbn; split; [lia|eauto]].
    - split; [|apply rlock_init_inv]. apply disciplined_init.
      apply Forall_forall. intros p I. apply in_map_iff in I as [n [<- _]]. apply barrier_calls_bracketed. }
  destruct D as [Hd I]. split.
  - pose proof (working_le_holders _ Hd). pose proof (rlock_mutex (map barrier_calls ns) sched) as [M _].
    fold cfg in M. lia.
  - intros c cl En W. pose proof (Forall_nth_error _ _ _ _ Hd En) as [_ B]. cbn beta in B.
    unfold in_work in W. destruct (prog cl) as [|[] r]; try discriminate. eapply bracketed_work; eauto.
Qed.

Example rlock_nonvacuous :
  let progs := [[OAcq; OAcq; OWork; ORel; OWork; ORel]; [ORel; OAcq; OWork; ORel]; barrier_calls 1] in
  let cfg := run _ rlock_acq rlock_rel rlock_probe [0; 1; 0; 1; 2; 0; 0]%nat (init _ None progs) in
  holders (clients cfg) = 1 /\ shared cfg = Some (Some 0, 1) /\
  rev (trace cfg) = [(0, EAcqOk); (1, ERelRefused); (0, EAcqOk); (1, EAcqFail); (2, EAcqFail); (0, EWork); (0, ERelOk)]%nat.
Proof. vm_compute. auto. Qed.
