(* Bridge lemmas for C09: the only statements that look inside the definitions generated from core.py
   (_cull, EVICTION_POLICY, cull, the get/incr policy-column updates, the triggers) and from fanout.py
   (size_limit / shards).  Proved by reflexivity / small case analysis, so each one breaks the moment the
   source says something else (a flipped comparison, another ORDER BY column, a dropped LIMIT ...). *)
From Coq Require Import QArith.
From DC Require Import DCPrelude DCPreludeFacts Val SqlBase Gen_Sql FanoutBase Gen_Fanout.
Open Scope Z_scope.

(* ---------------------------------------------------------------- vocabulary of the statements *)
(* a row that _cull may remove as expired at clock value `now` *)
Definition passed (now : Z) (r : row) : bool :=
  match expire_time r with Some e => e <? now | None => false end.

(* the column each policy orders by *)
Definition policy_key (p : policy) (r : row) : Z :=
  match p with PLRS => store_time r | PLRU => access_time r | PLFU => access_count r | PNone => 0 end.

Definition is_pnone (p : policy) : bool := match p with PNone => true | _ => false end.

(* what a get-hit does to the row under each policy *)
Definition get_refresh (p : policy) (now : Z) (r : row) : row :=
  match p with
  | PLRU => {| rowid := rowid r; rkey := rkey r; rraw := rraw r; store_time := store_time r; expire_time := expire_time r;
               access_time := now; access_count := access_count r; rtag := rtag r; rsize := rsize r; rmode := rmode r;
               rfile := rfile r; rvalue := rvalue r |}
  | PLFU => {| rowid := rowid r; rkey := rkey r; rraw := rraw r; store_time := store_time r; expire_time := expire_time r;
               access_time := access_time r; access_count := access_count r + 1; rtag := rtag r; rsize := rsize r;
               rmode := rmode r; rfile := rfile r; rvalue := rvalue r |}
  | _ => r
  end.

(* what incr does to a live row: new value, store_time = now, policy column refreshed as by a get-hit *)
Definition incr_refresh (p : policy) (now : Z) (v : sqlval) (r : row) : row :=
  let g := get_refresh p now r in
  {| rowid := rowid r; rkey := rkey r; rraw := rraw r; store_time := now; expire_time := expire_time r;
     access_time := access_time g; access_count := access_count g; rtag := rtag r; rsize := rsize r; rmode := rmode r;
     rfile := rfile r; rvalue := v |}.

(* ---------------------------------------------------------------- _cull guards *)
Lemma bridge_cull_disabled l : cull_disabled l = (l =? 0).
Proof. reflexivity. Qed.

Lemma bridge_cull_exhausted l : cull_exhausted l = (l =? 0).
Proof. reflexivity. Qed.

Lemma bridge_cull_skip_policy sp vol lim : cull_skip_policy sp vol lim = is_none sp || (vol <? lim).
Proof. reflexivity. Qed.

Lemma bridge_cull_over_limit vol lim : cull_over_limit vol lim = (vol >? lim).
Proof. reflexivity. Qed.

Lemma bridge_cull_page : cull_page_delete = cull_page /\ 0 < cull_page.
Proof. split; reflexivity. Qed.

Lemma bridge_cull_none_returns_count : cull_none_returns_count = true.
Proof. reflexivity. Qed.

Lemma truthy_some b : truthy (Some b) = b.
Proof. destruct b; reflexivity. Qed.

(* ---------------------------------------------------------------- EVICTION_POLICY *)
Lemma bridge_policy_has_cull p : policy_has_cull p = negb (is_pnone p).
Proof. destruct p; reflexivity. Qed.

Lemma bridge_policy_has_get p : policy_has_get p = match p with PLRU | PLFU => true | _ => false end.
Proof. destruct p; reflexivity. Qed.

Lemma bridge_policy_cull_select p lim t :
  policy_cull_select p lim t =
  if is_pnone p then [] else sql_limit lim (sql_order false [ord_z (policy_key p)] t).
Proof. destruct p; reflexivity. Qed.

Lemma bridge_policy_cull_delete p lim t r :
  policy_cull_delete p lim t r = mem_rowid (rowid r) (policy_cull_select p lim t).
Proof. destruct p; try reflexivity; apply truthy_some. Qed.

Lemma bridge_policy_cullall_delete p lim t r :
  policy_cullall_delete p lim t r = mem_rowid (rowid r) (policy_cull_select p lim t).
Proof. destruct p; try reflexivity; apply truthy_some. Qed.

(* ---------------------------------------------------------------- the expired-rows query of _cull *)
Lemma bridge_passed now r :
  truthy (tv_and (Some (is_some (expire_time r))) (tvo_lt (expire_time r) now)) = passed now r.
Proof. unfold passed. destruct (expire_time r) as [e|]; cbn; [destruct (e <? now)|]; reflexivity. Qed.

Lemma bridge_cull_expired_select now lim t :
  cull_expired_select now lim t = sql_limit lim (sql_order false [ord_optz expire_time] (filter (passed now) t)).
Proof.
  unfold cull_expired_select. do 2 f_equal. apply filter_ext. intros r. apply bridge_passed.
Qed.

Lemma bridge_cull_expired_delete now lim t r :
  cull_expired_delete now lim t r = mem_rowid (rowid r) (cull_expired_select now lim t).
Proof. apply truthy_some. Qed.

(* ---------------------------------------------------------------- expire() page query *)
Definition expire_due (lo now : Z) (r : row) : bool :=
  match expire_time r with Some e => (lo <=? e) && (e <? now) | None => false end.

Lemma bridge_expire_select lo now n t :
  expire_select lo now n t = sql_limit n (sql_order false [ord_optz expire_time] (filter (expire_due lo now) t)).
Proof.
  unfold expire_select. do 2 f_equal. apply filter_ext. intros r. unfold expire_due.
  destruct (expire_time r) as [e|]; cbn; [|reflexivity].
  rewrite Z.geb_leb. destruct (lo <=? e), (e <? now); reflexivity.
Qed.

Lemma bridge_select_delete_delete ids t r : select_delete_delete ids t r = existsb (Z.eqb (rowid r)) ids.
Proof. apply truthy_some. Qed.

(* ---------------------------------------------------------------- policy-column updates of get / incr *)
Lemma bridge_policy_get_update p now rid r :
  policy_get_update p now rid r = if rowid r =? rid then get_refresh p now r else r.
Proof. destruct p; cbn; try (destruct (rowid r =? rid); reflexivity). Qed.

Lemma bridge_incr_update p now v rid r :
  incr_update p now v rid r = if rowid r =? rid then incr_refresh p now v r else r.
Proof. destruct p; cbn; destruct (rowid r =? rid); reflexivity. Qed.

(* ---------------------------------------------------------------- _row_insert / _row_update *)
Lemma bridge_row_insert k raw st_ ex at_ ac tg sz md fl vl rid :
  let r := row_insert k raw st_ ex at_ ac tg sz md fl vl rid in
  rowid r = rid /\ rkey r = k /\ rraw r = raw /\ store_time r = st_ /\ expire_time r = ex /\ access_time r = at_
  /\ access_count r = ac /\ rsize r = sz.
Proof. cbn. repeat split; reflexivity. Qed.

Lemma bridge_row_update_set st_ ex at_ ac tg sz md fl vl rid r :
  let r' := row_update_set st_ ex at_ ac tg sz md fl vl rid r in
  rowid r' = rowid r /\ rkey r' = rkey r /\ rraw r' = rraw r /\ store_time r' = st_ /\ expire_time r' = ex
  /\ access_time r' = at_ /\ access_count r' = ac /\ rsize r' = sz.
Proof. cbn. repeat split; reflexivity. Qed.

Lemma bridge_row_update_where st_ ex at_ ac tg sz md fl vl rid r :
  row_update_where st_ ex at_ ac tg sz md fl vl rid r = (rowid r =? rid).
Proof. apply truthy_some. Qed.

(* ---------------------------------------------------------------- triggers *)
Lemma bridge_trig_delete v n o : trig_delete_count v n o = v - 1 /\ trig_delete_size v n o = v - rsize o.
Proof. split; reflexivity. Qed.

Lemma bridge_trig_insert v n o : trig_insert_count v n o = v + 1 /\ trig_insert_size v n o = v + rsize n.
Proof. split; reflexivity. Qed.

Lemma bridge_trig_update v n o : trig_update_size v n o = v + rsize n - rsize o.
Proof. reflexivity. Qed.

(* ---------------------------------------------------------------- FanoutCache.__init__ *)
Lemma bridge_shard_size_limit_q l n : shard_size_limit l n = (inject_Z l / inject_Z n)%Q.
Proof. reflexivity. Qed.

(* each shard is created with size_limit / shards: the exact rational (Python's true division rounds it to the
   nearest binary64, which is the rational itself whenever shards divides size_limit) *)
Lemma shard_limit_times l n : n <> 0 -> (shard_size_limit l n * inject_Z n == inject_Z l)%Q.
Proof. intros H. rewrite bridge_shard_size_limit_q. field. unfold Qeq. cbn. lia. Qed.

Lemma shard_limit_exact l n : 0 < n -> (n | l) -> (shard_size_limit l n == inject_Z (l / n))%Q.
Proof.
  intros Hn [q ->]. rewrite bridge_shard_size_limit_q, Z.div_mul by lia. rewrite inject_Z_mult.
  field. unfold Qeq. cbn. lia.
Qed.

Example shard_limit_example : (shard_size_limit 1000 4 == inject_Z 250)%Q /\ (shard_size_limit 1000 3 * inject_Z 3 == inject_Z 1000)%Q.
Proof. split; [apply (shard_limit_exact 1000 4); [lia|exists 250; reflexivity]|apply shard_limit_times; lia]. Qed.
