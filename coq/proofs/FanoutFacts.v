(* Facts about FanoutCache (C13).  Bridge lemmas first: they are the only statements that look inside the
   generated table (gen/Gen_Fanout.v) and the generated routing plan (gen/Gen_Disk.v). *)
From Coq Require Import QArith Permutation.
From DC Require Import DCPrelude DCPreludeFacts Val DiskBase Gen_Disk Disk DiskFacts FanoutBase Gen_Fanout Fanout.
Local Open Scope Z_scope.

(* ---------------- bridge lemmas: generated table ---------------- *)

(* every key-addressed method computes the same index: self._hash(key) % self._count *)
Lemma bridge_idx m d : deleg_of m = Some d -> forall h n, fd_index d h n = h mod n.
Proof. destruct m; cbn; intros E; inversion E; subst; reflexivity. Qed.

Lemma bridge_table m d : In (m, d) fanout_table <-> deleg_of m = Some d.
Proof.
  split.
  - cbn. intros H. repeat (destruct H as [H|H]; [inversion H; subst; reflexivity|]). contradiction.
  - destruct m; cbn; intros E; inversion E; subst; auto 20.
Qed.

Lemma bridge_aggregates :
  agg_len = {| as_meth := CLen; as_shards := AllForward |} /\
  agg_volume = {| as_meth := CVolume; as_shards := AllForward |} /\
  st_shards agg_stats_t = AllForward /\ st_hits agg_stats_t = PFst /\ st_misses agg_stats_t = PSnd /\
  ck_shards agg_check_t = AllForward /\
  rm_shards remove_loop = AllForward /\ rm_resumes remove_loop = true /\ rm_partial remove_loop = PartialArg0 /\
  agg_iter_t = {| it_shards := AllForward; it_each := EachForward |} /\
  agg_reversed_t = {| it_shards := AllBackward; it_each := EachBackward |} /\
  agg_transact_t = {| tx_shards := AllForward; tx_retry := true; tx_asserts_retry := true |} /\
  foreach_create_tag_index = AllForward /\ foreach_drop_tag_index = AllForward /\
  foreach_close = AllForward /\ foreach_reset = AllForward.
Proof. repeat split; reflexivity. Qed.

Lemma bridge_removals cullf now tg :
  shard_removal cullf agg_clear (env_of_now 0) = d_clear /\
  shard_removal cullf agg_expire (env_of_now now) = d_expire now /\
  shard_removal cullf agg_evict (env_of_tag tg) = d_evict tg /\
  shard_removal cullf agg_cull (env_of_now now) = cullf.
Proof. repeat split; reflexivity. Qed.

Lemma bridge_shard_size_limit l n : shard_size_limit l n = (inject_Z l / inject_Z n)%Q.
Proof. reflexivity. Qed.

Lemma bridge_shard_limit_passed given ex : shard_limit_passed given ex = given || negb ex.
Proof. reflexivity. Qed.

Lemma bridge_dir_width : shard_dir_width = 3.
Proof. reflexivity. Qed.

(* ---------------- generic list facts ---------------- *)
Section Lists.
  Context {A : Type}.

  Lemma filter_true (p : A -> bool) l : (forall x, In x l -> p x = true) -> filter p l = l.
  Proof.
    induction l as [|x l IH]; cbn; intros H; auto.
    rewrite (H x (or_introl eq_refl)). f_equal. apply IH. intros; apply H; auto.
  Qed.

  Lemma filter_false (p : A -> bool) l : (forall x, In x l -> p x = false) -> filter p l = [].
  Proof.
    induction l as [|x l IH]; cbn; intros H; auto.
    rewrite (H x (or_introl eq_refl)). apply IH. intros; apply H; auto.
  Qed.

  Lemma filter_comm (p q : A -> bool) l : filter p (filter q l) = filter q (filter p l).
  Proof.
    induction l as [|x l IH]; cbn; auto.
    destruct (p x) eqn:P, (q x) eqn:Q; cbn; rewrite ?P, ?Q, IH; reflexivity.
  Qed.

  Lemma filter_disjoint_perm (p q : A -> bool) l :
    (forall x, In x l -> p x = true -> q x = false) ->
    Permutation (filter p l ++ filter q l) (filter (fun x => p x || q x) l).
  Proof.
    induction l as [|x l IH]; cbn; intros H; auto.
    assert (IH' := IH (fun y Hy => H y (or_intror Hy))).
    destruct (p x) eqn:P; cbn.
    - rewrite (H x (or_introl eq_refl) P). apply perm_skip. exact IH'.
    - destruct (q x); cbn; auto.
      eapply Permutation_trans; [apply Permutation_sym, Permutation_middle|]. apply perm_skip. exact IH'.
  Qed.

  Lemma partition_perm (r : A -> nat) (idxs : list nat) l :
    NoDup idxs ->
    Permutation (concat (map (fun i => filter (fun x => Nat.eqb (r x) i) l) idxs))
                (filter (fun x => existsb (Nat.eqb (r x)) idxs) l).
  Proof.
    induction idxs as [|i idxs IH]; intros ND.
    - cbn. rewrite filter_false; auto.
    - inversion ND as [|? ? Hni ND']; subst. cbn [map concat existsb].
      eapply Permutation_trans; [apply Permutation_app_head, IH, ND'|].
      apply filter_disjoint_perm. intros x _ E. apply Nat.eqb_eq in E. subst i.
      destruct (existsb (Nat.eqb (r x)) idxs) eqn:X; auto.
      apply existsb_exists in X as [j [Hj Ej]]. apply Nat.eqb_eq in Ej. subst j. contradiction.
  Qed.

  Lemma sum_lengths (ls : list (list A)) :
    sumZ (map (fun l => Z.of_nat (length l)) ls) = Z.of_nat (length (concat ls)).
  Proof. induction ls as [|l ls IH]; cbn [map sumZ concat]; auto. rewrite app_length, IH. lia. Qed.

  Lemma concat_rev_rev (ls : list (list A)) : concat (map (@rev A) (rev ls)) = rev (concat ls).
  Proof.
    induction ls as [|l ls IH]; cbn; auto.
    rewrite map_app, concat_app, IH, rev_app_distr. cbn. rewrite app_nil_r. reflexivity.
  Qed.
End Lists.

Lemma sumZ_app a b : sumZ (a ++ b) = sumZ a + sumZ b.
Proof. induction a as [|x a IH]; cbn [app sumZ]; lia. Qed.

(* ---------------- the dictionary: every key-addressed operation has one shape ---------------- *)
Section Refine.
  Variable C : Type.
  Variable ceqb : C -> C -> bool.
  Variable cls : pyval -> C.
  Hypothesis ceqb_spec : forall a b, ceqb a b = true <-> a = b.
  Variable hashf : pyval -> Z.

  Local Notation matches := (matches C ceqb cls).
  Local Notation dict_keyed := (dict_keyed C ceqb cls).
  Local Notation dict_step := (dict_step C ceqb cls).
  Local Notation dict_run := (dict_run C ceqb cls).
  Local Notation call_shard := (call_shard C ceqb cls).
  Local Notation fan_keyed := (fan_keyed C ceqb cls hashf).
  Local Notation fan_step := (fan_step C ceqb cls hashf).
  Local Notation fan_run := (fan_run C ceqb cls hashf).
  Local Notation route := (route hashf).
  Local Notation split := (split hashf).

  (* what the generated record does on one shard is the documented operation *)
  Lemma bridge_call_shard m d env s : deleg_of m = Some d -> call_shard d env s = dict_keyed m env s.
  Proof. destruct m; cbn [deleg_of]; intros E; inversion E; subst; reflexivity. Qed.

  (* the three things a key-addressed operation can do to the list *)
  Inductive kact := KKeep | KAlter (f : item -> list item) | KAppend (it : item).

  Definition apply_kact (k : pyval) (a : kact) (d : dict) : dict :=
    match a with KKeep => d | KAlter f => alter (matches k) f d | KAppend it => d ++ [it] end.

  Definition act_of (m : fmeth) (env : cargs) (o : option item) : kact * res :=
    let k := a_key env in
    let now := a_now env in
    let found := match o with Some it => if live now it then Some it else None | None => None end in
    match m with
    | MSet =>
        match o with
        | Some _ => (KAlter (restore (a_value env) (expiry now (a_expire env)) (a_tag env)), RBool true)
        | None => (KAppend (fresh k (a_value env) (expiry now (a_expire env)) (a_tag env)), RBool true)
        end
    | MSetItem =>
        match o with
        | Some _ => (KAlter (restore (a_value env) None None), RNone)
        | None => (KAppend (fresh k (a_value env) None None), RNone)
        end
    | MAdd =>
        match o with
        | Some it => if live now it then (KKeep, RBool false)
                     else (KAlter (restore (a_value env) (expiry now (a_expire env)) (a_tag env)), RBool true)
        | None => (KAppend (fresh k (a_value env) (expiry now (a_expire env)) (a_tag env)), RBool true)
        end
    | MTouch =>
        match found with
        | Some it => (KAlter (restore (i_val it) (expiry now (a_expire env)) (i_tag it)), RBool true)
        | None => (KKeep, RBool false)
        end
    | MIncr | MDecr =>
        let delta := match m with MDecr => - a_delta env | _ => a_delta env end in
        match o with
        | Some it =>
            if live now it then
              match i_val it with
              | VInt z => (KAlter (restore (VInt (z + delta)) (i_exp it) (i_tag it)), RVal (VInt (z + delta)))
              | _ => (KKeep, RTypeError)
              end
            else
              match a_idefault env with
              | Some dv => (KAlter (restore (VInt (dv + delta)) None None), RVal (VInt (dv + delta)))
              | None => (KKeep, RKeyError)
              end
        | None =>
            match a_idefault env with
            | Some dv => (KAppend (fresh k (VInt (dv + delta)) None None), RVal (VInt (dv + delta)))
            | None => (KKeep, RKeyError)
            end
        end
    | MGet => match found with Some it => (KKeep, RVal (i_val it)) | None => (KKeep, RDefault) end
    | MGetItem => match found with Some it => (KKeep, RVal (i_val it)) | None => (KKeep, RKeyError) end
    | MContains => (KKeep, RBool (is_some found))
    | MPop => match found with Some it => (KAlter (fun _ => []), RVal (i_val it)) | None => (KKeep, RDefault) end
    | MDelete => match found with Some _ => (KAlter (fun _ => []), RBool true) | None => (KKeep, RBool false) end
    | MDelItem => match found with Some _ => (KAlter (fun _ => []), RNone) | None => (KKeep, RKeyError) end
    | _ => (KKeep, RBadCall)
    end.

  Lemma dict_keyed_act m env d :
    dict_keyed m env d =
    (apply_kact (a_key env) (fst (act_of m env (find (matches (a_key env)) d))) d,
     snd (act_of m env (find (matches (a_key env)) d))).
  Proof.
    destruct m; cbn [Fanout.dict_keyed act_of];
      unfold d_set, d_add, d_touch, d_incr, d_get, d_pop, d_remove, d_contains, d_lookup;
      destruct (find (matches (a_key env)) d) as [it|]; cbn [fst snd apply_kact];
      try destruct (live (a_now env) it); cbn [fst snd apply_kact is_some];
      try destruct (i_val it); try destruct (a_idefault env); reflexivity.
  Qed.

  Definition act_ok (k : pyval) (o : option item) (a : kact) : Prop :=
    match a with
    | KKeep => True
    | KAlter f => forall it y, In y (f it) -> i_key y = i_key it
    | KAppend it => o = None /\ i_key it = k
    end.

  Lemma act_of_ok m env o : act_ok (a_key env) o (fst (act_of m env o)).
  Proof.
    destruct m; cbn [act_of]; destruct o as [it|]; cbn;
      try destruct (live (a_now env) it); cbn;
      try destruct (i_val it); try destruct (a_idefault env); cbn; auto;
      try (intros ? ? [<-|[]]; reflexivity); try (intros ? ? []).
  Qed.

  (* ---- filtering by a predicate on the stored key ---- *)
  Section Filter.
    Variable q : pyval -> bool.
    Let p (it : item) : bool := q (i_key it).
    Variable k : pyval.

    Lemma find_filter_in d :
      (forall it, In it d -> matches k it = true -> p it = true) ->
      find (matches k) (filter p d) = find (matches k) d.
    Proof.
      induction d as [|x d IH]; cbn; intros H; auto.
      destruct (matches k x) eqn:M.
      - rewrite (H x (or_introl eq_refl) M). cbn. rewrite M. reflexivity.
      - destruct (p x); cbn; rewrite ?M; apply IH; intros; apply H; auto.
    Qed.

    Lemma alter_filter_in f d :
      (forall it, In it d -> matches k it = true -> p it = true) ->
      (forall it y, In y (f it) -> i_key y = i_key it) ->
      filter p (alter (matches k) f d) = alter (matches k) f (filter p d).
    Proof.
      intros H Hf. induction d as [|x d IH]; cbn; auto.
      destruct (matches k x) eqn:M.
      - rewrite (H x (or_introl eq_refl) M). cbn. rewrite M, filter_app. f_equal.
        apply filter_true. intros y Hy. unfold p. rewrite (Hf x y Hy). apply (H x (or_introl eq_refl) M).
      - assert (IH' := IH (fun it Hi => H it (or_intror Hi))).
        cbn. destruct (p x); cbn; rewrite ?M, IH'; reflexivity.
    Qed.

    Lemma alter_filter_out f d :
      (forall it, In it d -> matches k it = true -> p it = false) ->
      (forall it y, In y (f it) -> i_key y = i_key it) ->
      filter p (alter (matches k) f d) = filter p d.
    Proof.
      intros H Hf. induction d as [|x d IH]; cbn; auto.
      destruct (matches k x) eqn:M.
      - rewrite (H x (or_introl eq_refl) M), filter_app.
        rewrite (filter_false p (f x)); auto.
        intros y Hy. unfold p. rewrite (Hf x y Hy). apply (H x (or_introl eq_refl) M).
      - assert (IH' := IH (fun it Hi => H it (or_intror Hi))).
        cbn. destruct (p x); rewrite IH'; reflexivity.
    Qed.

    Lemma kact_filter_in a d :
      (forall it, In it d -> matches k it = true -> p it = true) -> q k = true ->
      act_ok k (find (matches k) d) a ->
      filter p (apply_kact k a d) = apply_kact k a (filter p d).
    Proof.
      intros H Hk Ok. destruct a as [|f|it]; cbn in *; auto.
      - apply alter_filter_in; auto.
      - destruct Ok as [_ Ek]. rewrite filter_app. cbn. unfold p at 2. rewrite Ek, Hk. reflexivity.
    Qed.

    Lemma kact_filter_out a d :
      (forall it, In it d -> matches k it = true -> p it = false) -> q k = false ->
      act_ok k (find (matches k) d) a ->
      filter p (apply_kact k a d) = filter p d.
    Proof.
      intros H Hk Ok. destruct a as [|f|it]; cbn in *; auto.
      - apply alter_filter_out; auto.
      - destruct Ok as [_ Ek]. rewrite filter_app. cbn. unfold p at 2. rewrite Ek, Hk. apply app_nil_r.
    Qed.
  End Filter.

  (* ---- split ---- *)
  Lemma split_length n d : length (split n d) = Z.to_nat n.
  Proof. unfold Fanout.split. rewrite map_length, seq_length. reflexivity. Qed.

  Lemma nth_map_seq {B} (F : nat -> B) (dflt : B) a len j :
    (j < len)%nat -> nth j (map F (seq a len)) dflt = F (a + j)%nat.
  Proof.
    revert a j. induction len as [|len IH]; intros a j L; [lia|].
    destruct j as [|j]; cbn; [f_equal; lia|]. rewrite IH by lia. f_equal. lia.
  Qed.

  Lemma upd_at_map_seq (F : nat -> dict) (g : dict -> dict) a len j :
    upd_at j g (map F (seq a len)) = map (fun i => if Nat.eqb i (a + j) then g (F i) else F i) (seq a len).
  Proof.
    revert a j. induction len as [|len IH]; intros a j; [destruct j; reflexivity|].
    destruct j as [|j]; cbn [seq map upd_at].
    - replace (a + 0)%nat with a by lia. rewrite Nat.eqb_refl. f_equal.
      apply map_ext_in. intros i Hi. apply in_seq in Hi.
      destruct (Nat.eqb i a) eqn:E; auto. apply Nat.eqb_eq in E. lia.
    - destruct (Nat.eqb a (a + S j)) eqn:E; [apply Nat.eqb_eq in E; lia|]. f_equal.
      rewrite IH. apply map_ext. intros i. replace (S a + j)%nat with (a + S j)%nat by lia. reflexivity.
  Qed.

  Lemma route_lt n it : 0 < n -> (route n it < Z.to_nat n)%nat.
  Proof. intros Hn. unfold Fanout.route. pose proof (Z.mod_pos_bound (hashf (i_key it)) n Hn). lia. Qed.

  (* the items of all shards are the items of the dictionary: each exactly once *)
  Lemma split_perm n d : 0 < n -> Permutation (merge (split n d)) d.
  Proof.
    intros Hn. unfold merge, Fanout.split.
    eapply Permutation_trans; [apply (partition_perm (route n)), seq_NoDup|].
    rewrite filter_true; auto. intros x _. apply existsb_exists. exists (route n x). split.
    - apply in_seq. pose proof (route_lt n x Hn). lia.
    - apply Nat.eqb_refl.
  Qed.

  Lemma fan_len_merge st : fan_len st = d_len (merge st).
  Proof.
    unfold fan_len, fan_sum. destruct bridge_aggregates as [-> _]. cbn [as_meth as_shards range measure].
    unfold d_len, merge. apply sum_lengths.
  Qed.

  Lemma fan_len_split n d : 0 < n -> fan_len (split n d) = d_len d.
  Proof. intros Hn. rewrite fan_len_merge. unfold d_len. rewrite (Permutation_length (split_perm n d Hn)). reflexivity. Qed.

  (* _remove visits every shard exactly once, in order: shard i becomes f(shard i), the total is the sum *)
  Lemma remove_visit_spec (f : dict -> dict * Z) l acc :
    fold_left (fun acc s => let '(s', c) := f s in (fst acc ++ [s'], snd acc + c)) l acc =
    (fst acc ++ map (fun s => fst (f s)) l, snd acc + sumZ (map (fun s => snd (f s)) l)).
  Proof.
    revert acc. induction l as [|s l IH]; intros [a t]; cbn [fold_left map sumZ fst snd].
    - rewrite app_nil_r. f_equal. lia.
    - destruct (f s) as [s' c] eqn:E. rewrite IH. cbn [fst snd]. rewrite <- app_assoc. cbn. f_equal. lia.
  Qed.

  Lemma fan_remove_spec (f : dict -> dict * Z) st :
    fan_remove f st = (map (fun s => fst (f s)) st, sumZ (map (fun s => snd (f s)) st)).
  Proof.
    unfold fan_remove, remove_visit.
    destruct bridge_aggregates as (_ & _ & _ & _ & _ & _ & -> & _). cbn [range].
    rewrite remove_visit_spec. reflexivity.
  Qed.

  (* removal by a predicate on items commutes with split *)
  Lemma fan_remove_filter n (keep gone : item -> bool) d :
    0 < n ->
    fan_remove (fun s => (filter keep s, d_len (filter gone s))) (split n d) =
    (split n (filter keep d), d_len (filter gone d)).
  Proof.
    intros Hn. rewrite fan_remove_spec. cbn [fst snd]. f_equal.
    - unfold Fanout.split. rewrite map_map. apply map_ext. intros i. apply filter_comm.
    - rewrite <- (fan_len_split n (filter gone d) Hn), fan_len_merge.
      unfold d_len, merge, Fanout.split. rewrite map_map.
      rewrite <- sum_lengths, map_map. f_equal. apply map_ext. intros i. rewrite filter_comm. reflexivity.
  Qed.

  Lemma fan_remove_clear n d :
    0 < n -> fan_remove d_clear (split n d) = (split n [], d_len d).
  Proof.
    intros Hn. rewrite fan_remove_spec. unfold d_clear. cbn [fst snd]. f_equal.
    - unfold Fanout.split. rewrite map_map. cbn. reflexivity.
    - change (sumZ (map d_len (split n d)) = d_len d).
      rewrite <- (fan_len_split n d Hn), fan_len_merge. unfold d_len, merge. apply sum_lengths.
  Qed.

  (* iteration: every stored key exactly once *)
  Lemma fan_iter_perm n d : 0 < n -> Permutation (fan_iter agg_iter_t (split n d)) (d_keys d).
  Proof.
    intros Hn. unfold fan_iter. cbn [agg_iter_t it_shards it_each range].
    change (each EachForward) with (map i_key). change (d_keys d) with (map i_key d).
    match goal with |- Permutation ?x _ => replace x with (map i_key (concat (split n d))) by apply concat_map end.
    apply Permutation_map. apply (split_perm n d Hn).
  Qed.

  Lemma fan_reversed_perm n d : 0 < n -> Permutation (fan_iter agg_reversed_t (split n d)) (rev (d_keys d)).
  Proof.
    intros Hn. unfold fan_iter. cbn [agg_reversed_t it_shards it_each range].
    change (each EachBackward) with (fun s : dict => rev (map i_key s)). change (d_keys d) with (map i_key d).
    match goal with |- Permutation ?x _ => replace x with (rev (map i_key (concat (split n d)))) end.
    - eapply Permutation_trans; [apply Permutation_sym, Permutation_rev|].
      eapply Permutation_trans; [|apply Permutation_rev].
      apply Permutation_map. apply (split_perm n d Hn).
    - rewrite (concat_map i_key (split n d)), <- concat_rev_rev, <- map_rev, map_map. reflexivity.
  Qed.

  (* ---- one key-addressed call ---- *)
  Lemma matches_cls k it : matches k it = true -> cls k = cls (i_key it).
  Proof. unfold Fanout.matches. apply ceqb_spec. Qed.

  Lemma fan_keyed_split m dg n env d :
    0 < n -> deleg_of m = Some dg ->
    (forall it, In it d -> matches (a_key env) it = true -> hashf (i_key it) mod n = hashf (a_key env) mod n) ->
    fan_keyed dg n env Ran (split n d) = (split n (fst (dict_keyed m env d)), snd (dict_keyed m env d)).
  Proof.
    intros Hn Hd Hroute. unfold Fanout.fan_keyed.
    rewrite (bridge_idx m dg Hd), split_length.
    set (k := a_key env). pose proof (Z.mod_pos_bound (hashf k) n Hn) as B.
    replace ((hashf k mod n <? 0) || (Z.of_nat (Z.to_nat n) <=? hashf k mod n)) with false.
    2:{ symmetry. apply orb_false_iff. split; [apply Z.ltb_ge|apply Z.leb_gt]; lia. }
    set (j := Z.to_nat (hashf k mod n)).
    assert (Hj : (j < Z.to_nat n)%nat) by (unfold j; lia).
    assert (Hnth : nth j (split n d) [] = filter (fun it => Nat.eqb (route n it) j) d).
    { unfold Fanout.split. rewrite nth_map_seq by exact Hj. reflexivity. }
    rewrite Hnth.
    rewrite (bridge_call_shard m dg env _ Hd).
    set (q := fun key : pyval => Nat.eqb (Z.to_nat (hashf key mod n)) j).
    assert (Hin : forall it, In it d -> matches k it = true -> q (i_key it) = true).
    { intros it Hi Hm. unfold q, j. rewrite (Hroute it Hi Hm). apply Nat.eqb_refl. }
    assert (Hqk : q k = true) by (unfold q, j; apply Nat.eqb_refl).
    change (filter (fun it => Nat.eqb (route n it) j) d) with (filter (fun it => q (i_key it)) d).
    rewrite (dict_keyed_act m env (filter (fun it => q (i_key it)) d)).
    rewrite (dict_keyed_act m env d). fold k. cbn [fst snd].
    rewrite (find_filter_in q k d Hin).
    set (o := find (matches k) d). set (a := fst (act_of m env o)).
    assert (Ok : act_ok k o a) by apply act_of_ok.
    f_equal. unfold Fanout.split at 1. rewrite upd_at_map_seq. cbn [Nat.add].
    unfold Fanout.split. apply map_ext_in. intros i Hi.
    destruct (Nat.eqb i j) eqn:E.
    - apply Nat.eqb_eq in E. subst i. symmetry.
      change (filter (fun it => Nat.eqb (route n it) j) (apply_kact k a d))
        with (filter (fun it => q (i_key it)) (apply_kact k a d)).
      apply kact_filter_in; auto.
    - symmetry.
      set (q' := fun key : pyval => Nat.eqb (Z.to_nat (hashf key mod n)) i).
      change (filter (fun it => q' (i_key it)) (apply_kact k a d) = filter (fun it => q' (i_key it)) d).
      apply kact_filter_out; auto.
      + intros it Hit Hm. unfold q'. rewrite (Hroute it Hit Hm). fold j.
        rewrite Nat.eqb_sym. exact E.
      + unfold q'. fold j. rewrite Nat.eqb_sym. exact E.
  Qed.

  (* ---- whole histories ---- *)
  Variable P : pyval -> Prop.          (* the keys of the history *)

  Definition routing_respects (n : Z) : Prop :=
    forall k1 k2, P k1 -> P k2 -> cls k1 = cls k2 -> hashf k1 mod n = hashf k2 mod n.
  Definition keys_in (d : dict) : Prop := Forall (fun it => P (i_key it)) d.
  Definition ops_in (ops : list fop) : Prop := Forall (fun op => forall k, op_key op = Some k -> P k) ops.

  (* results agree; an iteration is compared as a multiset (the order in which shards are chained is not the
     insertion order of the single cache) *)
  Definition res_agree (r r' : res) : Prop :=
    match r, r' with
    | RKeys l, RKeys l' => Permutation l l'
    | _, _ => r = r'
    end.

  Lemma res_agree_refl r : res_agree r r.
  Proof. destruct r; cbn; auto. Qed.

  Lemma alter_keys_in m f d :
    keys_in d -> (forall it y, In y (f it) -> i_key y = i_key it) -> keys_in (alter m f d).
  Proof.
    unfold keys_in. intros H Hf. induction d as [|x d IH]; cbn; auto.
    inversion H as [|? ? Hx Hd]; subst. destruct (m x).
    - apply Forall_app. split; [|exact Hd].
      apply Forall_forall. intros y Hy. rewrite (Hf x y Hy). exact Hx.
    - constructor; [exact Hx|]. apply IH. exact Hd.
  Qed.

  Lemma dict_step_keys_in op d :
    keys_in d -> (forall k, op_key op = Some k -> P k) -> keys_in (fst (dict_step op d)).
  Proof.
    intros H Hk. destruct op as [m env| | |now|tg| |]; cbn [Fanout.dict_step fst]; auto.
    - rewrite dict_keyed_act. cbn [fst].
      pose proof (act_of_ok m env (find (matches (a_key env)) d)) as Ok.
      destruct (fst (act_of m env (find (matches (a_key env)) d))) as [|f|it]; cbn in *; auto.
      + apply alter_keys_in; auto.
      + apply Forall_app. split; auto. constructor; auto. destruct Ok as [_ ->]. apply Hk. reflexivity.
    - constructor.
    - unfold d_expire. cbn. apply Forall_forall. intros x Hx. apply filter_In in Hx as [Hx _].
      revert x Hx. apply Forall_forall. exact H.
    - unfold d_evict. cbn. apply Forall_forall. intros x Hx. apply filter_In in Hx as [Hx _].
      revert x Hx. apply Forall_forall. exact H.
  Qed.

  (* one step: the sharded cache holding the items of d answers as the single dictionary d, and afterwards holds
     the items of the dictionary's next state *)
  Lemma fan_step_split n op d :
    0 < n -> routing_respects n -> keys_in d -> (forall k, op_key op = Some k -> P k) ->
    exists r, fan_step n op (split n d) = (split n (fst (dict_step op d)), r) /\ res_agree r (snd (dict_step op d)).
  Proof.
    intros Hn Hr Hd Hk. destruct op as [m env| | |now|tg| |]; cbn [Fanout.fan_step Fanout.dict_step].
    - destruct (deleg_of m) as [dg|] eqn:Hdg.
      + eexists. split; [|apply res_agree_refl]. apply fan_keyed_split; auto.
        intros it Hi Hm. apply Hr.
        * exact (proj1 (Forall_forall _ _) Hd it Hi).
        * apply Hk. reflexivity.
        * symmetry. apply matches_cls. exact Hm.
      + eexists. split; [|apply res_agree_refl]. destruct m; try discriminate; reflexivity.
    - eexists. split; [|apply res_agree_refl]. cbn [fst snd]. rewrite fan_len_split; auto.
    - destruct (bridge_removals nocull 0 (VInt 0)) as (-> & _).
      rewrite fan_remove_clear by assumption. eexists. split; [reflexivity|apply res_agree_refl].
    - destruct (bridge_removals nocull now (VInt 0)) as (_ & -> & _).
      unfold d_expire. rewrite (fan_remove_filter n (live now) (fun it => negb (live now it)) d Hn).
      eexists. split; [reflexivity|apply res_agree_refl].
    - destruct (bridge_removals nocull 0 tg) as (_ & _ & -> & _).
      unfold d_evict. rewrite (fan_remove_filter n (fun it => negb (tagged tg it)) (tagged tg) d Hn).
      eexists. split; [reflexivity|apply res_agree_refl].
    - eexists. split; [reflexivity|]. cbn [snd res_agree]. apply fan_iter_perm; auto.
    - eexists. split; [reflexivity|]. cbn [snd res_agree]. apply fan_reversed_perm; auto.
  Qed.
  Theorem fan_refines n ops d :
    0 < n -> routing_respects n -> keys_in d -> ops_in ops ->
    exists outs, fan_run n ops (split n d) = (split n (fst (dict_run ops d)), outs) /\
                 Forall2 res_agree outs (snd (dict_run ops d)).
  Proof.
    intros Hn Hr. revert d. induction ops as [|op ops IH]; intros d Hd Hops; cbn [Fanout.fan_run Fanout.dict_run].
    - exists []. split; [reflexivity|constructor].
    - inversion Hops as [|? ? Hop Hrest]; subst.
      destruct (fan_step_split n op d Hn Hr Hd Hop) as [r [E A]]. rewrite E.
      pose proof (dict_step_keys_in op d Hd Hop) as Hd'.
      destruct (dict_step op d) as [d' x]. cbn [fst snd] in *.
      destruct (IH d' Hd' Hrest) as [outs [E' A']]. rewrite E'.
      destruct (dict_run ops d') as [d'' xs]. cbn [fst snd] in *.
      exists (r :: outs). split; [reflexivity|constructor; assumption].
  Qed.
End Refine.

(* ---------------- C13_refines: histories from the empty cache ---------------- *)
Definition fan_empty (n : Z) : list dict := repeat [] (Z.to_nat n).

Lemma split_nil hashf n : split hashf n [] = fan_empty n.
Proof.
  unfold split, fan_empty. cbn [filter]. generalize 0%nat. induction (Z.to_nat n) as [|k IH]; intros a; cbn; auto.
  f_equal. apply IH.
Qed.

Definition history_keys (ops : list fop) : list pyval :=
  flat_map (fun op => match op_key op with Some k => [k] | None => [] end) ops.

Lemma ops_in_history ops : ops_in (fun k => In k (history_keys ops)) ops.
Proof.
  unfold ops_in. apply Forall_forall. intros op Hop k Hk. unfold history_keys. apply in_flat_map.
  exists op. split; auto. rewrite Hk. left. reflexivity.
Qed.

(* A sharded cache is observably one cache.  For every key identity (class function cls with a decidable
   equality), every shard count n >= 1 and every sequence of operations started on the empty cache: if routing
   respects key identity on the keys of the history, then
     - every operation returns what ONE dictionary returns (iterations: the same keys, each exactly once),
     - the shards together hold exactly the items of that dictionary (merge is a permutation of it), and
     - each shard holds, in the dictionary's order, exactly the items routed to it. *)
Theorem refines_history (C : Type) (ceqb : C -> C -> bool) (cls : pyval -> C) (hashf : pyval -> Z) :
  (forall a b, ceqb a b = true <-> a = b) ->
  forall n ops, 0 < n ->
  (forall k1 k2, In k1 (history_keys ops) -> In k2 (history_keys ops) -> cls k1 = cls k2 ->
                 hashf k1 mod n = hashf k2 mod n) ->
  Forall2 res_agree (snd (fan_run C ceqb cls hashf n ops (fan_empty n))) (snd (dict_run C ceqb cls ops [])) /\
  Permutation (merge (fst (fan_run C ceqb cls hashf n ops (fan_empty n)))) (fst (dict_run C ceqb cls ops [])) /\
  fst (fan_run C ceqb cls hashf n ops (fan_empty n)) = split hashf n (fst (dict_run C ceqb cls ops [])).
Proof.
  intros Hc n ops Hn Hr.
  destruct (fan_refines C ceqb cls Hc hashf (fun k => In k (history_keys ops)) n ops [] Hn Hr) as [outs [E A]].
  - constructor.
  - apply ops_in_history.
  - rewrite split_nil in E. rewrite E. cbn [fst snd]. repeat split; auto. apply split_perm. exact Hn.
Qed.

Example refines_hyps_satisfiable :
  let hashf := fun k : pyval => match k with VInt z => z | _ => 7 end in
  let ops := [FKeyed MSet {| a_key := VInt 5; a_value := VInt 1; a_expire := Some 10; a_tag := None; a_delta := 0;
                            a_idefault := None; a_now := 0 |};
              FKeyed MSet {| a_key := VStr [97]; a_value := VInt 2; a_expire := None; a_tag := None; a_delta := 0;
                            a_idefault := None; a_now := 1 |};
              FKeyed MGet {| a_key := VInt 5; a_value := VInt 0; a_expire := None; a_tag := None; a_delta := 0;
                            a_idefault := None; a_now := 11 |}; FLen; FIter] in
  (forall k1 k2, In k1 (history_keys ops) -> In k2 (history_keys ops) -> k1 = k2 -> hashf k1 mod 3 = hashf k2 mod 3) /\
  snd (fan_run pyval pv_same (fun k => k) hashf 3 ops (fan_empty 3)) =
    [RBool true; RBool true; RDefault; RCount 2; RKeys [VStr [97]; VInt 5]].
Proof. split; [intros; subst; reflexivity|vm_compute; reflexivity]. Qed.

(* aggregate methods cover every shard exactly once *)
Theorem aggregates_cover_each_shard_once :
  (forall st, fan_len st = sumZ (map d_len st)) /\
  (forall vol st, fan_volume vol st = sumZ (map vol st)) /\
  (forall (ss : dict -> Z * Z) st, fan_stats ss st = (sumZ (map (fun s => fst (ss s)) st), sumZ (map (fun s => snd (ss s)) st))) /\
  (forall W (chk : dict -> list W) st, fan_check chk st = concat (map chk st)) /\
  (forall (f : dict -> dict * Z) st,
     fan_remove f st = (map (fun s => fst (f s)) st, sumZ (map (fun s => snd (f s)) st))) /\
  (forall cullf now tg,
     shard_removal cullf agg_clear (env_of_now 0) = d_clear /\
     shard_removal cullf agg_expire (env_of_now now) = d_expire now /\
     shard_removal cullf agg_evict (env_of_tag tg) = d_evict tg /\
     shard_removal cullf agg_cull (env_of_now now) = cullf) /\
  (forall st, fan_iter agg_iter_t st = concat (map d_keys st)) /\
  (forall st, fan_iter agg_reversed_t st = rev (concat (map d_keys st))) /\
  (forall n, fan_transact_order n = seq 0 n).
Proof.
  repeat split.
  - intros ss st. unfold fan_stats. cbn [agg_stats_t st_shards st_hits st_misses range pick]. rewrite !map_map. reflexivity.
  - apply fan_remove_spec.
  - intros st. unfold fan_iter. cbn [agg_reversed_t it_shards it_each range].
    change (each EachBackward) with (fun s : dict => rev (d_keys s)).
    rewrite <- concat_rev_rev, <- map_rev, map_map. reflexivity.
Qed.

(* ---------------- routing ---------------- *)
Lemma bridge_hash_key h k :
  hash_key h k = match k with
                 | SBlob b => Z.land (adler32 b) 4294967295
                 | SText s => Z.land (adler32 (utf8 h s)) 4294967295
                 | SInt z => z mod 4294967295
                 | SReal f => Z.land (adler32 (pack_d h f)) 4294967295
                 | SNull => Z.land (adler32 (pack_d h FNaN)) 4294967295   (* never produced by put: put_never_null *)
                 end.
Proof. destruct k; reflexivity. Qed.

(* the shard is a closed function of the database key Disk.put produced and of the shard count: no state, no salt *)
Theorem routing_pure c c' h k k' n : put c k = put c' k' -> shard c h k n = shard c' h k' n.
Proof. unfold shard. intros ->. reflexivity. Qed.

Lemma shard_closed_form c h k n :
  shard c h k n = match put c k with PutOk dk _ => Some (hash_key h dk mod n) | PutRaise => None end.
Proof. unfold shard, shard_of, hash_of. destruct (put c k); reflexivity. Qed.

Lemma shard_int c h z n : in_int64 z = true -> shard c h (VInt z) n = Some ((z mod 4294967295) mod n).
Proof. intros H. rewrite shard_closed_form, put_spec, H. reflexivity. Qed.

Lemma shard_float c h f n : is_nan (VFloat f) = false ->
  shard c h (VFloat f) n = Some (Z.land (adler32 (pack_d h f)) 4294967295 mod n).
Proof. intros N. rewrite shard_closed_form, put_spec. destruct f; [discriminate N|reflexivity..]. Qed.

(* float('nan') is pickled by Disk.put (repair of C02-F2), so it routes like every pickled key: adler32 of the pickle.
   (The released put bound it as NULL, which Disk.hash packed as the double NaN: another shard in general, but no entry
   stored under NaN could be found by key in any shard.) *)
Lemma shard_nan c h n :
  shard c h (VFloat FNaN) n = Some (Z.land (adler32 (pkk c (VFloat FNaN))) 4294967295 mod n).
Proof. rewrite shard_closed_form, put_spec. reflexivity. Qed.

(* FULL statement (refuted below):
     forall c h k1 k2 n, key_domain k1 = true -> key_domain k2 = true -> key_eq k1 k2 = true -> 0 < n ->
                         shard c h k1 n = shard c h k2 n.
   1 and 1.0 are one key for Cache; 1 hashes to 1 % mask, 1.0 to adler32 of its 8 packed bytes. *)
Theorem routing_respects_eq_refuted :
  exists k1 k2 n,
    key_domain k1 = true /\ key_domain k2 = true /\ key_eq k1 k2 = true /\ 0 < n /\
    forall c h, pack_d h (FFin 1 0) = [63; 240; 0; 0; 0; 0; 0; 0] -> shard c h k1 n <> shard c h k2 n.
Proof.
  exists (VInt 1), (VFloat (FFin 1 0)), 8. repeat split; try reflexivity.
  intros c h Hp. rewrite shard_int by reflexivity. rewrite shard_float by reflexivity. rewrite Hp.
  vm_compute. discriminate.
Qed.

(* the same for the two zeros of binary64 (both are the key 0) and the integer 0 *)
Theorem routing_zeros_refuted :
  exists n, 0 < n /\
    key_eq (VInt 0) (VFloat (FZero false)) = true /\ key_eq (VFloat (FZero false)) (VFloat (FZero true)) = true /\
    forall c h, pack_d h (FZero false) = [0; 0; 0; 0; 0; 0; 0; 0] -> pack_d h (FZero true) = [128; 0; 0; 0; 0; 0; 0; 0] ->
      shard c h (VInt 0) n <> shard c h (VFloat (FZero false)) n /\
      shard c h (VFloat (FZero false)) n <> shard c h (VFloat (FZero true)) n.
Proof.
  exists 13. repeat split; try reflexivity;
    rewrite ?shard_int by reflexivity; rewrite !shard_float by reflexivity; rewrite ?H, ?H0; vm_compute; discriminate.
Qed.

(* the excluded region: an int with a float, or two floats that are not the same float (0.0 / -0.0) *)
Definition route_excluded (k1 k2 : pyval) : bool :=
  match k1, k2 with
  | VInt _, VFloat _ | VFloat _, VInt _ => true
  | VFloat f, VFloat g => negb (fl_eqb f g)
  | _, _ => false
  end.

Lemma key_eq_same k1 k2 : key_eq k1 k2 = true -> route_excluded k1 k2 = false -> k1 = k2.
Proof.
  unfold key_eq.
  destruct k1 as [z1|f1|s1|b1|i1|b1], k2 as [z2|f2|s2|b2|i2|b2]; cbn [key_num route_excluded];
    try discriminate; try (intros H _; apply pv_same_spec; exact H);
    try (destruct (in_int64 z1); discriminate); try (destruct (in_int64 z2); discriminate);
    try (destruct f1 as [|[]|[]|]; discriminate); try (destruct f2 as [|[]|[]|]; discriminate).
  - destruct (in_int64 z1), (in_int64 z2); try discriminate.
    + cbn. unfold dy_cmp, pow2. cbn. intros H _. destruct (z1 * 1 ?= z2 * 1) eqn:E; try discriminate.
      apply Z.compare_eq in E. f_equal. lia.
    + intros H _. apply pv_same_spec. exact H.
  - intros _ H. apply negb_false_iff in H. apply (pv_same_spec (VFloat f1) (VFloat f2)). exact H.
Qed.

Theorem routing_respects_eq_partial c h k1 k2 n :
  key_eq k1 k2 = true -> route_excluded k1 k2 = false -> shard c h k1 n = shard c h k2 n.
Proof. intros H X. rewrite (key_eq_same k1 k2 H X). reflexivity. Qed.

Example routing_partial_hyps_satisfiable :
  key_eq (VStr [97]) (VStr [97]) = true /\ route_excluded (VStr [97]) (VStr [97]) = false /\
  key_eq (VFloat (FFin 3 (-1))) (VFloat (FFin 3 (-1))) = true /\
  route_excluded (VFloat (FFin 3 (-1))) (VFloat (FFin 3 (-1))) = false /\
  key_eq (VInt 1) (VFloat (FFin 1 0)) = true /\ route_excluded (VInt 1) (VFloat (FFin 1 0)) = true.
Proof. repeat split; reflexivity. Qed.

(* the sharded cache over Python keys: any key identity at least as fine as the documented equality, histories
   without an excluded pair *)
Definition hash_or0 (c : codec) (h : hcodec) (k : pyval) : Z := match hash c h k with Some x => x | None => 0 end.

Theorem refines_history_pyval (C : Type) (ceqb : C -> C -> bool) (cls : pyval -> C) (c : codec) (h : hcodec) :
  (forall a b, ceqb a b = true <-> a = b) ->
  forall n ops, 0 < n ->
  (forall k1 k2, In k1 (history_keys ops) -> In k2 (history_keys ops) -> cls k1 = cls k2 ->
                 key_eq k1 k2 = true /\ route_excluded k1 k2 = false) ->
  Forall2 res_agree (snd (fan_run C ceqb cls (hash_or0 c h) n ops (fan_empty n))) (snd (dict_run C ceqb cls ops [])) /\
  Permutation (merge (fst (fan_run C ceqb cls (hash_or0 c h) n ops (fan_empty n)))) (fst (dict_run C ceqb cls ops [])).
Proof.
  intros Hc n ops Hn Hk.
  destruct (refines_history C ceqb cls (hash_or0 c h) Hc n ops Hn) as (A & B & _); [|split; assumption].
  intros k1 k2 H1 H2 E. destruct (Hk k1 k2 H1 H2 E) as [Q X]. rewrite (key_eq_same k1 k2 Q X). reflexivity.
Qed.

Example refines_pyval_hyps_satisfiable :
  let ops := [FKeyed MSet {| a_key := VInt 5; a_value := VInt 1; a_expire := None; a_tag := None; a_delta := 0;
                            a_idefault := None; a_now := 0 |};
              FKeyed MGet {| a_key := VStr [97]; a_value := VInt 0; a_expire := None; a_tag := None; a_delta := 0;
                            a_idefault := None; a_now := 1 |}] in
  forall k1 k2, In k1 (history_keys ops) -> In k2 (history_keys ops) -> k1 = k2 ->
                key_eq k1 k2 = true /\ route_excluded k1 k2 = false.
Proof. cbn. intros k1 k2 [<-|[<-|[]]] _ <-; split; reflexivity. Qed.

(* ---------------- size limit ---------------- *)
Local Open Scope Q_scope.

Lemma inject_Z_nonzero n : (0 < n)%Z -> ~ inject_Z n == 0.
Proof. intros H E. unfold Qeq in E. cbn in E. lia. Qed.

(* every shard gets the same limit, and the n limits add up to the total (the given size_limit or the default) *)
Theorem limit_divided given n :
  (0 < n)%Z ->
  inject_Z n * shard_limit given n == inject_Z (match given with Some l => l | None => default_size_limit end).
Proof.
  intros Hn. unfold shard_limit. rewrite bridge_shard_size_limit. field. apply inject_Z_nonzero. exact Hn.
Qed.

(* when the total is a multiple of the shard count the quotient is that integer *)
Theorem limit_exact l n : (0 < n)%Z -> (n | l)%Z -> shard_size_limit l n == inject_Z (l / n).
Proof.
  intros Hn [q ->]. rewrite bridge_shard_size_limit, Z.div_mul by lia. rewrite inject_Z_mult. field.
  apply inject_Z_nonzero. exact Hn.
Qed.

(* when a shard is handed its share: always when size_limit is given, and when the shard is new; a shard that exists and is
   opened without size_limit is handed nothing (it keeps the share stored when it was created or last given one: C18) *)
Theorem limit_handed given ex n :
  shard_limit_handed given ex n =
  match given, ex with
  | None, true => None
  | _, _ => Some (shard_limit given n)
  end.
Proof. unfold shard_limit_handed. rewrite bridge_shard_limit_passed. destruct given, ex; reflexivity. Qed.

Example limit_default_8 : shard_limit None 8 == inject_Z 134217728 /\ (8 | default_size_limit)%Z.
Proof. split; [vm_compute; reflexivity|exists 134217728%Z; reflexivity]. Qed.
