(* The state invariant of the row-level model (model/Cache.v) and its preservation by every API call.

     Sinv s = rowids strictly ascending and positive, (key, raw) unique under the comparison the lookups use,
              no REAL-NaN key and no NULL key, every referenced file present with the recorded size, files referenced at
              most once, all ids below the fresh-name supply, counters exact, and NO ORPHAN file.

   Structure: bridge lemmas for the generated statements; facts about refs / the file store; the invariant
   split into Winv (everything but orphans) and an orphan clause relative to a set P of files that are
   pending cleanup (Pinv s P); one lemma per table primitive under Pinv; one lemma per operation;
   histories; `files_agree` (the file clause of C08). *)
From Coq Require Import ZArith List Bool Lia Sorted Permutation.
From DC Require Import DCPrelude DCPreludeFacts Val DiskBase SqlBase Gen_Disk Disk Gen_Sql Cache Refs
  TableFacts TableRows SqlBridge ExpiryFacts DiskFacts SortFacts SqlOrderFacts.

(* ================================================================== bridge lemmas *)
Lemma truthy_some b : truthy (Some b) = b.
Proof. destruct b; reflexivity. Qed.

Lemma bridge_row_update_where a b c d e f g h i rid r : row_update_where a b c d e f g h i rid r = (rowid r =? rid).
Proof. unfold row_update_where, tvz_eq. apply truthy_some. Qed.
Lemma bridge_row_update_file a b c d e sz m fid v rid r :
  rfile (row_update_set a b c d e sz m fid v rid r) = fid /\ rsize (row_update_set a b c d e sz m fid v rid r) = sz.
Proof. split; reflexivity. Qed.
Lemma bridge_touch_update_where e rid r : touch_update_where e rid r = (rowid r =? rid).
Proof. unfold touch_update_where, tvz_eq. apply truthy_some. Qed.

(* UPDATEs that leave the file columns alone *)
Definition keeps_file (f : row -> row) : Prop := forall r, rfile (f r) = rfile r /\ rsize (f r) = rsize r.
Lemma bridge_touch_update_keeps_file a b : keeps_file (touch_update_set a b).
Proof. intros r. split; reflexivity. Qed.
Lemma bridge_incr_update_keeps_file p now v rid : keeps_file (incr_update p now v rid).
Proof.
  intros r. unfold incr_update. destruct p;
    repeat match goal with |- context[if ?b then _ else _] => destruct b end; split; reflexivity.
Qed.
Lemma bridge_policy_get_update_keeps_file p now rid : keeps_file (policy_get_update p now rid).
Proof.
  intros r. unfold policy_get_update. destruct p;
    repeat match goal with |- context[if ?b then _ else _] => destruct b end; split; reflexivity.
Qed.

Lemma bridge_columns_insert dbk raw now e tag sd fid n :
  let r := columns_insert dbk raw now e tag sd fid n in
  rowid r = n /\ rkey r = dbk /\ rraw r = raw /\ rfile r = fid /\ rsize r = s_size sd /\
  expire_time r = e /\ rtag r = tag /\ rmode r = s_mode sd /\ rvalue r = s_col sd.
Proof. repeat split. Qed.

Lemma bridge_columns_update_row rid now e tag sd fid r :
  let r' := row_update_set now e now 0 tag (s_size sd) (s_mode sd) fid (s_col sd) rid r in
  rowid r' = rowid r /\ rkey r' = rkey r /\ rraw r' = rraw r /\ rfile r' = fid /\ rsize r' = s_size sd /\
  expire_time r' = e /\ rtag r' = tag /\ rmode r' = s_mode sd /\ rvalue r' = s_col sd.
Proof. repeat split. Qed.

(* the DELETEs of _cull / cull() remove exactly the rows their SELECT returned *)
Lemma bridge_cull_expired_delete now lim t r :
  cull_expired_delete now lim t r = mem_rowid (rowid r) (cull_expired_select now lim t).
Proof. unfold cull_expired_delete, cull_expired_select. apply truthy_some. Qed.
Lemma bridge_policy_cull_delete p lim t r :
  policy_cull_delete p lim t r = mem_rowid (rowid r) (policy_cull_select p lim t).
Proof.
  destruct p; try reflexivity;
    unfold policy_cull_delete, policy_cull_select, policy_cull_delete_PLRS, policy_cull_delete_PLRU, policy_cull_delete_PLFU,
           policy_cull_select_PLRS, policy_cull_select_PLRU, policy_cull_select_PLFU; apply truthy_some.
Qed.
Lemma bridge_policy_cullall_delete p t r :
  policy_cullall_delete p cull_page_delete t r = mem_rowid (rowid r) (policy_cull_select p cull_page t).
Proof.
  change cull_page_delete with cull_page.
  destruct p; try reflexivity;
    unfold policy_cullall_delete, policy_cull_select, policy_cullall_delete_PLRS, policy_cullall_delete_PLRU,
           policy_cullall_delete_PLFU, policy_cull_select_PLRS, policy_cull_select_PLRU, policy_cull_select_PLFU;
    apply truthy_some.
Qed.
Lemma bridge_select_delete_delete pg t r :
  select_delete_delete (map rowid pg) t r = mem_rowid (rowid r) pg.
Proof.
  unfold select_delete_delete. rewrite truthy_some. unfold mem_rowid.
  induction pg as [|x pg IH]; cbn; [reflexivity|]. rewrite IH, (Z.eqb_sym (rowid r)). reflexivity.
Qed.
Lemma bridge_peekitem_select_in (l : bool) t r :
  In r (if l then peekitem_select_last t else peekitem_select_first t) -> In r t.
Proof.
  unfold peekitem_select_last, peekitem_select_first. destruct l; intros I;
    apply sql_limit_in, ExpiryFacts.sql_order_in in I; exact I.
Qed.
Lemma bridge_cull_disabled_0 : cull_disabled 0 = true.
Proof. reflexivity. Qed.
Lemma mem_rowid_one i r0 : mem_rowid i [r0] = (i =? rowid r0).
Proof. unfold mem_rowid. cbn. rewrite orb_false_r. apply Z.eqb_sym. Qed.

(* every SELECT that feeds a DELETE has the shape LIMIT (ORDER BY (WHERE)) *)
Lemma NoDup_take' {A} n : forall (l : list A), NoDup l -> NoDup (take n l).
Proof.
  induction n as [|n IH]; intros [|a l] H; cbn; try constructor.
  - inversion H; subst. intros I. apply take_in in I. tauto.
  - inversion H; subst. auto.
Qed.
Lemma sel_shape n d ks (u : list row) :
  NoDup u -> NoDup (sql_limit n (sql_order d ks u)) /\ incl (sql_limit n (sql_order d ks u)) u.
Proof.
  intros N. split.
  - unfold sql_limit. assert (No : NoDup (sql_order d ks u)).
    { unfold sql_order. destruct d; [apply NoDup_rev|];
        (eapply Permutation_NoDup; [apply Permutation_sym, sort_stable_perm|exact N]). }
    destruct (n <? 0); [exact No|apply NoDup_take', No].
  - intros x I. eapply ExpiryFacts.sql_order_in, sql_limit_in, I.
Qed.
Lemma sel_shape_filter n d ks p (t : list row) :
  NoDup t -> NoDup (sql_limit n (sql_order d ks (filter p t))) /\ incl (sql_limit n (sql_order d ks (filter p t))) t.
Proof.
  intros N. destruct (sel_shape n d ks (filter p t) (NoDup_filter p N)) as [A B]. split; [exact A|].
  intros x I. apply B in I. apply filter_In in I. apply I.
Qed.

Definition sel_of (t sel : list row) : Prop := NoDup sel /\ incl sel t.

Lemma bridge_cull_expired_sel now lim t : NoDup t -> sel_of t (cull_expired_select now lim t).
Proof. intros N. apply sel_shape_filter, N. Qed.
Lemma bridge_policy_cull_sel p lim t : NoDup t -> sel_of t (policy_cull_select p lim t).
Proof.
  intros N. destruct p; try (apply sel_shape, N). split; [constructor|intros x []].
Qed.
Lemma bridge_evict_sel tag b n t : NoDup t -> sel_of t (evict_select tag b n t).
Proof. intros N. apply sel_shape_filter, N. Qed.
Lemma bridge_expire_sel b now n t : NoDup t -> sel_of t (expire_select b now n t).
Proof. intros N. apply sel_shape_filter, N. Qed.
Lemma bridge_clear_sel b n t : NoDup t -> sel_of t (clear_select b n t).
Proof. intros N. apply sel_shape_filter, N. Qed.

(* ================================================================== refs *)
Lemma in_ofile o g : In g (ofile o) <-> o = Some g.
Proof. destruct o; cbn; [split; [intros [->|[]]; reflexivity|intros E; inversion E; auto]|split; [intros []|discriminate]]. Qed.
Lemma in_somes l g : In g (somes l) <-> In (Some g) l.
Proof.
  unfold somes. rewrite in_flat_map. split.
  - intros [o [I E]]. apply in_ofile in E. subst. exact I.
  - intros I. exists (Some g). split; [exact I|left; reflexivity].
Qed.
Lemma somes_app a b : somes (a ++ b) = somes a ++ somes b.
Proof. apply flat_map_app. Qed.
Lemma somes_cons o l : somes (o :: l) = ofile o ++ somes l.
Proof. reflexivity. Qed.
Lemma in_frefs t g : In g (frefs t) <-> exists r, In r t /\ rfile r = Some g.
Proof.
  unfold frefs. rewrite in_somes, in_map_iff. split; intros [r [A B]]; exists r; auto.
Qed.
Lemma frefs_app a b : frefs (a ++ b) = frefs a ++ frefs b.
Proof. unfold frefs. rewrite map_app. apply somes_app. Qed.
Lemma frefs_cons r t : frefs (r :: t) = ofile (rfile r) ++ frefs t.
Proof. reflexivity. Qed.
Lemma somes_perm a b : Permutation a b -> Permutation (somes a) (somes b).
Proof. apply Permutation_flat_map. Qed.
Lemma frefs_perm a b : Permutation a b -> Permutation (frefs a) (frefs b).
Proof. intros H. apply somes_perm, Permutation_map, H. Qed.
Lemma frefs_map_keep g t : (forall r, In r t -> rfile (g r) = rfile r) -> frefs (map g t) = frefs t.
Proof.
  intros H. unfold frefs. rewrite map_map. f_equal. apply map_ext_in. exact H.
Qed.
Lemma frefs_filter_perm wh t :
  Permutation (frefs t) (frefs (filter (fun r => negb (wh r)) t) ++ frefs (filter wh t)).
Proof.
  induction t as [|r t IH]; [constructor|]. cbn [filter]. rewrite frefs_cons.
  destruct (wh r); cbn [negb].
  - rewrite frefs_cons. rewrite IH. rewrite !app_assoc. apply Permutation_app_tail, Permutation_app_comm.
  - rewrite frefs_cons, <- app_assoc. apply Permutation_app_head, IH.
Qed.

(* what NoDup of the references gives: a file belongs to one row *)
Lemma frefs_owner t r r' g : NoDup (frefs t) -> In r t -> In r' t -> rfile r = Some g -> rfile r' = Some g -> r = r'.
Proof.
  induction t as [|a t IH]; intros N I I' E E'; [destruct I|]. rewrite frefs_cons in N.
  assert (Nt : NoDup (frefs t)) by (eapply NoDup_app_r; eauto).
  destruct I as [->|I], I' as [->|I']; auto.
  - exfalso. eapply (NoDup_app_disj (ofile (rfile r)) (frefs t) g N); [apply in_ofile, E|apply in_frefs; eauto].
  - exfalso. eapply (NoDup_app_disj (ofile (rfile r')) (frefs t) g N); [apply in_ofile, E'|apply in_frefs; eauto].
Qed.

Lemma NoDup_app_l {A} (a b : list A) : NoDup (a ++ b) -> NoDup a.
Proof. intros N. eapply NoDup_app_r. eapply Permutation_NoDup; [apply Permutation_app_comm|exact N]. Qed.

Lemma perm_split_disj {A} (l a b : list A) x : NoDup l -> Permutation l (a ++ b) -> In x b -> ~ In x a.
Proof.
  intros N P Ib Ia. eapply Permutation_NoDup in N; [|exact P]. eapply NoDup_app_disj; eauto.
Qed.

(* a table whose rowids are distinct splits around any of its rows *)
Lemma rows_split (t : list row) r0 : NoDup (map rowid t) -> In r0 t ->
  exists a b, t = a ++ r0 :: b /\ (forall x, In x a -> rowid x <> rowid r0) /\ (forall x, In x b -> rowid x <> rowid r0).
Proof.
  intros N I. apply in_split in I as [a [b ->]]. exists a, b. split; [reflexivity|].
  rewrite map_app in N. cbn in N. split; intros x Ix E.
  - apply NoDup_remove_2 in N. apply N. apply in_or_app. left. rewrite <- E. apply in_map, Ix.
  - apply NoDup_remove_2 in N. apply N. apply in_or_app. right. rewrite <- E. apply in_map, Ix.
Qed.

Lemma map_update_split (f : row -> row) a r0 b :
  (forall x, In x a -> rowid x <> rowid r0) -> (forall x, In x b -> rowid x <> rowid r0) ->
  map (fun r => if rowid r =? rowid r0 then f r else r) (a ++ r0 :: b) = a ++ f r0 :: b.
Proof.
  intros Ha Hb. rewrite map_app. cbn [map]. rewrite Z.eqb_refl. f_equal; [|f_equal].
  - rewrite <- (map_id a) at 2. apply map_ext_in. intros x Ix. apply Ha in Ix. apply Z.eqb_neq in Ix. rewrite Ix. reflexivity.
  - rewrite <- (map_id b) at 2. apply map_ext_in. intros x Ix. apply Hb in Ix. apply Z.eqb_neq in Ix. rewrite Ix. reflexivity.
Qed.

(* ================================================================== the file store *)
Lemma fs_get_in f id c : fs_get f id = Some c -> In id (map fst f).
Proof.
  induction f as [|[i x] f IH]; cbn; [discriminate|]. destruct (Z.eqb_spec i id); [left; auto|right; auto].
Qed.
Lemma fs_get_some f id : In id (map fst f) -> exists c, fs_get f id = Some c.
Proof.
  induction f as [|[i x] f IH]; cbn; [intros []|]. destruct (Z.eqb_spec i id); [eauto|].
  intros [E|I]; [contradiction|auto].
Qed.
Lemma fs_get_none f id : ~ In id (map fst f) -> fs_get f id = None.
Proof. intros H. destruct (fs_get f id) eqn:E; [|reflexivity]. apply fs_get_in in E. contradiction. Qed.
Lemma fs_get_app f n c id :
  fs_get (f ++ [(n, c)]) id = match fs_get f id with Some x => Some x | None => if n =? id then Some c else None end.
Proof. induction f as [|[i x] f IH]; cbn; [reflexivity|]. destruct (i =? id); auto. Qed.
Lemma fs_get_filter f g id :
  fs_get (filter (fun p => negb (fst p =? g)) f) id = if id =? g then None else fs_get f id.
Proof.
  induction f as [|[i x] f IH]; cbn [filter fs_get fst]; [destruct (id =? g); reflexivity|].
  destruct (Z.eqb_spec i g) as [->|N]; cbn [negb].
  - rewrite IH. destruct (Z.eqb_spec id g) as [E|N']; [reflexivity|].
    destruct (Z.eqb_spec g id); [congruence|reflexivity].
  - cbn [fs_get]. rewrite IH. destruct (Z.eqb_spec i id) as [E|N']; [|reflexivity].
    destruct (Z.eqb_spec id g); [congruence|reflexivity].
Qed.

Lemma fs_remove_cons s o l : fs_remove s (o :: l) = fs_remove (fs_remove1 s o) l.
Proof. reflexivity. Qed.
Lemma fs_remove_app s a b : fs_remove s (a ++ b) = fs_remove (fs_remove s a) b.
Proof. unfold fs_remove. apply fold_left_app. Qed.

Lemma fs_remove_fields l : forall s,
  rows (fs_remove s l) = rows s /\ next_file (fs_remove s l) = next_file s /\ n_count (fs_remove s l) = n_count s /\
  n_size (fs_remove s l) = n_size s /\ n_hits (fs_remove s l) = n_hits s /\ n_misses (fs_remove s l) = n_misses s /\
  statistics (fs_remove s l) = statistics s.
Proof.
  induction l as [|o l IH]; intros s; [repeat split|]. rewrite fs_remove_cons.
  destruct (IH (fs_remove1 s o)) as [A [B [C [D [E [F G]]]]]]. rewrite A, B, C, D, E, F, G. destruct o; repeat split.
Qed.

Lemma in_fs_remove l : forall s id,
  In id (map fst (fs (fs_remove s l))) <-> In id (map fst (fs s)) /\ ~ In (Some id) l.
Proof.
  induction l as [|o l IH]; intros s id; [cbn; tauto|]. rewrite fs_remove_cons, IH. destruct o as [g|]; cbn [fs_remove1 set_fs fs].
  - rewrite !in_map_iff. split.
    + intros [[[i x] [E I]] N]. cbn in E. subst i. apply filter_In in I as [I T]. cbn in T.
      apply negb_true_iff, Z.eqb_neq in T. split; [exists (id, x); auto|]. intros [E|I']; [inversion E; congruence|contradiction].
    + intros [[[i x] [E I]] N]. cbn in E. subst i. split; [|intros I'; apply N; right; exact I'].
      exists (id, x). split; [reflexivity|]. apply filter_In. split; [exact I|]. cbn.
      apply negb_true_iff, Z.eqb_neq. intros ->. apply N. left. reflexivity.
  - split; [intros [A B]; split; [exact A|intros [E|I]; [discriminate|contradiction]]|].
    intros [A B]. split; [exact A|]. intros I. apply B. right. exact I.
Qed.

Lemma fs_get_fs_remove l : forall s id, ~ In (Some id) l -> fs_get (fs (fs_remove s l)) id = fs_get (fs s) id.
Proof.
  induction l as [|o l IH]; intros s id N; [reflexivity|]. rewrite fs_remove_cons, IH by (intros I; apply N; right; exact I).
  destruct o as [g|]; [|reflexivity]. cbn [fs_remove1 set_fs fs]. rewrite fs_get_filter.
  destruct (Z.eqb_spec id g) as [->|]; [exfalso; apply N; left; reflexivity|reflexivity].
Qed.

Lemma nodup_fs_remove l : forall s, NoDup (map fst (fs s)) -> NoDup (map fst (fs (fs_remove s l))).
Proof.
  induction l as [|o l IH]; intros s N; [exact N|]. rewrite fs_remove_cons. apply IH.
  destruct o as [g|]; [|exact N]. cbn [fs_remove1 set_fs fs]. apply NoDup_map_filter, N.
Qed.

Lemma fs_remove_nil_none s l : (forall o, In o l -> o = None) -> fs_remove s l = s.
Proof.
  revert s. induction l as [|o l IH]; intros s H; [reflexivity|]. rewrite fs_remove_cons.
  rewrite (H o (or_introl eq_refl)). cbn [fs_remove1]. apply IH. intros o' I. apply H. right. exact I.
Qed.

(* ================================================================== keys *)
Lemma tv_cmp_truthy f a b :
  truthy (tv_cmp f a b) = match a, b with SNull, _ => false | _, SNull => false | _, _ => f (sql_cmp a b) end.
Proof. unfold tv_cmp. destruct a, b; try reflexivity; apply truthy_some. Qed.

Lemma key_match_spec k z r :
  key_match k z r = true <-> rkey r <> SNull /\ k <> SNull /\ sql_cmp (rkey r) k = Eq /\ b2z (rraw r) = z.
Proof.
  unfold key_match. rewrite truthy_and, andb_true_iff. unfold sql_eq. rewrite tv_cmp_truthy.
  unfold tvz_eq. rewrite truthy_some, Z.eqb_eq.
  assert (CE : forall c, c_eq c = true <-> c = Eq) by (intros []; cbn; split; congruence).
  destruct (rkey r) eqn:K; destruct k eqn:K'; rewrite ?CE;
    first [ solve [split; [intros [A _]; discriminate | intros [A [B _]]; congruence]]
          | solve [split; [intros [A B]; repeat split; auto; discriminate | intros [_ [_ [A B]]]; auto]] ].
Qed.

(* a NULL database key (what the released Disk.put made of float('nan'): FormatFacts.released_put_nan_null) addresses no
   row, not even one that holds NULL *)
Lemma null_key_matches_nothing z r : key_match SNull z r = false.
Proof.
  destruct (key_match SNull z r) eqn:M; [|reflexivity]. apply key_match_spec in M as [_ [N _]]. congruence.
Qed.

Lemma b2z_inj a b : b2z a = b2z b -> a = b.
Proof. destruct a, b; cbn; congruence. Qed.

(* key_match only looks at the key and raw columns of the row *)
Lemma key_match_cols k z r r' : rkey r = rkey r' -> rraw r = rraw r' -> key_match k z r = key_match k z r'.
Proof. unfold key_match. intros -> ->. reflexivity. Qed.

Lemma key_match_sym r r' :
  key_match (rkey r) (b2z (rraw r)) r' = true -> key_match (rkey r') (b2z (rraw r')) r = true.
Proof.
  rewrite !key_match_spec. intros [A [B [C D]]]. repeat split; auto. apply sql_cmp_eq_sym, C.
Qed.

(* two rows addressed by one key address each other *)
Lemma key_match_trans k z r r' : sv_wf k = true ->
  key_match k z r = true -> key_match k z r' = true -> key_match (rkey r) (b2z (rraw r)) r' = true.
Proof.
  rewrite !key_match_spec. intros W [A [B [C D]]] [A' [B' [C' D']]]. repeat split; auto; [|congruence].
  eapply sql_cmp_eq_trans; [exact W|exact C'|apply sql_cmp_eq_sym, C].
Qed.

(* a row addressed by two keys: the keys are the same database key *)
Lemma key_match_same_key k z k' z' r : sv_wf (rkey r) = true ->
  key_match k z r = true -> key_match k' z' r = true -> sql_cmp k k' = Eq /\ z = z'.
Proof.
  rewrite !key_match_spec. intros W [A [B [C D]]] [A' [B' [C' D']]]. split; [|congruence].
  eapply sql_cmp_eq_trans; [exact W|apply sql_cmp_eq_sym, C|exact C'].
Qed.

Definition keys_unique (t : list row) : Prop :=
  forall r r', In r t -> In r' t -> key_match (rkey r) (b2z (rraw r)) r' = true -> r = r'.

Lemma put_wf c k dbk raw : put c k = PutOk dbk raw -> sv_wf dbk = true.
Proof.
  rewrite put_spec. destruct k as [z|f|s|b|i|b].
  - destruct (in_int64 z); intros E; inversion E; reflexivity.
  - destruct f; intros E; inversion E; reflexivity.
  - destruct (encodable s); intros E; inversion E; reflexivity.
  - intros E; inversion E; reflexivity.
  - intros E; inversion E; reflexivity.
  - intros E; inversion E; reflexivity.
Qed.

(* ... and never NULL (since the repair of C02-F2 a float NaN key is pickled): DiskFacts.put_never_null *)
Definition key_nonnull (v : sqlval) : bool := match v with SNull => false | _ => true end.

Lemma key_nonnull_spec v : key_nonnull v = true <-> v <> SNull.
Proof. destruct v; cbn; split; congruence. Qed.

Lemma put_key_nonnull c k dbk raw : put c k = PutOk dbk raw -> key_nonnull dbk = true.
Proof. intros P. apply key_nonnull_spec. exact (proj1 (put_never_null c k dbk raw P)). Qed.

(* at most one row answers a lookup *)
Lemma lookup_unique t k z r r' : keys_unique t -> sv_wf k = true ->
  In r t -> In r' t -> key_match k z r = true -> key_match k z r' = true -> r = r'.
Proof. intros U W I I' M M'. apply U; auto. eapply key_match_trans; eauto. Qed.

(* ================================================================== sizes recorded by store *)
Lemma store_size_ok c m v rd sd :
  store c m v rd = StOk sd -> s_size sd = match s_file sd with Some f => fsize f | None => 0 end.
Proof.
  unfold store. rewrite bridge_store_plan.
  assert (PP : forall w sd, run_plan w (pickle_plan m (pkv c) w) = StOk sd ->
                            s_size sd = match s_file sd with Some f => fsize f | None => 0 end).
  { intros w sd0. unfold pickle_plan. cbv zeta. destruct (_ <? m); cbn; intros E; inversion E; reflexivity. }
  assert (SP : forall w b sd, run_plan w (PlanStreamFile MODE_BINARY SzWritten OM_xb b) = StOk sd ->
                              s_size sd = match s_file sd with Some f => fsize f | None => 0 end).
  { intros w b sd0. cbn. intros E; inversion E; reflexivity. }
  destruct v as [z|f|s|b|i|b]; cbn [store_plan_spec].
  - destruct (in_int64 z) eqn:R.
    + cbn [run_plan bind]. rewrite R. intros E; inversion E; reflexivity.
    + destruct rd; [apply SP|apply PP].
  - destruct (is_nan (VFloat f)).
    + destruct rd; [apply SP|apply PP].
    + cbn [run_plan]. destruct (bind (VFloat f)); try discriminate. intros E; inversion E; reflexivity.
  - destruct (pv_len (VStr s) <? m).
    + cbn [run_plan]. destruct (bind (VStr s)); try discriminate. intros E; inversion E; reflexivity.
    + cbn [run_plan om_binary negb andb]. destruct (encodable s); [|discriminate]. cbn [andb].
      intros E; inversion E; reflexivity.
  - destruct (pv_len (VBytes b) <? m); cbn; intros E; inversion E; reflexivity.
  - destruct rd; [apply SP|apply PP].
  - destruct rd; [apply SP|apply PP].
Qed.

(* ================================================================== the invariant *)
Definition file_ok (f : list (Z * fcontent)) (r : row) : Prop :=
  match rfile r with
  | Some id => exists c, fs_get f id = Some c /\ fsize c = rsize r
  | None => rsize r = 0
  end.

(* everything but the orphan clause *)
Record Winv (s : st) : Prop := {
  w_rowids : rowids_ok s;
  w_pos : forall r, In r (rows s) -> 0 < rowid r;
  w_keys : keys_unique (rows s);
  w_wf : forall r, In r (rows s) -> sv_wf (rkey r) = true;
  w_nonnull : forall r, In r (rows s) -> key_nonnull (rkey r) = true;
  w_refs_nd : NoDup (refs s);
  w_fs_nd : NoDup (map fst (fs s));
  w_lt : forall id, In id (refs s) \/ In id (map fst (fs s)) -> id < next_file s;
  w_file : forall r, In r (rows s) -> file_ok (fs s) r;
  w_counters : counters_ok s
}.

Definition no_orphan (s : st) : Prop := forall id, In id (map fst (fs s)) -> In id (refs s).
Definition Sinv (s : st) : Prop := Winv s /\ no_orphan s.

(* files are referenced or pending (P) *)
Definition orph (s : st) (P : Z -> Prop) : Prop := forall id, In id (map fst (fs s)) -> In id (refs s) \/ P id.
Definition Pinv (s : st) (P : Z -> Prop) : Prop := Winv s /\ orph s P.

Lemma sinv_pinv s : Sinv s <-> Pinv s (fun _ => False).
Proof. unfold Sinv, Pinv, no_orphan, orph. split; intros [W O]; split; auto; intros id I; specialize (O id I); tauto. Qed.
Lemma pinv_weaken s (P Q : Z -> Prop) : (forall id, P id -> Q id) -> Pinv s P -> Pinv s Q.
Proof. intros H [W O]. split; [exact W|]. intros id I. destruct (O id I); auto. Qed.
Lemma pinv_winv s P : Pinv s P -> Winv s.
Proof. intros [W _]. exact W. Qed.
Lemma winv_pinv s : Winv s -> Pinv s (fun _ => True).
Proof. intros W. split; [exact W|]. intros id _. right. exact I. Qed.

(* the invariant spelled out *)
Lemma sinv_spec s : Sinv s ->
  rowids_ok s /\ (forall r, In r (rows s) -> 0 < rowid r) /\
  (forall r r', In r (rows s) -> In r' (rows s) -> key_match (rkey r) (b2z (rraw r)) r' = true -> r = r') /\
  (forall r, In r (rows s) -> sv_wf (rkey r) = true) /\
  (forall r, In r (rows s) -> rkey r <> SNull) /\
  NoDup (refs s) /\ NoDup (map fst (fs s)) /\
  (forall id, In id (refs s) \/ In id (map fst (fs s)) -> id < next_file s) /\
  (forall r id, In r (rows s) -> rfile r = Some id -> exists c, fs_get (fs s) id = Some c /\ fsize c = rsize r) /\
  (forall r, In r (rows s) -> rfile r = None -> rsize r = 0) /\
  (forall id, In id (map fst (fs s)) -> In id (refs s)) /\
  counters_ok s.
Proof.
  intros [W O]. repeat split; try apply W; try exact O.
  - intros r I. apply key_nonnull_spec, (w_nonnull s W), I.
  - intros r id I E. pose proof (w_file s W r I) as F. unfold file_ok in F. rewrite E in F. exact F.
  - intros r I E. pose proof (w_file s W r I) as F. unfold file_ok in F. rewrite E in F. exact F.
Qed.

Lemma sinv_init : Sinv init_st.
Proof.
  split; [split|].
  - constructor.
  - intros r [].
  - intros r r' [].
  - intros r [].
  - intros r [].
  - constructor.
  - constructor.
  - intros id [[]|[]].
  - intros r [].
  - split; reflexivity.
  - intros id [].
Qed.

Lemma rows_nodup s : rowids_ok s -> NoDup (rows s).
Proof. intros S. apply sorted_nodup in S. eapply NoDup_map_inv, S. Qed.
Lemma rowids_nodup s : rowids_ok s -> NoDup (map rowid (rows s)).
Proof. apply sorted_nodup. Qed.

Lemma refs_in_fs s g : Winv s -> In g (refs s) -> exists c, fs_get (fs s) g = Some c.
Proof.
  intros W I. apply in_frefs in I as [r [I E]]. pose proof (w_file s W r I) as F. unfold file_ok in F. rewrite E in F.
  destruct F as [c [F _]]. eauto.
Qed.

(* ---- statistics ---- *)
Lemma pinv_stats s P h m b : Pinv s P -> Pinv (set_stats s h m b) P.
Proof. intros [[] O]. split; [split|]; auto. Qed.
Lemma pinv_bump s P b : Pinv s P -> Pinv (bump s b) P.
Proof. unfold bump. destruct (statistics s), b; auto; apply pinv_stats. Qed.

(* ---- writing a value file ---- *)
(* what INSERT / UPDATE need to know about the file they are about to reference *)
Definition fid_ok (s : st) (fid : option Z) (sz : Z) : Prop :=
  match fid with
  | Some g => ~ In g (refs s) /\ exists c, fs_get (fs s) g = Some c /\ fsize c = sz
  | None => sz = 0
  end.

Lemma pinv_fs_write s P oc s1 fid :
  fs_write s oc = (s1, fid) -> Pinv s P ->
  Pinv s1 (fun id => P id \/ Some id = fid) /\ rows s1 = rows s /\
  fid_ok s1 fid (match oc with Some f => fsize f | None => 0 end) /\
  fs_lookup s1 fid = oc /\ (forall g, In g (map fst (fs s)) -> fs_get (fs s1) g = fs_get (fs s) g) /\
  fid = match oc with Some _ => Some (next_file s) | None => None end.
Proof.
  intros E [W O]. destruct oc as [content|]; cbn in E; inversion E; subst; clear E.
  - assert (Fresh : ~ In (next_file s) (map fst (fs s))).
    { intros I. pose proof (w_lt s W (next_file s) (or_intror I)). lia. }
    assert (FreshR : ~ In (next_file s) (refs s)).
    { intros I. pose proof (w_lt s W (next_file s) (or_introl I)). lia. }
    assert (G : fs_get (fs s ++ [(next_file s, content)]) (next_file s) = Some content).
    { rewrite fs_get_app, (fs_get_none _ _ Fresh), Z.eqb_refl. reflexivity. }
    set (s1 := set_fs s (fs s ++ [(next_file s, content)]) (next_file s + 1)).
    assert (W1 : Winv s1).
    { split; try (apply W).
      - cbn. rewrite map_app. cbn. apply NoDup_snoc; [apply W|exact Fresh].
      - cbn [s1 set_fs fs next_file]. change (refs s1) with (refs s). intros id [I|I].
        + pose proof (w_lt s W id (or_introl I)). lia.
        + rewrite map_app in I. apply in_app_or in I as [I|[<-|[]]]; [|cbn; lia].
          pose proof (w_lt s W id (or_intror I)). lia.
      - cbn [s1 set_fs fs rows]. intros r I. pose proof (w_file s W r I) as F. unfold file_ok in *.
        destruct (rfile r) as [g|]; [|exact F].
        destruct F as [c [F S]]. exists c. split; [|exact S]. rewrite fs_get_app, F. reflexivity. }
    split; [split; [exact W1|]|split; [reflexivity|split; [|split; [exact G|split; [|reflexivity]]]]].
    + intros id I. cbn [s1 set_fs fs] in I. rewrite map_app in I. apply in_app_or in I as [I|[<-|[]]].
      * destruct (O id I); auto.
      * right. right. reflexivity.
    + split; [exact FreshR|]. exists content. split; [exact G|reflexivity].
    + intros g I. cbn [s1 set_fs fs]. rewrite fs_get_app. destruct (fs_get_some _ _ I) as [c ->]. reflexivity.
  - split; [split; [exact W|]|split; [reflexivity|split; [reflexivity|split; [reflexivity|split; [reflexivity|reflexivity]]]]].
    intros id I. destruct (O id I); auto.
Qed.

(* ---- removing files that nothing references ---- *)
Lemma pinv_fs_remove s P l :
  Pinv s P -> (forall g, In (Some g) l -> ~ In g (refs s)) ->
  Pinv (fs_remove s l) (fun id => P id /\ ~ In (Some id) l).
Proof.
  intros [W O] H. destruct (fs_remove_fields l s) as [R [Nf [Cn [Sz _]]]].
  split; [split|]; unfold rowids_ok, refs, counters_ok; rewrite ?R, ?Nf, ?Cn, ?Sz; try (apply W).
  - apply nodup_fs_remove, W.
  - intros id [I|I]; [apply (w_lt s W); left; exact I|]. apply in_fs_remove in I as [I _]. apply (w_lt s W). right. exact I.
  - intros r I. pose proof (w_file s W r I) as F. unfold file_ok in *. destruct (rfile r) as [g|] eqn:E; [|exact F].
    destruct F as [c [F S]]. exists c. split; [|exact S]. rewrite fs_get_fs_remove; [exact F|].
    intros I'. apply (H g I'). apply in_frefs. eauto.
  - intros id I. apply in_fs_remove in I as [I N]. unfold refs. rewrite R. destruct (O id I); auto.
Qed.

(* ---- DELETE ---- *)
Lemma pinv_delete s P wh :
  Pinv s P ->
  Pinv (t_delete wh s) (fun id => P id \/ In id (frefs (filter wh (rows s)))) /\
  Permutation (refs s) (refs (t_delete wh s) ++ frefs (filter wh (rows s))) /\
  fs (t_delete wh s) = fs s /\ next_file (t_delete wh s) = next_file s.
Proof.
  intros [W O].
  assert (Pm : Permutation (refs s) (refs (t_delete wh s) ++ frefs (filter wh (rows s)))).
  { unfold refs. rewrite rows_t_delete. apply frefs_filter_perm. }
  assert (Fs : fs (t_delete wh s) = fs s /\ next_file (t_delete wh s) = next_file s).
  { unfold t_delete. destruct (del_rows _ _ _ _) as [[t' c'] s']. split; reflexivity. }
  destruct Fs as [Fs Nf].
  assert (Sub : forall r, In r (rows (t_delete wh s)) -> In r (rows s)).
  { intros r. rewrite rows_t_delete. intros I. apply filter_In in I. apply I. }
  assert (SubR : forall g, In g (refs (t_delete wh s)) -> In g (refs s)).
  { intros g I. eapply Permutation_in; [apply Permutation_sym, Pm|]. apply in_or_app. left. exact I. }
  split; [|auto]. split; [split|].
  - apply (pc_delete _ rowids_closed), W.
  - intros r I. apply (w_pos s W), Sub, I.
  - intros r r' I I'. apply (w_keys s W); auto.
  - intros r I. apply (w_wf s W), Sub, I.
  - intros r I. apply (w_nonnull s W), Sub, I.
  - eapply NoDup_app_l. eapply Permutation_NoDup; [exact Pm|apply W].
  - rewrite Fs. apply W.
  - rewrite Fs, Nf. intros id [I|I]; apply (w_lt s W); auto.
  - rewrite Fs. intros r I. apply (w_file s W), Sub, I.
  - apply (pc_delete _ counters_closed), W.
  - intros id I. rewrite Fs in I. destruct (O id I) as [I'|Pi]; [|auto].
    eapply Permutation_in in I'; [|exact Pm]. apply in_app_or in I' as [I'|I']; auto.
Qed.

(* DELETE ... WHERE rowid IN (SELECT ...): removes exactly the selected rows *)
Lemma filter_sel_perm (t sel : list row) wh :
  NoDup (map rowid t) -> sel_of t sel -> (forall r, In r t -> wh r = mem_rowid (rowid r) sel) ->
  Permutation (filter wh t) sel.
Proof.
  intros N [Ns Inc] H. assert (Nt : NoDup t) by (eapply NoDup_map_inv, N).
  apply NoDup_Permutation; [apply NoDup_filter, Nt|exact Ns|].
  intros x. rewrite filter_In. split.
  - intros [I M]. rewrite (H x I) in M. unfold mem_rowid in M. apply existsb_exists in M as [y [Iy E]].
    apply Z.eqb_eq in E. assert (y = x) by (eapply nodup_map_inj; eauto). subst. exact Iy.
  - intros I. split; [apply Inc, I|]. rewrite (H x (Inc x I)). unfold mem_rowid. apply existsb_exists.
    exists x. split; [exact I|apply Z.eqb_refl].
Qed.

Lemma pinv_delete_sel s P wh sel :
  Pinv s P -> sel_of (rows s) sel -> (forall r, In r (rows s) -> wh r = mem_rowid (rowid r) sel) ->
  Pinv (t_delete wh s) (fun id => P id \/ In (Some id) (map rfile sel)) /\
  Permutation (refs s) (refs (t_delete wh s) ++ somes (map rfile sel)) /\
  fs (t_delete wh s) = fs s /\ next_file (t_delete wh s) = next_file s.
Proof.
  intros Hp Hs Hw. destruct (pinv_delete s P wh Hp) as [A [B [C D]]].
  assert (Pm : Permutation (frefs (filter wh (rows s))) (frefs sel)).
  { apply frefs_perm, filter_sel_perm; auto. apply rowids_nodup, Hp. }
  split; [split; [apply A|]|split; [|split; [exact C|exact D]]].
  - intros id I. destruct A as [_ O]. destruct (O id I) as [I'|[Pi|I']]; auto.
    right. right. apply in_somes. eapply Permutation_in; [exact Pm|exact I'].
  - eapply Permutation_trans; [exact B|]. apply Permutation_app_head. exact Pm.
Qed.

(* ---- UPDATE that keeps the file columns ---- *)
Lemma keys_unique_map g t :
  (forall r, rkey (g r) = rkey r /\ rraw (g r) = rraw r) -> keys_unique t -> keys_unique (map g t).
Proof.
  intros Hg U x y Ix Iy M. apply in_map_iff in Ix as [r [<- Ir]]. apply in_map_iff in Iy as [r' [<- Ir']].
  destruct (Hg r) as [K R]. rewrite K, R in M.
  rewrite (key_match_cols _ _ (g r') r') in M by apply Hg. rewrite (U r r' Ir Ir' M). reflexivity.
Qed.

Lemma pinv_update_keep s P wh f :
  keeps_id f -> keeps_file f -> Pinv s P ->
  Pinv (t_update wh f s) P /\ refs (t_update wh f s) = refs s /\ fs (t_update wh f s) = fs s /\
  next_file (t_update wh f s) = next_file s.
Proof.
  intros Ki Kf [W O].
  assert (Fs : fs (t_update wh f s) = fs s /\ next_file (t_update wh f s) = next_file s).
  { unfold t_update. destruct (upd_rows _ _ _ _) as [t' sz']. split; reflexivity. }
  destruct Fs as [Fs Nf].
  set (g := fun r => if wh r then f r else r).
  assert (Gid : forall r, rowid (g r) = rowid r /\ rkey (g r) = rkey r /\ rraw (g r) = rraw r).
  { intros r. unfold g. destruct (wh r); [apply Ki|auto]. }
  assert (Gf : forall r, rfile (g r) = rfile r /\ rsize (g r) = rsize r).
  { intros r. unfold g. destruct (wh r); [apply Kf|auto]. }
  assert (Rf : refs (t_update wh f s) = refs s).
  { unfold refs. rewrite rows_t_update. apply frefs_map_keep. intros r _. apply Gf. }
  split; [|auto]. split; [split|].
  - apply (pc_update _ rowids_closed); [exact Ki|apply W].
  - intros r. rewrite rows_t_update. intros I. apply in_map_iff in I as [r0 [<- I]]. fold (g r0).
    destruct (Gid r0) as [-> _]. apply (w_pos s W), I.
  - rewrite rows_t_update. apply keys_unique_map; [intros r; apply Gid|apply W].
  - intros r. rewrite rows_t_update. intros I. apply in_map_iff in I as [r0 [<- I]]. fold (g r0).
    destruct (Gid r0) as [_ [-> _]]. apply (w_wf s W), I.
  - intros r. rewrite rows_t_update. intros I. apply in_map_iff in I as [r0 [<- I]]. fold (g r0).
    destruct (Gid r0) as [_ [-> _]]. apply (w_nonnull s W), I.
  - rewrite Rf. apply W.
  - rewrite Fs. apply W.
  - rewrite Rf, Fs, Nf. apply W.
  - rewrite Fs. intros r. rewrite rows_t_update. intros I. apply in_map_iff in I as [r0 [<- I]]. fold (g r0).
    pose proof (w_file s W r0 I) as F. unfold file_ok in *. destruct (Gf r0) as [-> ->]. exact F.
  - apply (pc_update _ counters_closed); [exact Ki|apply W].
  - intros id I. rewrite Fs in I. rewrite Rf. exact (O id I).
Qed.

(* ---- UPDATE of the row with a given rowid that replaces its file ---- *)
Lemma nodup_ofile o : NoDup (ofile o).
Proof. destruct o; cbn; repeat constructor. intros []. Qed.

Lemma pinv_update_file s P (f : row -> row) wh r0 fid sz :
  Pinv s P -> In r0 (rows s) -> keeps_id f ->
  (forall r, wh r = (rowid r =? rowid r0)) ->
  (forall r, rfile (f r) = fid /\ rsize (f r) = sz) ->
  fid_ok s fid sz ->
  Pinv (t_update wh f s) (fun id => (P id /\ Some id <> fid) \/ Some id = rfile r0) /\
  Permutation (ofile fid ++ refs s) (ofile (rfile r0) ++ refs (t_update wh f s)) /\
  fs (t_update wh f s) = fs s /\ next_file (t_update wh f s) = next_file s /\
  (forall g, rfile r0 = Some g -> ~ In g (refs (t_update wh f s))) /\
  exists a b, rows s = a ++ r0 :: b /\ rows (t_update wh f s) = a ++ f r0 :: b /\
              (forall x, In x a -> rowid x <> rowid r0) /\ (forall x, In x b -> rowid x <> rowid r0).
Proof.
  intros [W O] I0 Ki Hwh Hf Hfid.
  assert (Fs : fs (t_update wh f s) = fs s /\ next_file (t_update wh f s) = next_file s).
  { unfold t_update. destruct (upd_rows _ _ _ _) as [t' sz']. split; reflexivity. }
  destruct Fs as [Fs Nf].
  destruct (rows_split (rows s) r0 (rowids_nodup s (w_rowids s W)) I0) as [a [b [Es [Ha Hb]]]].
  assert (Er : rows (t_update wh f s) = a ++ f r0 :: b).
  { rewrite rows_t_update, Es. rewrite <- (map_update_split f a r0 b Ha Hb). apply map_ext. intros r. rewrite Hwh. reflexivity. }
  assert (Pm : Permutation (ofile fid ++ refs s) (ofile (rfile r0) ++ refs (t_update wh f s))).
  { unfold refs. rewrite Er, Es, !frefs_app, !frefs_cons. destruct (Hf r0) as [-> _].
    rewrite !app_assoc. apply Permutation_app_tail.
    rewrite (Permutation_app_comm (ofile fid)), (Permutation_app_comm (ofile (rfile r0))), <- !app_assoc.
    apply Permutation_app_head, Permutation_app_comm. }
  assert (Nd : NoDup (ofile fid ++ refs s)).
  { destruct fid as [g|]; cbn; [|apply W]. constructor; [apply Hfid|apply W]. }
  assert (Nd' : NoDup (ofile (rfile r0) ++ refs (t_update wh f s))) by (eapply Permutation_NoDup; eauto).
  assert (InNew : forall r, In r (rows (t_update wh f s)) -> r = f r0 \/ (In r (rows s) /\ rowid r <> rowid r0)).
  { intros r. rewrite Er, Es. intros I. apply in_app_or in I as [I|[<-|I]]; auto.
    - right. split; [apply in_or_app; auto|apply Ha, I].
    - right. split; [apply in_or_app; right; right; exact I|apply Hb, I]. }
  split; [|split; [exact Pm|split; [exact Fs|split; [exact Nf|split; [|exists a, b; auto]]]]].
  2:{ intros g E I. rewrite E in Nd'. eapply (NoDup_app_disj _ _ g Nd'); [left; reflexivity|exact I]. }
  split; [split|].
  - apply (pc_update _ rowids_closed); [exact Ki|apply W].
  - intros r I. destruct (InNew r I) as [->|[I' _]]; [|apply (w_pos s W), I'].
    destruct (Ki r0) as [-> _]. apply (w_pos s W), I0.
  - rewrite rows_t_update. apply keys_unique_map; [|apply W].
    intros r. destruct (wh r); [apply Ki|auto].
  - intros r I. destruct (InNew r I) as [->|[I' _]]; [|apply (w_wf s W), I'].
    destruct (Ki r0) as [_ [-> _]]. apply (w_wf s W), I0.
  - intros r I. destruct (InNew r I) as [->|[I' _]]; [|apply (w_nonnull s W), I'].
    destruct (Ki r0) as [_ [-> _]]. apply (w_nonnull s W), I0.
  - eapply NoDup_app_r, Nd'.
  - rewrite Fs. apply W.
  - rewrite Fs, Nf. intros id [I|I]; [|apply (w_lt s W); auto].
    assert (I' : In id (ofile fid ++ refs s)).
    { eapply Permutation_in; [apply Permutation_sym, Pm|]. apply in_or_app. right. exact I. }
    apply in_app_or in I' as [I'|I']; [|apply (w_lt s W); auto].
    apply in_ofile in I'. subst fid. destruct Hfid as [_ [c [G _]]]. apply (w_lt s W). right. eapply fs_get_in, G.
  - rewrite Fs. intros r I. destruct (InNew r I) as [->|[I' _]]; [|apply (w_file s W), I'].
    unfold file_ok. destruct (Hf r0) as [-> ->]. unfold fid_ok in Hfid. destruct fid; [apply Hfid|exact Hfid].
  - apply (pc_update _ counters_closed); [exact Ki|apply W].
  - intros id I. rewrite Fs in I.
    assert (D : In id (ofile fid ++ refs s) \/ (P id /\ Some id <> fid)).
    { destruct (O id I) as [I'|Pi]; [left; apply in_or_app; auto|].
      destruct fid as [g|]; [|right; split; [exact Pi|discriminate]].
      destruct (Z.eq_dec id g) as [->|N]; [left; left; reflexivity|right; split; [exact Pi|congruence]]. }
    destruct D as [D|D]; [|auto].
    eapply Permutation_in in D; [|exact Pm]. apply in_app_or in D as [D|D]; [|auto].
    right. right. apply in_ofile in D. auto.
Qed.

(* ---- INSERT of a row whose key matches no row and whose file is new ---- *)
Lemma next_rowid_pos t : (forall r, In r t -> 0 < rowid r) -> 0 < next_rowid t.
Proof.
  intros H. destruct t as [|r t]; [reflexivity|].
  pose proof (next_rowid_gt (r :: t) r (or_introl eq_refl)). specialize (H r (or_introl eq_refl)). lia.
Qed.

Lemma pinv_insert s P mk :
  let n := mk (next_rowid (rows s)) in
  Pinv s P -> inserts_at mk ->
  (forall r, In r (rows s) -> key_match (rkey n) (b2z (rraw n)) r = false) ->
  sv_wf (rkey n) = true -> key_nonnull (rkey n) = true -> fid_ok s (rfile n) (rsize n) ->
  Pinv (t_insert mk s) (fun id => P id /\ Some id <> rfile n) /\
  refs (t_insert mk s) = refs s ++ ofile (rfile n) /\ rows (t_insert mk s) = rows s ++ [n] /\
  fs (t_insert mk s) = fs s /\ next_file (t_insert mk s) = next_file s.
Proof.
  intros n [W O] Hm Hk Hw Hnn Hfid.
  assert (Er : rows (t_insert mk s) = rows s ++ [n]) by reflexivity.
  assert (Rf : refs (t_insert mk s) = refs s ++ ofile (rfile n)).
  { unfold refs. rewrite Er, frefs_app. cbn. rewrite app_nil_r. reflexivity. }
  assert (Fs : fs (t_insert mk s) = fs s) by reflexivity.
  assert (Nf : next_file (t_insert mk s) = next_file s) by reflexivity.
  split; [|auto]. split; [split|].
  - apply (pc_insert _ rowids_closed); [exact Hm|apply W].
  - intros r. rewrite Er. intros I. apply in_app_or in I as [I|[<-|[]]]; [apply (w_pos s W), I|].
    unfold n. rewrite Hm. apply next_rowid_pos, W.
  - intros r r'. rewrite Er. intros I I' M.
    apply in_app_or in I as [I|[<-|[]]]; apply in_app_or in I' as [I'|[<-|[]]]; auto.
    + apply (w_keys s W); auto.
    + apply key_match_sym in M. rewrite (Hk r I) in M. discriminate.
    + rewrite (Hk r' I') in M. discriminate.
  - intros r. rewrite Er. intros I. apply in_app_or in I as [I|[<-|[]]]; [apply (w_wf s W), I|exact Hw].
  - intros r. rewrite Er. intros I. apply in_app_or in I as [I|[<-|[]]]; [apply (w_nonnull s W), I|exact Hnn].
  - rewrite Rf. destruct (rfile n) as [g|]; cbn; [|rewrite app_nil_r; apply W].
    apply NoDup_snoc; [apply W|apply Hfid].
  - apply W.
  - rewrite Rf, Fs, Nf. intros id [I|I]; [|apply (w_lt s W); auto].
    apply in_app_or in I as [I|I]; [apply (w_lt s W); auto|].
    apply in_ofile in I. unfold fid_ok in Hfid. rewrite I in Hfid. destruct Hfid as [_ [c [G _]]].
    apply (w_lt s W). right. eapply fs_get_in, G.
  - rewrite Fs. intros r. rewrite Er. intros I. apply in_app_or in I as [I|[<-|[]]]; [apply (w_file s W), I|].
    unfold file_ok, fid_ok in *. destruct (rfile n); [apply Hfid|exact Hfid].
  - apply (pc_insert _ counters_closed); [exact Hm|apply W].
  - intros id I. rewrite Fs in I. rewrite Rf. destruct (O id I) as [I'|Pi]; [left; apply in_or_app; auto|].
    destruct (rfile n) as [g|]; [|right; split; [exact Pi|discriminate]].
    destruct (Z.eq_dec id g) as [->|N]; [left; apply in_or_app; right; left; reflexivity|right; split; [exact Pi|congruence]].
Qed.

(* ---- the INSERT and UPDATE of set / add / incr / push ---- *)
Lemma pinv_columns_insert s P dbk raw now exp tag sd fid :
  Pinv s P -> (forall r, In r (rows s) -> key_match dbk (b2z raw) r = false) -> sv_wf dbk = true ->
  key_nonnull dbk = true -> fid_ok s fid (s_size sd) ->
  let s2 := t_insert (columns_insert dbk raw now exp tag sd fid) s in
  Pinv s2 (fun id => P id /\ Some id <> fid) /\ refs s2 = refs s ++ ofile fid /\
  rows s2 = rows s ++ [columns_insert dbk raw now exp tag sd fid (next_rowid (rows s))] /\
  fs s2 = fs s /\ next_file s2 = next_file s.
Proof.
  intros Hp Hk Hw Hnn Hf. apply (pinv_insert s P (columns_insert dbk raw now exp tag sd fid)); auto.
  apply bridge_columns_insert_at.
Qed.

Lemma pinv_columns_update s P r0 now exp tag sd fid :
  Pinv s P -> In r0 (rows s) -> fid_ok s fid (s_size sd) ->
  let f := row_update_set now exp now 0 tag (s_size sd) (s_mode sd) fid (s_col sd) (rowid r0) in
  let s2 := columns_update (rowid r0) now exp tag sd fid s in
  Pinv s2 (fun id => (P id /\ Some id <> fid) \/ Some id = rfile r0) /\
  Permutation (ofile fid ++ refs s) (ofile (rfile r0) ++ refs s2) /\
  fs s2 = fs s /\ next_file s2 = next_file s /\
  (forall g, rfile r0 = Some g -> ~ In g (refs s2)) /\
  exists a b, rows s = a ++ r0 :: b /\ rows s2 = a ++ f r0 :: b /\
              (forall x, In x a -> rowid x <> rowid r0) /\ (forall x, In x b -> rowid x <> rowid r0).
Proof.
  intros Hp I0 Hf. unfold columns_update.
  apply (pinv_update_file s P _ _ r0 fid (s_size sd) Hp I0 (bridge_row_update_keeps_id _ _ _ _ _ _ _ _ _ _));
    [intros r; apply bridge_row_update_where | intros r; apply bridge_row_update_file | exact Hf].
Qed.

(* ================================================================== _cull *)
(* cull deletes rows and returns exactly their files *)
Lemma pinv_cull c now pg s P s3 cl2 :
  cull c now pg s = (s3, cl2) -> Pinv s P ->
  Pinv s3 (fun id => P id \/ In (Some id) cl2) /\
  Permutation (refs s) (refs s3 ++ somes cl2) /\ fs s3 = fs s /\ next_file s3 = next_file s.
Proof.
  intros E H.
  assert (Triv : forall s0 P0, Pinv s0 P0 -> Pinv s0 (fun id => P0 id \/ In (Some id) []) /\
                 Permutation (refs s0) (refs s0 ++ somes []) /\ fs s0 = fs s0 /\ next_file s0 = next_file s0).
  { intros s0 P0 H0. split; [eapply pinv_weaken; [|exact H0]; auto|]. cbn. rewrite app_nil_r. auto. }
  (* the policy stage, from any intermediate state *)
  assert (Stage : forall s1 cl1 lim P1,
            Pinv s1 P1 ->
            forall s3 cl2,
            (if cull_skip_policy (if policy_has_cull (c_policy c) then Some tt else None) (volume pg s1) (c_size_limit c)
             then (s1, cl1)
             else let pr := policy_cull_select (c_policy c) lim (rows s1) in
                  if is_nil pr then (s1, cl1)
                  else (t_delete (policy_cull_delete (c_policy c) lim (rows s1)) s1, cl1 ++ map rfile pr)) = (s3, cl2) ->
            exists cl', cl2 = cl1 ++ cl' /\ Pinv s3 (fun id => P1 id \/ In (Some id) cl') /\
                        Permutation (refs s1) (refs s3 ++ somes cl') /\ fs s3 = fs s1 /\ next_file s3 = next_file s1).
  { intros s1 cl1 lim P1 H1 s3' cl2' E1.
    destruct (cull_skip_policy _ _ _).
    { inversion E1; subst. exists []. rewrite app_nil_r. split; [reflexivity|]. apply Triv, H1. }
    cbv zeta in E1. destruct (is_nil (policy_cull_select (c_policy c) lim (rows s1))).
    { inversion E1; subst. exists []. rewrite app_nil_r. split; [reflexivity|]. apply Triv, H1. }
    inversion E1; subst. exists (map rfile (policy_cull_select (c_policy c) lim (rows s1))). split; [reflexivity|].
    apply pinv_delete_sel; [exact H1| |].
    - apply bridge_policy_cull_sel, rows_nodup, H1.
    - intros r _. apply bridge_policy_cull_delete. }
  unfold cull in E. destruct (cull_disabled _).
  { inversion E; subst. apply Triv, H. }
  destruct (negb (is_nil (cull_expired_select now (c_cull_limit c) (rows s)))).
  - cbv beta iota zeta in E.
    destruct (pinv_delete_sel s P (cull_expired_delete now (c_cull_limit c) (rows s))
                (cull_expired_select now (c_cull_limit c) (rows s)) H) as [H1 [Pm1 [Fs1 Nf1]]].
    { apply bridge_cull_expired_sel, rows_nodup, H. }
    { intros r _. apply bridge_cull_expired_delete. }
    destruct (cull_exhausted _).
    { inversion E; subst. auto. }
    destruct (Stage _ _ _ _ H1 _ _ E) as [cl' [-> [H3 [Pm3 [Fs3 Nf3]]]]].
    split; [|split; [|split; congruence]].
    + eapply pinv_weaken; [|exact H3]. intros id [[A|A]|A]; auto; right; apply in_or_app; auto.
    + rewrite somes_app. eapply Permutation_trans; [exact Pm1|].
      eapply Permutation_trans; [apply Permutation_app_tail, Pm3|].
      rewrite <- app_assoc. apply Permutation_app_head, Permutation_app_comm.
  - cbv beta iota zeta in E.
    destruct (Stage _ _ _ _ H _ _ E) as [cl' [-> [H3 [Pm3 [Fs3 Nf3]]]]]. cbn [app]. auto.
Qed.

Lemma cull_disabled_0 c now pg s : c_cull_limit c = 0 -> cull c now pg s = (s, []).
Proof. intros E. unfold cull. rewrite E, bridge_cull_disabled_0. reflexivity. Qed.

(* cull, then remove the files handed to cleanup: back to the full invariant *)
Lemma sinv_finish c now pg s2 cl l :
  Pinv s2 (fun id => In (Some id) cl) -> (forall g, In (Some g) cl -> ~ In g (refs s2)) ->
  (forall o, In o l <-> In o cl \/ In o (snd (cull c now pg s2))) ->
  Sinv (fs_remove (fst (cull c now pg s2)) l).
Proof.
  intros H2 Hcl Hl. destruct (cull c now pg s2) as [s3 cl2] eqn:C. cbn [fst snd] in *.
  destruct (pinv_cull c now pg s2 _ s3 cl2 C H2) as [H3 [Pm _]].
  apply sinv_pinv. eapply pinv_weaken; [|apply (pinv_fs_remove s3 _ l H3)].
  - cbv beta. intros id [[A|A] N]; apply N, Hl; auto.
  - intros g I. apply Hl in I as [I|I].
    + intros I'. apply (Hcl g I). eapply Permutation_in; [apply Permutation_sym, Pm|]. apply in_or_app. left. exact I'.
    + eapply perm_split_disj; [apply (w_refs_nd s2), H2|exact Pm|]. apply in_somes, I.
Qed.

(* a DELETE by selection followed by the removal of the selected rows' files *)
Lemma sinv_delete_remove s wh sel :
  Sinv s -> sel_of (rows s) sel -> (forall r, In r (rows s) -> wh r = mem_rowid (rowid r) sel) ->
  Sinv (fs_remove (t_delete wh s) (map rfile sel)).
Proof.
  intros H Hs Hw. apply sinv_pinv in H.
  destruct (pinv_delete_sel s _ wh sel H Hs Hw) as [H1 [Pm _]].
  apply sinv_pinv. eapply pinv_weaken; [|apply (pinv_fs_remove _ _ (map rfile sel) H1)].
  - cbv beta. intros id [[[]|A] N]. contradiction.
  - intros g I. eapply perm_split_disj; [apply (w_refs_nd s), H|exact Pm|]. apply in_somes, I.
Qed.

Lemma sel_of_one (t : list row) r0 : In r0 t -> sel_of t [r0].
Proof. intros I. split; [repeat constructor; intros []|]. intros x [<-|[]]. exact I. Qed.

Lemma sinv_delete_one s wh r0 :
  Sinv s -> In r0 (rows s) -> (forall r, wh r = (rowid r =? rowid r0)) ->
  Sinv (fs_remove (t_delete wh s) [rfile r0]).
Proof.
  intros H I Hw. apply (sinv_delete_remove s wh [r0] H (sel_of_one _ _ I)).
  intros r _. rewrite Hw, mem_rowid_one. reflexivity.
Qed.

(* ================================================================== one lemma per operation *)
Lemma write_phase c s sd v rd s1 fid :
  Sinv s -> store (c_codec c) (c_min_file_size c) v rd = StOk sd -> fs_write s (s_file sd) = (s1, fid) ->
  Pinv s1 (fun id => Some id = fid) /\ rows s1 = rows s /\ fid_ok s1 fid (s_size sd).
Proof.
  intros H St Wr. apply sinv_pinv in H. destruct (pinv_fs_write _ _ _ _ _ Wr H) as [H1 [R1 [Fok _]]].
  rewrite <- (store_size_ok _ _ _ _ _ St) in Fok. split; [|auto].
  eapply pinv_weaken; [|exact H1]. intros id [[]|A]. exact A.
Qed.

(* the tails shared by set / add / incr / push *)
Lemma sinv_insert_tail c now pg s1 dbk raw exp tag sd fid l :
  Pinv s1 (fun id => Some id = fid) -> fid_ok s1 fid (s_size sd) ->
  (forall r, In r (rows s1) -> key_match dbk (b2z raw) r = false) -> sv_wf dbk = true -> key_nonnull dbk = true ->
  let s2 := t_insert (columns_insert dbk raw now exp tag sd fid) s1 in
  (forall o, In o l <-> In o (snd (cull c now pg s2))) ->
  Sinv (fs_remove (fst (cull c now pg s2)) l).
Proof.
  intros H1 Fok Hk Hw Hnn s2 Hl.
  destruct (pinv_columns_insert s1 _ dbk raw now exp tag sd fid H1 Hk Hw Hnn Fok) as [H2 _]. fold s2 in H2.
  apply (sinv_finish c now pg s2 [] l).
  - eapply pinv_weaken; [|exact H2]. cbv beta. intros id [A B]. contradiction.
  - intros g [].
  - intros o. rewrite Hl. cbn. tauto.
Qed.

Lemma sinv_update_tail c now pg s1 r0 exp tag sd fid l :
  Pinv s1 (fun id => Some id = fid) -> fid_ok s1 fid (s_size sd) -> In r0 (rows s1) ->
  let s2 := columns_update (rowid r0) now exp tag sd fid s1 in
  (forall o, In o l <-> o = rfile r0 \/ In o (snd (cull c now pg s2))) ->
  Sinv (fs_remove (fst (cull c now pg s2)) l).
Proof.
  intros H1 Fok I0 s2 Hl.
  destruct (pinv_columns_update s1 _ r0 now exp tag sd fid H1 I0 Fok) as [H2 [_ [_ [_ [Nr _]]]]]. fold s2 in H2, Nr.
  apply (sinv_finish c now pg s2 [rfile r0] l).
  - eapply pinv_weaken; [|exact H2]. cbv beta. intros id [[A B]|A]; [contradiction|left; auto].
  - intros g [E|[]]. apply Nr. auto.
  - intros o. rewrite Hl. cbn. intuition.
Qed.

Lemma sinv_set c s k v rd e tag now pg : Sinv s -> Sinv (fst (op_set c s k v rd e tag now pg)).
Proof.
  intros H. unfold op_set. destruct (put _ k) as [dbk raw|] eqn:Pk; [|exact H].
  destruct (store _ _ v rd) as [sd|] eqn:St; [|exact H].
  destruct (fs_write s (s_file sd)) as [s1 fid] eqn:Wr.
  destruct (write_phase c s sd v rd s1 fid H St Wr) as [H1 [R1 Fok]].
  rewrite bridge_set_select. destruct (filter _ (rows s1)) as [|r0 rs] eqn:F.
  - pose proof (sinv_insert_tail c now pg s1 dbk raw (expire_at now e) tag sd fid) as Tl. cbv zeta in Tl.
    destruct (cull c now pg _) as [s3 cl2] eqn:C. cbn [fst snd] in *. apply Tl; auto.
    + intros r I. eapply filter_nil_none; eauto.
    + eapply put_wf; eauto.
    + eapply put_key_nonnull; eauto.
    + intros o. cbn. tauto.
  - apply filter_cons_in in F as [I0 _].
    pose proof (sinv_update_tail c now pg s1 r0 (expire_at now e) tag sd fid) as Tl. cbv zeta in Tl.
    destruct (cull c now pg _) as [s3 cl2] eqn:C. cbn [fst snd] in *. apply Tl; auto.
    intros o. cbn. intuition.
Qed.

Lemma sinv_add c s k v rd e tag now pg : Sinv s -> Sinv (fst (op_add c s k v rd e tag now pg)).
Proof.
  intros H. unfold op_add. destruct (put _ k) as [dbk raw|] eqn:Pk; [|exact H].
  destruct (store _ _ v rd) as [sd|] eqn:St; [|exact H].
  destruct (fs_write s (s_file sd)) as [s1 fid] eqn:Wr.
  destruct (write_phase c s sd v rd s1 fid H St Wr) as [H1 [R1 Fok]].
  rewrite bridge_add_select. destruct (filter _ (rows s1)) as [|r0 rs] eqn:F.
  - pose proof (sinv_insert_tail c now pg s1 dbk raw (expire_at now e) tag sd fid) as Tl. cbv zeta in Tl.
    destruct (cull c now pg _) as [s3 cl2] eqn:C. cbn [fst snd] in *. apply Tl; auto.
    + intros r I. eapply filter_nil_none; eauto.
    + eapply put_wf; eauto.
    + eapply put_key_nonnull; eauto.
    + intros o. tauto.
  - apply filter_cons_in in F as [I0 _]. destruct (add_live _ _).
    + cbn [fst]. apply sinv_pinv. eapply pinv_weaken; [|apply (pinv_fs_remove s1 _ [fid] H1)].
      * cbv beta. intros id [A N]. apply N. left. auto.
      * intros g [E|[]]. subst fid. apply Fok.
    + pose proof (sinv_update_tail c now pg s1 r0 (expire_at now e) tag sd fid) as Tl. cbv zeta in Tl.
      destruct (cull c now pg _) as [s3 cl2] eqn:C. cbn [fst snd] in *. apply Tl; auto.
      intros o. cbn. intuition.
Qed.

Lemma sinv_touch c s k e now : Sinv s -> Sinv (fst (op_touch c s k e now)).
Proof.
  intros H. unfold op_touch. destruct (put _ k); [|exact H].
  destruct (touch_select _ _ _); [exact H|]. destruct (touch_live _ _); cbn [fst]; [|exact H].
  apply sinv_pinv. apply sinv_pinv in H.
  apply (pinv_update_keep s _ _ _ (bridge_touch_update_keeps_id _ _) (bridge_touch_update_keeps_file _ _) H).
Qed.

Lemma sinv_incr c s k d df now pg : Sinv s -> Sinv (fst (op_incr c s k d df now pg)).
Proof.
  intros H. unfold op_incr. destruct (put _ k) as [dbk raw|] eqn:Pk; [|exact H].
  assert (Fr : forall upd,
    match upd with Some r0 => In r0 (rows s) | None => forall r, In r (rows s) -> key_match dbk (b2z raw) r = false end ->
    Sinv (fst (match df with
      | None => (s, RRaise EKeyError)
      | Some d0 =>
        match store (c_codec c) (c_min_file_size c) (VInt (d0 + d)) false with
        | StRaise => (s, RRaise EStore)
        | StOk sd =>
          let '(s1, fid) := fs_write s (s_file sd) in
          let s2 := match upd with
                    | None => t_insert (columns_insert dbk raw now None SNull sd fid) s1
                    | Some r0 => columns_update (rowid r0) now None SNull sd fid s1
                    end in
          let '(s3, cl2) := cull c now pg s2 in
          (fs_remove s3 (cl2 ++ match upd with Some r0 => [rfile r0] | None => [] end), RVal (FVal (VInt (d0 + d))) None SNull)
        end
      end))).
  { intros upd Hu. destruct df as [d0|]; [|exact H].
    destruct (store _ _ _ _) as [sd|] eqn:St; [|exact H].
    destruct (fs_write s (s_file sd)) as [s1 fid] eqn:Wr.
    destruct (write_phase c s sd _ _ s1 fid H St Wr) as [H1 [R1 Fok]].
    destruct upd as [r0|].
    - pose proof (sinv_update_tail c now pg s1 r0 None SNull sd fid) as Tl. cbv zeta in Tl. cbv zeta.
      destruct (cull c now pg _) as [s3 cl2] eqn:C. cbn [fst snd] in *. apply Tl; auto; [congruence|].
      intros o. rewrite in_app_iff. cbn. intuition.
    - pose proof (sinv_insert_tail c now pg s1 dbk raw None SNull sd fid) as Tl. cbv zeta in Tl. cbv zeta.
      destruct (cull c now pg _) as [s3 cl2] eqn:C. cbn [fst snd] in *. apply Tl; auto.
      + rewrite R1. exact Hu.
      + eapply put_wf; eauto.
      + eapply put_key_nonnull; eauto.
      + intros o. rewrite app_nil_r. tauto. }
  rewrite bridge_incr_select. destruct (filter _ (rows s)) as [|r0 rs] eqn:F.
  - apply (Fr None). intros r I. eapply filter_nil_none; eauto.
  - apply filter_cons_in in F as [I0 _].
    destruct (incr_expired _ _); [apply (Fr (Some r0)), I0|].
    destruct (rvalue r0); try exact H. destruct (in_int64 _); cbn [fst]; [|exact H].
    apply sinv_pinv. apply sinv_pinv in H.
    apply (pinv_update_keep s _ _ _ (bridge_incr_update_keeps_id _ _ _ _) (bridge_incr_update_keeps_file _ _ _ _) H).
Qed.

Lemma sinv_bump s b : Sinv s -> Sinv (bump s b).
Proof. intros H. apply sinv_pinv. apply pinv_bump. apply sinv_pinv, H. Qed.

Lemma sinv_get c s k rd now : Sinv s -> Sinv (fst (op_get c s k rd now)).
Proof.
  intros H. unfold op_get. destruct (put _ k); [|exact H].
  destruct (get_fast_path _ _).
  - destruct (get_select _ _ _ _); [exact H|]. destruct (fetch_row _ _ _ _); exact H.
  - destruct (get_select _ _ _ _); cbn [fst]; [apply sinv_bump, H|].
    assert (U : Sinv (if policy_has_get (c_policy c)
                      then t_update (fun r0 => rowid r0 =? rowid r) (policy_get_update (c_policy c) now (rowid r)) (bump s true)
                      else bump s true)).
    { destruct (policy_has_get _); [|apply sinv_bump, H].
      apply sinv_pinv.
      apply (pinv_update_keep _ _ _ _ (bridge_policy_get_update_keeps_id _ _ _) (bridge_policy_get_update_keeps_file _ _ _)).
      apply sinv_pinv, sinv_bump, H. }
    destruct (fetch_row _ _ _ _); cbn [fst]; try exact U. apply sinv_bump, H.
Qed.

Lemma sinv_contains c s k now : Sinv s -> Sinv (fst (op_contains c s k now)).
Proof. intros H. unfold op_contains. destruct (put _ k); exact H. Qed.

Lemma sinv_pop c s k now : Sinv s -> Sinv (fst (op_pop c s k now)).
Proof.
  intros H. unfold op_pop. destruct (put _ k) as [dbk raw|]; [|exact H].
  rewrite bridge_pop_select. destruct (filter _ (rows s)) as [|r0 rs] eqn:F; [exact H|].
  apply filter_cons_in in F as [I0 _]. cbv zeta.
  assert (U : Sinv (fs_remove (t_delete (pop_delete (rowid r0) (rows s)) s) [rfile r0])).
  { apply sinv_delete_one; auto. intros r. apply bridge_pop_delete. }
  destruct (fetch_row _ _ _ _); exact U.
Qed.

Lemma sinv_delete c s k di now : Sinv s -> Sinv (fst (op_delete c s k di now)).
Proof.
  intros H. unfold op_delete. destruct (put _ k) as [dbk raw|]; [|exact H].
  rewrite bridge_del_select. destruct (filter _ (rows s)) as [|r0 rs] eqn:F; [exact H|].
  apply filter_cons_in in F as [I0 _]. cbn [fst].
  apply sinv_delete_one; auto. intros r. apply bridge_del_delete.
Qed.

(* ---- push: the computed key must be new (the queue key theory shows it is; C10) ---- *)
Definition push_key (t : list row) (prefix : option (list Z)) (sd_ : side) : sqlval :=
  let found := match sd_ with
               | Back => push_select_back (qkey_min prefix) (qkey_max prefix) 1 t
               | Front => push_select_front (qkey_min prefix) (qkey_max prefix) 1 t
               end in
  let num := match found with
             | r0 :: _ => match sd_ with Back => qkey_num prefix (rkey r0) + 1 | Front => qkey_num prefix (rkey r0) - 1 end
             | [] => push_start
             end in
  qkey_make prefix num.
(* the checkable hypothesis: the key push is about to insert matches no existing row *)
Definition push_fresh (s : st) (prefix : option (list Z)) (sd_ : side) : bool :=
  forallb (fun r => negb (key_match (push_key (rows s) prefix sd_) 1 r)) (rows s).

Lemma qkey_make_wf p n : sv_wf (qkey_make p n) = true.
Proof. destruct p; reflexivity. Qed.
Lemma qkey_make_nonnull p n : key_nonnull (qkey_make p n) = true.
Proof. destruct p; reflexivity. Qed.

Lemma sinv_push c s v rd p sd e tag now pg :
  push_fresh s p sd = true -> Sinv s -> Sinv (fst (op_push c s v rd p sd e tag now pg)).
Proof.
  intros Hp H. unfold op_push. destruct (store _ _ v rd) as [sd0|] eqn:St; [|exact H].
  destruct (fs_write s (s_file sd0)) as [s1 fid] eqn:Wr.
  destruct (write_phase c s sd0 v rd s1 fid H St Wr) as [H1 [R1 Fok]].
  cbv zeta. rewrite R1. fold (push_key (rows s) p sd).
  pose proof (sinv_insert_tail c now pg s1 (push_key (rows s) p sd) true (expire_at now e) tag sd0 fid) as Tl. cbv zeta in Tl.
  destruct (cull c now pg _) as [s3 cl2] eqn:C. cbn [fst snd] in *. apply Tl; auto.
  - rewrite R1. intros r I. unfold push_fresh in Hp. rewrite forallb_forall in Hp. apply negb_true_iff, Hp, I.
  - apply qkey_make_wf.
  - apply qkey_make_nonnull.
  - intros o. tauto.
Qed.

Lemma sinv_pull_loop c p sd now fuel : forall s, Sinv s -> Sinv (fst (op_pull_loop fuel c s p sd now)).
Proof.
  induction fuel as [|f IH]; intros s H; cbn [op_pull_loop]; [exact H|].
  destruct (pull_select sd p (rows s)) as [|r0 rs] eqn:S; [exact H|]. cbv zeta.
  assert (I0 : In r0 (rows s)) by (apply (pull_select_in sd p); rewrite S; left; reflexivity).
  assert (U : Sinv (fs_remove (t_delete (pull_delete (rowid r0) (rows s)) s) [rfile r0])).
  { apply sinv_delete_one; auto. intros r. apply SqlBridge.bridge_pull_delete. }
  destruct (pull_expired _ _); [apply IH, U|].
  destruct (fetch_row _ _ _ _); cbn [fst]; try exact U. apply IH, U.
Qed.

Lemma sinv_peek_loop c p sd now fuel : forall s, Sinv s -> Sinv (fst (op_peek_loop fuel c s p sd now)).
Proof.
  induction fuel as [|f IH]; intros s H; cbn [op_peek_loop]; [exact H|].
  destruct (peek_select sd p (rows s)) as [|r0 rs] eqn:S; [exact H|].
  assert (I0 : In r0 (rows s)) by (apply (peek_select_in sd p); rewrite S; left; reflexivity).
  destruct (peek_expired _ _).
  - apply IH. apply sinv_delete_one; auto. intros r. apply SqlBridge.bridge_peek_delete.
  - destruct (fetch_row _ _ _ _); exact H.
Qed.

Lemma sinv_peekitem_loop c l now fuel : forall s, Sinv s -> Sinv (fst (op_peekitem_loop fuel c s l now)).
Proof.
  induction fuel as [|f IH]; intros s H; cbn [op_peekitem_loop]; [exact H|].
  destruct (if l then peekitem_select_last (rows s) else peekitem_select_first (rows s)) as [|r0 rs] eqn:S; [exact H|].
  assert (I0 : In r0 (rows s)) by (apply (bridge_peekitem_select_in l); rewrite S; left; reflexivity).
  destruct (peekitem_expired _ _).
  - apply IH. apply sinv_delete_one; auto. intros r. apply bridge_peekitem_delete.
  - destruct (fetch_row _ _ _ _); exact H.
Qed.

Lemma sinv_select_delete sel next :
  (forall b t, NoDup t -> sel_of t (sel b t)) ->
  forall fuel bound s count, Sinv s -> Sinv (fst (select_delete fuel sel next bound s count)).
Proof.
  intros Hsel. induction fuel as [|f IH]; intros bound s count H; cbn [select_delete]; [exact H|].
  destruct (sel bound (rows s)) as [|r l] eqn:E; [exact H|]. apply IH.
  apply sinv_delete_remove; [exact H| |].
  - rewrite <- E. apply Hsel, rows_nodup, H.
  - intros x _. apply bridge_select_delete_delete.
Qed.

Lemma sinv_evict s tag : Sinv s -> Sinv (fst (op_evict s tag)).
Proof. apply sinv_select_delete. intros b t. apply bridge_evict_sel. Qed.
Lemma sinv_expire s now : Sinv s -> Sinv (fst (op_expire s now)).
Proof. apply sinv_select_delete. intros b t. apply bridge_expire_sel. Qed.
Lemma sinv_clear s : Sinv s -> Sinv (fst (op_clear s)).
Proof. apply sinv_select_delete. intros b t. apply bridge_clear_sel. Qed.

Lemma sinv_cull_loop c fuel : forall vols s count, Sinv s -> Sinv (fst (cull_loop fuel c vols s count)).
Proof.
  induction fuel as [|f IH]; intros vols s count H; cbn [cull_loop]; [exact H|].
  destruct (cull_over_limit _ _); [|exact H].
  destruct (policy_cull_select (c_policy c) cull_page (rows s)) as [|r l] eqn:E; [exact H|]. apply IH.
  rewrite <- E. apply sinv_delete_remove; [exact H| |].
  - apply bridge_policy_cull_sel, rows_nodup, H.
  - intros x _. apply bridge_policy_cullall_delete.
Qed.

Lemma sinv_op_cull c s now vols : Sinv s -> Sinv (fst (op_cull c s now vols)).
Proof.
  intros H. unfold op_cull. pose proof (sinv_expire s now H) as H1.
  destruct (op_expire s now) as [s1 r]. cbn [fst] in H1.
  destruct r; try exact H1. destruct (policy_has_cull _); [apply sinv_cull_loop|]; exact H1.
Qed.

(* ================================================================== every operation, every history *)
(* the only side condition: a push inserts a key that is not there yet *)
Definition op_hyp (s : st) (o : op) : bool :=
  match o with OPush _ _ p sd _ _ => push_fresh s p sd | _ => true end.

Theorem sinv_step c s o now vols : op_hyp s o = true -> Sinv s -> Sinv (fst (step c s o now vols)).
Proof.
  intros Ho H. destruct o; cbn [step].
  - apply sinv_set, H.
  - apply sinv_add, H.
  - apply sinv_touch, H.
  - apply sinv_incr, H.
  - apply sinv_get, H.
  - apply sinv_contains, H.
  - apply sinv_pop, H.
  - apply sinv_delete, H.
  - apply sinv_push; [exact Ho|exact H].
  - apply sinv_pull_loop, H.
  - apply sinv_peek_loop, H.
  - apply sinv_peekitem_loop, H.
  - apply sinv_evict, H.
  - apply sinv_expire, H.
  - apply sinv_op_cull, H.
  - apply sinv_clear, H.
  - exact H.
  - unfold op_iter. destruct (iter_max _); exact H.
  - unfold op_iterkeys. destruct (if rev then _ else _); exact H.
  - cbn. apply sinv_pinv, pinv_stats, sinv_pinv, H.
Qed.

Definition is_push (o : op) : bool := match o with OPush _ _ _ _ _ _ => true | _ => false end.

Corollary sinv_step_nopush c s o now vols : is_push o = false -> Sinv s -> Sinv (fst (step c s o now vols)).
Proof. intros Np. apply sinv_step. destruct o; try reflexivity. discriminate. Qed.

(* histories: the push hypothesis is checked at each push, on the state the push starts from *)
Fixpoint hist_ok (c : cfg) (s : st) (h : list (op * Z * list Z)) : Prop :=
  match h with
  | [] => True
  | x :: h' => op_hyp s (fst (fst x)) = true /\ hist_ok c (fst (step c s (fst (fst x)) (snd (fst x)) (snd x))) h'
  end.

Theorem sinv_run c h : forall s, Sinv s -> hist_ok c s h -> Sinv (run c s h).
Proof.
  induction h as [|x h IH]; intros s H Hh; cbn; [exact H|]. destruct Hh as [Ho Hh].
  apply IH; [|exact Hh]. apply sinv_step; assumption.
Qed.

Lemma hist_ok_nopush c h : (forall x, In x h -> is_push (fst (fst x)) = false) -> forall s, hist_ok c s h.
Proof.
  induction h as [|x h IH]; intros Hn s; cbn; [exact I|]. split.
  - specialize (Hn x (or_introl eq_refl)). destruct (fst (fst x)); try reflexivity. discriminate.
  - apply IH. intros y Iy. apply Hn. right. exact Iy.
Qed.

Corollary sinv_run_nopush c h :
  (forall x, In x h -> is_push (fst (fst x)) = false) -> Sinv (run c init_st h).
Proof. intros Hn. apply sinv_run; [apply sinv_init|apply hist_ok_nopush, Hn]. Qed.

(* the hypotheses are satisfiable, and the push hypothesis holds for the first push into an empty cache *)
Example hist_ok_example c :
  hist_ok c init_st [(OPush (VInt 1) false None Back None SNull, 0, []); (OSet (VInt 7) (VInt 8) false None SNull, 1, [])].
Proof. cbn. repeat split. Qed.

(* ================================================================== files agree (C08, file clause) *)
Definition szof (f : list (Z * fcontent)) (id : Z) : Z := match fs_get f id with Some c => fsize c | None => 0 end.

Lemma sumZ_perm a b : Permutation a b -> sumZ a = sumZ b.
Proof. induction 1; cbn; lia. Qed.

Lemma sum_rows_refs f t : (forall r, In r t -> file_ok f r) -> sumZ (map rsize t) = sumZ (map (szof f) (frefs t)).
Proof.
  induction t as [|r t IH]; intros H; [reflexivity|]. rewrite frefs_cons, map_app, sumZ_app. cbn [map sumZ].
  rewrite IH by (intros x I; apply H; right; exact I).
  pose proof (H r (or_introl eq_refl)) as F. unfold file_ok in F. destruct (rfile r) as [g|]; cbn.
  - destruct F as [c [G S]]. unfold szof. rewrite G. lia.
  - lia.
Qed.

Lemma sum_fs f : NoDup (map fst f) -> sumZ (map (szof f) (map fst f)) = sumZ (map (fun p => fsize (snd p)) f).
Proof.
  induction f as [|[i c] f IH]; intros N; [reflexivity|]. cbn [map fst snd sumZ]. inversion N as [|? ? Ni Nf]; subst.
  unfold szof at 1. cbn [fs_get]. rewrite Z.eqb_refl. rewrite <- (IH Nf). f_equal. f_equal.
  apply map_ext_in. intros id I. unfold szof. cbn [fs_get]. destruct (Z.eqb_spec i id); [subst; contradiction|reflexivity].
Qed.

Theorem files_agree s : Sinv s ->
  (forall id, In id (map fst (fs s)) <-> In id (refs s)) /\
  Permutation (map fst (fs s)) (refs s) /\
  (forall r id, In r (rows s) -> rfile r = Some id -> exists c, fs_get (fs s) id = Some c /\ fsize c = rsize r) /\
  (forall r, In r (rows s) -> rfile r = None -> rsize r = 0) /\
  n_size s = sumZ (map (fun p => fsize (snd p)) (fs s)) /\
  n_count s = Z.of_nat (length (rows s)).
Proof.
  intros [W O].
  assert (Iff : forall id, In id (map fst (fs s)) <-> In id (refs s)).
  { intros id. split; [apply O|]. intros I. destruct (refs_in_fs s id W I) as [c G]. eapply fs_get_in, G. }
  assert (Pm : Permutation (map fst (fs s)) (refs s)).
  { apply NoDup_Permutation; [apply W|apply W|exact Iff]. }
  split; [exact Iff|]. split; [exact Pm|]. split; [|split; [|split]].
  - intros r id I E. pose proof (w_file s W r I) as F. unfold file_ok in F. rewrite E in F. exact F.
  - intros r I E. pose proof (w_file s W r I) as F. unfold file_ok in F. rewrite E in F. exact F.
  - destruct (w_counters s W) as [_ Sz]. rewrite Sz, (sum_rows_refs (fs s) (rows s) (w_file s W)).
    rewrite <- (sum_fs (fs s) (w_fs_nd s W)). apply sumZ_perm, Permutation_map, Permutation_sym, Pm.
  - apply (w_counters s W).
Qed.

(* every reachable state (histories without pushes, or with the push hypothesis at each push) *)
Corollary files_agree_run c h s : Sinv s -> hist_ok c s h ->
  n_size (run c s h) = sumZ (map (fun p => fsize (snd p)) (fs (run c s h))) /\
  (forall id, In id (map fst (fs (run c s h))) <-> In id (refs (run c s h))).
Proof. intros H Hh. destruct (files_agree _ (sinv_run c h s H Hh)) as [A [_ [_ [_ [B _]]]]]. auto. Qed.

Print Assumptions sinv_step.
Print Assumptions sinv_run.
Print Assumptions files_agree.
