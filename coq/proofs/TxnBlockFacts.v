(* Transaction blocks over the real bodies (model/TxnBlock.v).
   (1) In a world of inline values (no row refers to a value file) a block of calls is a well-behaved body of the
       machine, so for every number of clients, every schedule and every kill the machine invariant holds with blocks
       in the programs: a block commits atomically, an aborted block leaves the committed state exactly as it was,
       nobody else's write takes effect while it is open (the generic theorems of ConcTheorems.v apply).
   (2) With file-backed values the statement is FALSE of the code as written: the findings C06-F1 (a replaced value),
       C06-F2 (a popped value) and C07-F1 (a kill instead of the raise) are replayed on these bodies. *)
From DC Require Import DCPrelude DCPreludeFacts Val DiskBase SqlBase Gen_Disk Disk Gen_Sql Cache CacheRun Refs
  SinvFacts Conc ConcFacts ConcTheorems Txn TxnFacts TxnBlock.

Definition Winv0 (d : st) : Prop := Winv d /\ refs d = [].

Lemma nil_of_no_elements {A} (l : list A) : (forall x, In x l -> False) -> l = [].
Proof. destruct l as [|a l]; [reflexivity|]. intros H. exfalso. apply (H a). left. reflexivity. Qed.

(* a call that stores no value file of its own keeps an inline world inline *)
Lemma body_ok_inline (w : cwop) : body_ok refs Winv w -> w_store w = false -> body_ok refs Winv0 w.
Proof.
  intros H S d f [W R0] Hf Hs. cbv zeta.
  assert (F : f = None) by (apply Hs, S). subst f.
  assert (X := H d None W (fun g (E : None = Some g) => False_ind _ (eq_ind None (fun o => match o with None => True | Some _ => False end) I _ E)) (fun _ => eq_refl)).
  cbv zeta in X. destruct X as [A [B [C [Dd [E G]]]]].
  assert (R1 : refs (bo_db (w_body w d None)) = []).
  { apply nil_of_no_elements. intros g I. destruct (B g I) as [I'|I']; [rewrite R0 in I'; exact I'|discriminate]. }
  assert (Cl : bo_cleanup (w_body w d None) ++ optl (bo_fetch (w_body w d None)) = []).
  { apply nil_of_no_elements. intros g I. destruct (C g I) as [[I'|I'] _]; [rewrite R0 in I'; exact I'|discriminate]. }
  split; [split; assumption|]. split; [intros g I; rewrite R1 in I; contradiction|].
  split; [intros g I; rewrite Cl in I; contradiction|]. split; [rewrite Cl; constructor|].
  split; [exact E|]. intros _ g Hg. discriminate.
Qed.

(* the inner calls of a block, run on an inline world: the world stays inline and nothing is released *)
Lemma block_fold_inline : forall (ws : list cwop) d last,
  Forall (body_ok refs Winv) ws -> Winv0 d ->
  let '(d', e, _) := block_fold ws d last in Winv0 d' /\ e = [].
Proof.
  induction ws as [|w r IH]; intros d last Hw [W R0]; cbn [block_fold]; [split; [split; assumption|reflexivity]|].
  inversion Hw as [|? ? Hw1 Hr]; subst.
  assert (X := Hw1 d None W (fun g (E : None = Some g) => False_ind _ (eq_ind None (fun o => match o with None => True | Some _ => False end) I _ E)) (fun _ => eq_refl)).
  cbv zeta in X. destruct X as [A [B [C _]]].
  assert (R1 : refs (bo_db (w_body w d None)) = []).
  { apply nil_of_no_elements. intros g I. destruct (B g I) as [I'|I']; [rewrite R0 in I'; exact I'|discriminate]. }
  assert (Cl : bo_cleanup (w_body w d None) ++ optl (bo_fetch (w_body w d None)) = []).
  { apply nil_of_no_elements. intros g I. destruct (C g I) as [[I'|I'] _]; [rewrite R0 in I'; exact I'|discriminate]. }
  specialize (IH (bo_db (w_body w d None)) (bo_res (w_body w d None)) Hr (conj A R1)).
  destruct (block_fold r (bo_db (w_body w d None)) (bo_res (w_body w d None))) as [[d' e] res].
  destruct IH as [I1 I2]. split; [exact I1|].
  apply app_eq_nil in Cl as [C1 C2]. rewrite C1, I2.
  assert (F0 : ofile (bo_fetch (w_body w d None)) = []).
  { unfold optl in C2. unfold ofile. destruct (bo_fetch (w_body w d None)); [discriminate|reflexivity]. }
  rewrite F0. reflexivity.
Qed.

Theorem body_ok_block retry ws raises :
  Forall (body_ok refs Winv) ws -> body_ok refs Winv0 (w_block retry ws raises).
Proof.
  intros Hw d f W0 Hf Hs. cbv zeta. cbn [w_block w_body]. unfold body_block.
  pose proof (block_fold_inline ws d (RBool true) Hw W0) as H.
  destruct (block_fold ws d (RBool true)) as [[d' e] res]. destruct H as [[W1 R1] E]. subst e.
  cbn [bo_db bo_early bo_cleanup bo_fetch bo_ok app optl].
  split; [split; assumption|]. split; [intros g I; rewrite R1 in I; contradiction|].
  split; [intros g []|]. split; [constructor|]. split; [reflexivity|].
  intros _ g Hg. rewrite (Hs eq_refl) in Hg. discriminate.
Qed.

(* ------------------------------------------------------------------ programs with blocks, every schedule *)
Inductive bcall :=
| BOne (x : call)                                            (* a single call *)
| BBlock (retry : bool) (xs : list call) (raises : bool).    (* with cache.transact(retry): xs...; [raise] *)

Definition call_wop (c : cfg) (x : call) : list cwop :=
  match compile c x with OWrite w => [w] | ORead _ => [] end.      (* a lookup inside a block changes nothing *)

Definition bcompile (c : cfg) (b : bcall) : Conc.op st result :=
  match b with
  | BOne x => compile c x
  | BBlock retry xs raises => OWrite (w_block retry (flat_map (call_wop c) xs) raises)
  end.

(* no call of the program stores a value file (all values below the file threshold) *)
Definition op_inline (o : Conc.op st result) : bool := match o with OWrite w => negb (w_store w) | ORead _ => true end.
Definition bcall_inline (c : cfg) (b : bcall) : bool :=
  match b with
  | BOne x => op_inline (compile c x)
  | BBlock _ xs _ => forallb (fun x => op_inline (compile c x)) xs
  end.

Lemma call_wop_ok c x : Forall (body_ok refs Winv) (call_wop c x).
Proof.
  unfold call_wop. pose proof (compile_ok c x) as H. destruct (compile c x) as [w|r]; [constructor; [exact H|constructor]|constructor].
Qed.

Lemma flat_call_wop_ok c xs : Forall (body_ok refs Winv) (flat_map (call_wop c) xs).
Proof.
  induction xs as [|x r IH]; cbn [flat_map]; [constructor|]. apply Forall_app. split; [apply call_wop_ok|exact IH].
Qed.

Theorem bcompile_ok c b : bcall_inline c b = true -> op_ok refs Winv0 (bcompile c b).
Proof.
  destruct b as [x|retry xs raises]; cbn [bcompile bcall_inline]; intros H.
  - pose proof (compile_ok c x) as K. destruct (compile c x) as [w|r]; cbn [op_ok op_inline] in *.
    + apply body_ok_inline; [exact K|]. destruct (w_store w); [discriminate|reflexivity].
    + exact K.
  - cbn [op_ok]. apply body_ok_block, flat_call_wop_ok.
Qed.

Lemma winv0_init : Winv0 init_st.
Proof. split; [apply sinv_init|reflexivity]. Qed.

(* C06 for inline values, with the real bodies: every configuration reachable by any schedule (kills included) of
   programs made of single calls and blocks satisfies the machine invariant over Winv0 *)
Theorem block_inv c (progs : nat -> list bcall) sched :
  (forall i, forallb (bcall_inline c) (progs i) = true) ->
  Inv refs Winv0 (exec (init_config init_st (fun i => map (bcompile c) (progs i))) sched).
Proof.
  intros Hin. apply inv_exec, inv_init.
  - apply winv0_init.
  - reflexivity.
  - intros i. apply Forall_forall. intros o I. apply in_map_iff in I as [b [<- Ib]].
    apply bcompile_ok. specialize (Hin i). rewrite forallb_forall in Hin. apply Hin, Ib.
Qed.

(* hence: the COMMIT of a block installs all its effects at once and releases the lock ... *)
Corollary block_commit_atomic c progs sched i retry xs raises f o :
  (forall i, forallb (bcall_inline c) (progs i) = true) ->
  let cf := exec (init_config init_st (fun i => map (bcompile c) (progs i))) sched in
  c_pc (cl cf i) = AtCommit (w_block retry (flat_map (call_wop c) xs) raises) f o -> bo_ok o = true ->
  exists c', cstep cf i = Some c' /\ db c' = bo_db (body_block (flat_map (call_wop c) xs) raises (db cf) f) /\ lock c' = None.
Proof.
  intros Hin cf Hpc Hok. exact (commit_is_atomic st result refs Winv0 cf i _ f o (block_inv c progs sched Hin) Hpc Hok).
Qed.

(* ... and a block that raises leaves the committed state EXACTLY as it was *)
Corollary block_abort_restores c progs sched i retry xs raises f o :
  let cf := exec (init_config init_st (fun i => map (bcompile c) (progs i))) sched in
  c_pc (cl cf i) = AtCommit (w_block retry (flat_map (call_wop c) xs) raises) f o -> bo_ok o = false ->
  exists c', cstep cf i = Some c' /\ db c' = db cf /\ lock c' = None /\ commits c' = commits cf.
Proof. intros cf Hpc Hok. exact (rollback_restores st result cf i _ f o Hpc Hok). Qed.

Print Assumptions block_inv.
Print Assumptions block_commit_atomic.

(* ------------------------------------------------------------------ with file-backed values the statement is false
   One client; key "k" holds a file-backed value (20 characters, file threshold 8).
   W1 (finding C06-F1): with transact: set k 5; raise   -> ROLLBACK restores the row, but the inner set already removed its file.
   W2 (finding C06-F2): with transact: pop k; raise     -> the same through pop's read-and-remove.
   W3 (finding C07-F1): with transact: set k 5; <killed before COMMIT> -> the committed row survives, its file is gone. *)
Definition wcfg : cfg :=
  {| c_policy := PLRS; c_size_limit := 1073741824; c_cull_limit := 10; c_min_file_size := 8; c_codec := mk_codec [] [] |}.
Definition wkey : pyval := VStr [107].
Definition wbig : pyval := VStr (repeat 120 20%nat).
Definition wnow : Z := 1024000.
Definition w_setbig : cwop := w_set true wcfg wkey wbig false None SNull wnow 0.
Definition w_set5 : cwop := w_set true wcfg wkey (VInt 5) false None SNull wnow 0.
Definition w_popk : cwop := w_pop true wcfg wkey wnow.

Definition one_client (prog : list (Conc.op st result)) : config st result :=
  init_config init_st (fun i => if Nat.eqb i 0 then prog else []).

(* some committed row refers to a file that does not exist *)
Definition dangling (c : config st result) : bool :=
  existsb (fun r => match rfile r with Some g => match files c g with FNone => true | _ => false end | None => false end) (rows (db c)).
Definition client_done (c : config st result) : bool :=
  match c_pc (cl c 0), c_todo (cl c 0) with Idle, [] => true | _, _ => false end.

Definition w1_final := exec (one_client [OWrite w_setbig; OWrite (w_block true [w_set5] true)]) (repeat (Step 0) 30).
Definition w2_final := exec (one_client [OWrite w_setbig; OWrite (w_block true [w_popk] true)]) (repeat (Step 0) 30).
Definition w3_final := exec (one_client [OWrite w_setbig; OWrite (w_block true [w_set5] false)]) (repeat (Step 0) 11 ++ [Kill 0]).

Lemma abort_loses_file_real : client_done w1_final = true /\ lock w1_final = None /\ length (rows (db w1_final)) = 1%nat /\ dangling w1_final = true.
Proof. vm_compute. repeat split; reflexivity. Qed.

Lemma abort_loses_file_pop_real : client_done w2_final = true /\ lock w2_final = None /\ length (rows (db w2_final)) = 1%nat /\ dangling w2_final = true.
Proof. vm_compute. repeat split; reflexivity. Qed.

Lemma kill_in_block_loses_file_real : lock w3_final = None /\ length (rows (db w3_final)) = 1%nat /\ dangling w3_final = true.
Proof. vm_compute. repeat split; reflexivity. Qed.

(* the same blocks over an inline value are harmless (the witnesses are about files, not about the rows) *)
Definition w_set1 : cwop := w_set true wcfg wkey (VInt 1) false None SNull wnow 0.
Definition w0_final := exec (one_client [OWrite w_set1; OWrite (w_block true [w_set5] true)]) (repeat (Step 0) 30).
Lemma abort_inline_restores : client_done w0_final = true /\ dangling w0_final = false /\ map rvalue (rows (db w0_final)) = [SInt 1].
Proof. vm_compute. repeat split; reflexivity. Qed.
