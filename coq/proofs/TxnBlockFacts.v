(* Transaction blocks over the real bodies (model/TxnBlock.v).
   (1) A block of calls is a well-behaved body of the machine (body_ok), for inline AND file-backed values: the files
       its inner calls release are removed only after the block's COMMIT.  So for every number of clients, every
       schedule and every kill the machine invariant holds with blocks in the programs: a block commits atomically,
       an aborted block leaves the committed state -- files included -- exactly as it was, nobody else's write takes
       effect while it is open, every committed row's file is complete (the generic theorems of ConcTheorems.v apply).
   (2) The body the code had BEFORE the repair (inner calls remove the files they release when they return:
       body_block_early) is not well-behaved: the findings C06-F1, C06-F2 and C07-F1 are replayed on it, and the same
       programs are harmless on the repaired body. *)
From DC Require Import DCPrelude DCPreludeFacts Val DiskBase SqlBase Gen_Disk Disk Gen_Sql Cache CacheRun Refs
  SinvFacts Conc ConcFacts ConcTheorems Txn TxnFacts TxnBlock.

Lemma ofile_optl (f : option Z) : ofile f = optl f.
Proof. destruct f; reflexivity. Qed.

Lemma nodup_app_intro {A} (a b : list A) :
  NoDup a -> NoDup b -> (forall x, In x a -> ~ In x b) -> NoDup (a ++ b).
Proof.
  induction a as [|x a IH]; intros Ha Hb Hd; cbn [app]; [exact Hb|].
  inversion Ha as [|? ? Hx Ha']; subst. constructor.
  - intros I. apply in_app_or in I as [I|I]; [exact (Hx I)|]. apply (Hd x); [left; reflexivity|exact I].
  - apply IH; [exact Ha'|exact Hb|]. intros y Iy. apply Hd. right. exact Iy.
Qed.

Definition no_file : forall g : Z, None = Some g -> ~ In g (@nil Z) :=
  fun g E => False_ind _ (eq_ind None (fun o => match o with None => True | Some _ => False end) I _ E).

(* the inner calls of a block, composed: the invariant is kept, no file reference appears, and the released files
   were referenced before, are referenced no more, and are pairwise distinct *)
Lemma block_fold_ok : forall (ws : list cwop) d last,
  Forall (body_ok refs Winv) ws -> Winv d ->
  let '(d', e, _) := block_fold ws d last in
  Winv d' /\ (forall g, In g (refs d') -> In g (refs d)) /\
  (forall g, In g e -> In g (refs d) /\ ~ In g (refs d')) /\ NoDup e.
Proof.
  induction ws as [|w r IH]; intros d last Hw W; cbn [block_fold].
  - split; [exact W|]. split; [auto|]. split; [intros g []|constructor].
  - inversion Hw as [|? ? Hw1 Hr]; subst.
    assert (X := Hw1 d None W (fun g (E : None = Some g) => False_ind _ (eq_ind None (fun o => match o with None => True | Some _ => False end) I _ E)) (fun _ => eq_refl)).
    cbv zeta in X. destruct X as [A [B [C [N _]]]].
    specialize (IH (bo_db (w_body w d None)) (bo_res (w_body w d None)) Hr A).
    destruct (block_fold r (bo_db (w_body w d None)) (bo_res (w_body w d None))) as [[d' e] res].
    destruct IH as [I1 [I2 [I3 I4]]].
    assert (B' : forall g, In g (refs (bo_db (w_body w d None))) -> In g (refs d)).
    { intros g Ig. destruct (B g Ig) as [H|H]; [exact H|discriminate]. }
    split; [exact I1|]. split; [intros g Ig; apply B', I2, Ig|].
    rewrite ofile_optl, app_assoc.
    split.
    + intros g Ig. apply in_app_or in Ig as [Ig|Ig].
      * destruct (C g Ig) as [[H|H] Hn]; [|discriminate]. split; [exact H|]. intros K. apply Hn, I2, K.
      * destruct (I3 g Ig) as [H Hn]. split; [apply B', H|exact Hn].
    + apply nodup_app_intro; [exact N|exact I4|].
      intros g Ig Ie. destruct (C g Ig) as [_ Hn]. destruct (I3 g Ie) as [H _]. exact (Hn H).
Qed.

Theorem body_ok_block retry ws raises :
  Forall (body_ok refs Winv) ws -> body_ok refs Winv (w_block retry ws raises).
Proof.
  intros Hw d f W Hf Hs. cbv zeta. cbn [w_block w_body]. unfold body_block.
  pose proof (block_fold_ok ws d (RBool true) Hw W) as H.
  destruct (block_fold ws d (RBool true)) as [[d' e] res]. destruct H as [W1 [R1 [E1 N1]]].
  cbn [bo_db bo_early bo_cleanup bo_fetch bo_ok optl]. rewrite app_nil_r.
  split; [exact W1|]. split; [intros g I; left; apply R1, I|].
  split; [intros g I; destruct (E1 g I) as [H1 H2]; split; [left; exact H1|exact H2]|].
  split; [exact N1|]. split; [reflexivity|].
  intros _ g Hg. rewrite (Hs eq_refl) in Hg. discriminate.
Qed.

(* ------------------------------------------------------------------ programs with blocks, every schedule *)
Inductive bcall :=
| BOne (x : call)                                            (* a single call *)
| BBlock (retry : bool) (xs : list call) (raises : bool).    (* with cache.transact(retry): xs...; [raise] *)

Definition call_wop (c : cfg) (x : call) : list cwop :=
  match compile c x with OWrite w => [w] | ORead _ => [] end.      (* a lookup inside a block changes nothing *)

Definition bcompile (c : cfg) (b : bcall) : Conc.op st result :=
  match b with
  | BOne x => compile c x
  | BBlock retry xs raises => OWrite (w_block retry (flat_map (call_wop c) xs) raises)
  end.

(* the instance: the inner calls of a block store no NEW value file (their values stay below the file threshold; the keys
   they overwrite, delete or pop may well hold file-backed values) *)
Definition op_inline (o : Conc.op st result) : bool := match o with OWrite w => negb (w_store w) | ORead _ => true end.
Definition bcall_inline (c : cfg) (b : bcall) : bool :=
  match b with
  | BOne x => true
  | BBlock _ xs _ => forallb (fun x => op_inline (compile c x)) xs
  end.

Lemma call_wop_ok c x : Forall (body_ok refs Winv) (call_wop c x).
Proof.
  unfold call_wop. pose proof (compile_ok c x) as H. destruct (compile c x) as [w|r]; [constructor; [exact H|constructor]|constructor].
Qed.

Lemma flat_call_wop_ok c xs : Forall (body_ok refs Winv) (flat_map (call_wop c) xs).
Proof.
  induction xs as [|x r IH]; cbn [flat_map]; [constructor|]. apply Forall_app. split; [apply call_wop_ok|exact IH].
Qed.

Theorem bcompile_ok c b : op_ok refs Winv (bcompile c b).
Proof.
  destruct b as [x|retry xs raises]; cbn [bcompile].
  - apply compile_ok.
  - cbn [op_ok]. apply body_ok_block, flat_call_wop_ok.
Qed.

(* C06 with the real bodies, inline and file-backed values: every configuration reachable by any schedule (kills
   included) of programs made of single calls and blocks satisfies the machine invariant *)
Theorem block_inv c (progs : nat -> list bcall) sched :
  Inv refs Winv (exec (init_config init_st (fun i => map (bcompile c) (progs i))) sched).
Proof.
  apply inv_exec, inv_init.
  - apply sinv_init.
  - reflexivity.
  - intros i. apply Forall_forall. intros o I. apply in_map_iff in I as [b [<- Ib]]. apply bcompile_ok.
Qed.

(* hence: every committed row's file is complete in every reachable configuration, blocks or not ... *)
Corollary block_files_complete c progs sched :
  let cf := exec (init_config init_st (fun i => map (bcompile c) (progs i))) sched in
  Winv (db cf) /\ forall g, In g (refs (db cf)) -> files cf g = FDone.
Proof.
  cbv zeta. pose proof (block_inv c progs sched) as H. split; [apply (@i_dinv _ _ _ _ _ H)|apply (@i_ref _ _ _ _ _ H)].
Qed.

(* ... the COMMIT of a block installs all its effects at once and releases the lock ... *)
Corollary block_commit_atomic c progs sched i retry xs raises f o :
  let cf := exec (init_config init_st (fun i => map (bcompile c) (progs i))) sched in
  c_pc (cl cf i) = AtCommit (w_block retry (flat_map (call_wop c) xs) raises) f o -> bo_ok o = true ->
  exists c', cstep cf i = Some c' /\ db c' = bo_db (body_block (flat_map (call_wop c) xs) raises (db cf) f) /\ lock c' = None.
Proof.
  intros cf Hpc Hok. exact (commit_is_atomic st result refs Winv cf i _ f o (block_inv c progs sched) Hpc Hok).
Qed.

(* ... and a block that raises leaves the committed state EXACTLY as it was, its files included: the ROLLBACK step
   changes neither the rows nor any file *)
Corollary block_abort_restores c progs sched i retry xs raises f o :
  let cf := exec (init_config init_st (fun i => map (bcompile c) (progs i))) sched in
  c_pc (cl cf i) = AtCommit (w_block retry (flat_map (call_wop c) xs) raises) f o -> bo_ok o = false ->
  exists c', cstep cf i = Some c' /\ db c' = db cf /\ lock c' = None /\ commits c' = commits cf.
Proof. intros cf Hpc Hok. exact (rollback_restores st result cf i _ f o Hpc Hok). Qed.

Print Assumptions block_inv.
Print Assumptions block_commit_atomic.

(* ------------------------------------------------------------------ the defect that was repaired, on the old body
   One client; key "k" holds a file-backed value (20 characters, file threshold 8).
   W1 (C06-F1): with transact: set k 5; raise   -> ROLLBACK restores the row; on the OLD body the inner set had already
                removed its file.
   W2 (C06-F2): with transact: pop k; raise     -> the same through pop's read-and-remove.
   W3 (C07-F1): with transact: set k 5; <killed before COMMIT> -> the committed row survives; on the OLD body its file is gone.
   On the repaired body the same programs leave no dangling row. *)
Definition wcfg : cfg :=
  {| c_policy := PLRS; c_size_limit := 1073741824; c_cull_limit := 10; c_min_file_size := 8; c_codec := mk_codec [] [] |}.
Definition wkey : pyval := VStr [107].
Definition wbig : pyval := VStr (repeat 120 20%nat).
Definition wnow : Z := 1024000.
Definition w_setbig : cwop := w_set true wcfg wkey wbig false None SNull wnow 0.
Definition w_set5 : cwop := w_set true wcfg wkey (VInt 5) false None SNull wnow 0.
Definition w_popk : cwop := w_pop true wcfg wkey wnow.

Definition one_client (prog : list (Conc.op st result)) : config st result :=
  init_config init_st (fun i => if Nat.eqb i 0 then prog else []).

(* some committed row refers to a file that does not exist *)
Definition dangling (c : config st result) : bool :=
  existsb (fun r => match rfile r with Some g => match files c g with FNone => true | _ => false end | None => false end) (rows (db c)).
Definition client_done (c : config st result) : bool :=
  match c_pc (cl c 0), c_todo (cl c 0) with Idle, [] => true | _, _ => false end.

Definition old1_final := exec (one_client [OWrite w_setbig; OWrite (w_block_early true [w_set5] true)]) (repeat (Step 0) 30).
Definition old2_final := exec (one_client [OWrite w_setbig; OWrite (w_block_early true [w_popk] true)]) (repeat (Step 0) 30).
Definition old3_final := exec (one_client [OWrite w_setbig; OWrite (w_block_early true [w_set5] false)]) (repeat (Step 0) 11 ++ [Kill 0]).

Lemma old_body_abort_loses_file : client_done old1_final = true /\ lock old1_final = None /\ length (rows (db old1_final)) = 1%nat /\ dangling old1_final = true.
Proof. vm_compute. repeat split; reflexivity. Qed.
Lemma old_body_abort_loses_file_pop : client_done old2_final = true /\ lock old2_final = None /\ length (rows (db old2_final)) = 1%nat /\ dangling old2_final = true.
Proof. vm_compute. repeat split; reflexivity. Qed.
Lemma old_body_kill_in_block_loses_file : lock old3_final = None /\ length (rows (db old3_final)) = 1%nat /\ dangling old3_final = true.
Proof. vm_compute. repeat split; reflexivity. Qed.

Definition w1_final := exec (one_client [OWrite w_setbig; OWrite (w_block true [w_set5] true)]) (repeat (Step 0) 30).
Definition w2_final := exec (one_client [OWrite w_setbig; OWrite (w_block true [w_popk] true)]) (repeat (Step 0) 30).
Definition w3_final := exec (one_client [OWrite w_setbig; OWrite (w_block true [w_set5] false)]) (repeat (Step 0) 11 ++ [Kill 0]).
Definition w4_final := exec (one_client [OWrite w_setbig; OWrite (w_block true [w_set5] false)]) (repeat (Step 0) 30).

(* the repaired body: after the abort (resp. the kill) the row is back and its file is still there; after a COMMIT the
   row holds the new inline value and the old file is gone *)
Lemma repaired_body_keeps_file :
  (client_done w1_final = true /\ lock w1_final = None /\ length (rows (db w1_final)) = 1%nat /\ dangling w1_final = false) /\
  (client_done w2_final = true /\ lock w2_final = None /\ length (rows (db w2_final)) = 1%nat /\ dangling w2_final = false) /\
  (lock w3_final = None /\ length (rows (db w3_final)) = 1%nat /\ dangling w3_final = false) /\
  (client_done w4_final = true /\ map rvalue (rows (db w4_final)) = [SInt 5] /\ map rfile (rows (db w4_final)) = [None] /\ files w4_final 0 = FNone).
Proof. vm_compute. repeat split; reflexivity. Qed.
