(* Deque refines collections.deque (C11): every operation of model/Deque.v commutes with the view
   (values in key order) and returns what the list specification returns.  Induction / case analysis for
   every index i : Z and every rotation n : Z. *)
From DC Require Import DCPrelude DCPreludeFacts PersistentBase Gen_Persistent QCache Deque
     PersistentBridge QCacheFacts.

(* the generated definitions are used through their bridge lemmas only *)
#[local] Opaque deque_cmp_len_differs deque_cmp_short deque_cmp_elem_differs deque_eq_op deque_ne_op deque_lt_op deque_gt_op deque_le_op deque_ge_op deque_init_policy deque_init_maxlen deque_fromcache_maxlen deque_setmaxlen_retry deque_setmaxlen_guard deque_setmaxlen_trim deque_index_nonneg deque_index_too_high deque_index_too_low deque_index_hit_fwd deque_index_hit_bwd deque_index_step_fwd deque_index_adjust deque_index_step_bwd deque_index_fwd_reverse deque_index_bwd_reverse deque_index_exn_high deque_index_exn_low deque_index_exn_end deque_getitem_func deque_setitem_func deque_delitem_func deque_iter_reverse deque_reversed_reverse deque_getstate deque_copy_args deque_append_call deque_append_guard deque_append_trim deque_appendleft_call deque_appendleft_guard deque_appendleft_trim deque_clear_call deque_count_match deque_extend_fn deque_extendleft_fn deque_peek_call deque_peek_miss deque_peek_exn deque_peekleft_call deque_peekleft_miss deque_peekleft_exn deque_pop_call deque_pop_miss deque_pop_exn deque_popleft_call deque_popleft_miss deque_popleft_exn deque_remove_reverse deque_remove_match deque_remove_exn deque_reverse_source deque_rotate_empty deque_rotate_nonneg deque_rotate_neg_factor deque_rotate_right_pop deque_rotate_right_push deque_rotate_left_pop deque_rotate_left_push.

(* components of the tuple-shaped bridge lemmas *)
Ltac bridge_tuple L :=
  let E := fresh "E" in pose proof L as E;
  repeat (let H := fresh "B" in apply pair_equal_spec in E; destruct E as [E H]).

Definition view (d : deque) : list val := qc_view (dq_cache d).

Definition absd (d : deque) : ldq :=
  {| l_items := view d; l_maxlen := option_map Z.to_nat (dq_maxlen d) |}.

(* keys ascending; maxlen a natural number; at most maxlen items *)
Definition DInv (d : deque) : Prop :=
  qwf (dq_cache d) /\ match dq_maxlen d with Some m => 0 <= m /\ dq_len d <= m | None => True end.

Lemma dq_len_view d : dq_len d = Z.of_nat (length (view d)).
Proof. unfold dq_len, qc_len, view. rewrite qc_view_length. reflexivity. Qed.

Lemma with_cache_same d : with_cache d (dq_cache d) = d.
Proof. destruct d; reflexivity. Qed.

(* ------------------------------------------------------------------------------------------------ *)
(* pop / popleft / peek / peekleft in canonical form                                                 *)

Lemma dq_popleft_nil d : dq_cache d = [] -> dq_popleft d = (d, RRaise IndexError).
Proof.
  intros E. unfold dq_popleft, dq_poplike. rewrite bridge_deque_popleft_call. bridge_tuple bridge_deque_poplike_exns.
  unfold q_exec; cbn. rewrite E. cbn. rewrite bridge_deque_popleft_miss. cbn. rewrite <- E, with_cache_same. congruence.
Qed.

Lemma dq_popleft_cons d k v r : dq_cache d = (k, v) :: r -> dq_popleft d = (with_cache d r, RVal v).
Proof.
  intros E. unfold dq_popleft, dq_poplike. rewrite bridge_deque_popleft_call.
  unfold q_exec; cbn. rewrite E. cbn. rewrite bridge_deque_popleft_miss. reflexivity.
Qed.

Lemma dq_pop_nil d : dq_cache d = [] -> dq_pop d = (d, RRaise IndexError).
Proof.
  intros E. unfold dq_pop, dq_poplike. rewrite bridge_deque_pop_call. bridge_tuple bridge_deque_poplike_exns.
  unfold q_exec; cbn. rewrite E. cbn. rewrite bridge_deque_pop_miss. cbn. rewrite <- E, with_cache_same. congruence.
Qed.

Lemma dq_pop_snoc d c' k v : dq_cache d = c' ++ [(k, v)] -> dq_pop d = (with_cache d c', RVal v).
Proof.
  intros E. unfold dq_pop, dq_poplike. rewrite bridge_deque_pop_call.
  unfold q_exec; cbn. rewrite E, rev_app_distr. cbn. rewrite rev_involutive, bridge_deque_pop_miss. reflexivity.
Qed.

Lemma dq_peekleft_nil d : dq_cache d = [] -> dq_peekleft d = (d, RRaise IndexError).
Proof.
  intros E. unfold dq_peekleft, dq_poplike. rewrite bridge_deque_peekleft_call. bridge_tuple bridge_deque_poplike_exns.
  unfold q_exec; cbn. rewrite E. cbn. rewrite bridge_deque_peekleft_miss. cbn. rewrite <- E, with_cache_same. congruence.
Qed.

Lemma dq_peekleft_cons d k v r : dq_cache d = (k, v) :: r -> dq_peekleft d = (d, RVal v).
Proof.
  intros E. unfold dq_peekleft, dq_poplike. rewrite bridge_deque_peekleft_call.
  unfold q_exec; cbn. rewrite E. cbn. rewrite bridge_deque_peekleft_miss. cbn. rewrite <- E, with_cache_same. reflexivity.
Qed.

Lemma dq_peek_nil d : dq_cache d = [] -> dq_peek d = (d, RRaise IndexError).
Proof.
  intros E. unfold dq_peek, dq_poplike. rewrite bridge_deque_peek_call. bridge_tuple bridge_deque_poplike_exns.
  unfold q_exec; cbn. rewrite E. cbn. rewrite bridge_deque_peek_miss. cbn. rewrite <- E, with_cache_same. congruence.
Qed.

Lemma dq_peek_snoc d c' k v : dq_cache d = c' ++ [(k, v)] -> dq_peek d = (d, RVal v).
Proof.
  intros E. unfold dq_peek, dq_poplike. rewrite bridge_deque_peek_call.
  unfold q_exec; cbn. rewrite E, rev_app_distr. cbn. rewrite bridge_deque_peek_miss. cbn.
  rewrite <- E, with_cache_same. reflexivity.
Qed.

(* ------------------------------------------------------------------------------------------------ *)
(* list-side helpers                                                                                 *)

Lemma trim_left_fits m (l : list val) : (length l <= m)%nat -> l_trim_left (Some m) l = l.
Proof. intros H. cbn. replace (length l - m)%nat with O by lia. reflexivity. Qed.

Lemma trim_left_one m (l : list val) : length l = S m -> l_trim_left (Some m) l = tl l.
Proof. intros H. cbn. replace (length l - m)%nat with 1%nat by lia. destruct l; reflexivity. Qed.

Lemma trim_right_fits m (l : list val) : (length l <= m)%nat -> l_trim_right (Some m) l = l.
Proof. intros H. cbn. apply take_all, H. Qed.

Lemma trim_right_one m (l : list val) x : length l = m -> l_trim_right (Some m) (l ++ [x]) = l.
Proof. intros H. cbn. rewrite take_app_le by lia. apply take_all. lia. Qed.

(* ------------------------------------------------------------------------------------------------ *)
(* append / appendleft                                                                               *)

Lemma append_core v d : DInv d ->
  DInv (dq_append v d) /\ dq_maxlen (dq_append v d) = dq_maxlen d /\
  view (dq_append v d) = l_append (option_map Z.to_nat (dq_maxlen d)) (view d) v.
Proof.
  intros [W M]. unfold dq_append, dq_pushlike. bridge_tuple bridge_deque_append_trims.
  rewrite bridge_deque_append_call, bridge_deque_append_guard. unfold q_exec_push; cbn [qc_meth qc_side].
  set (c1 := snd (qc_push Back v (dq_cache d))).
  assert (W1 : qwf c1) by (apply qc_push_back_wf, W).
  assert (V1 : qc_view c1 = view d ++ [v]) by apply qc_push_back_view.
  assert (L1 : dq_len (with_cache d c1) = dq_len d + 1).
  { unfold dq_len, qc_len. cbn. rewrite app_length. cbn. lia. }
  cbn [dq_maxlen with_cache]. unfold l_append.
  destruct (dq_maxlen d) as [m|] eqn:Em; cbn [option_map].
  - destruct M as [M0 M1]. rewrite L1.
    assert (Lv : Z.of_nat (length (view d)) = dq_len d) by (symmetry; apply dq_len_view).
    destruct (dq_len d + 1 >? m) eqn:G.
    + assert (dq_len d = m) by zbool.
      replace deque_append_trim with MR_popleft by congruence. cbn [dq_mref_pop].
      destruct c1 as [|[k0 v0] r1] eqn:Ec1; [cbn in V1; destruct (view d); discriminate|].
      rewrite (dq_popleft_cons _ k0 v0 r1) by reflexivity. cbn [fst].
      split; [split|split].
      * apply (qwf_app_inv [(k0, v0)] r1), W1.
      * cbn [dq_maxlen with_cache]. rewrite Em. split; [lia|]. unfold dq_len, qc_len in *. cbn in *. lia.
      * cbn [dq_maxlen with_cache]. rewrite Em. reflexivity.
      * unfold view at 1. cbn [dq_cache with_cache]. rewrite trim_left_one.
        -- rewrite <- V1. reflexivity.
        -- rewrite app_length. cbn. lia.
    + assert (dq_len d + 1 <= m) by zbool. split; [split|split].
      * exact W1.
      * cbn [dq_maxlen with_cache]. rewrite Em. split; [lia|]. rewrite L1. lia.
      * cbn [dq_maxlen with_cache]. rewrite Em. reflexivity.
      * unfold view at 1. cbn [dq_cache with_cache]. rewrite trim_left_fits; [exact V1|].
        rewrite app_length. cbn. lia.
  - split; [split|split]; auto; cbn [dq_maxlen with_cache]; rewrite ?Em; auto.
Qed.

Lemma appendleft_core v d : DInv d ->
  DInv (dq_appendleft v d) /\ dq_maxlen (dq_appendleft v d) = dq_maxlen d /\
  view (dq_appendleft v d) = l_appendleft (option_map Z.to_nat (dq_maxlen d)) (view d) v.
Proof.
  intros [W M]. unfold dq_appendleft, dq_pushlike. bridge_tuple bridge_deque_append_trims.
  rewrite bridge_deque_appendleft_call, bridge_deque_appendleft_guard. unfold q_exec_push; cbn [qc_meth qc_side].
  set (c1 := snd (qc_push Front v (dq_cache d))).
  assert (W1 : qwf c1) by (apply qc_push_front_wf, W).
  assert (V1 : qc_view c1 = v :: view d) by apply qc_push_front_view.
  assert (L1 : dq_len (with_cache d c1) = dq_len d + 1).
  { unfold dq_len, qc_len. cbn [dq_cache with_cache c1 qc_push snd length]. lia. }
  cbn [dq_maxlen with_cache]. unfold l_appendleft.
  destruct (dq_maxlen d) as [m|] eqn:Em; cbn [option_map].
  - destruct M as [M0 M1]. rewrite L1.
    assert (Lv : Z.of_nat (length (view d)) = dq_len d) by (symmetry; apply dq_len_view).
    destruct (dq_len d + 1 >? m) eqn:G.
    + assert (dq_len d = m) by zbool.
      replace deque_appendleft_trim with MR_pop by congruence. cbn [dq_mref_pop].
      destruct (rev_cases c1) as [Ec1|[c' [[k0 v0] Ec1]]]; [rewrite Ec1 in V1; discriminate|].
      rewrite (dq_pop_snoc _ c' k0 v0) by exact Ec1. cbn [fst].
      assert (Lc : length c1 = S (length (dq_cache d))) by reflexivity.
      rewrite Ec1, app_length in Lc. cbn in Lc.
      split; [split|split].
      * rewrite Ec1 in W1. apply (qwf_app_inv c' [(k0, v0)]), W1.
      * cbn [dq_maxlen with_cache]. rewrite Em. split; [lia|]. unfold dq_len, qc_len in *. cbn. lia.
      * cbn [dq_maxlen with_cache]. rewrite Em. reflexivity.
      * unfold view at 1. cbn [dq_cache with_cache]. rewrite <- V1, Ec1, qc_view_app. cbn [qc_view map snd].
        rewrite trim_right_one; [reflexivity|]. rewrite qc_view_length. unfold dq_len, qc_len in *. lia.
    + assert (dq_len d + 1 <= m) by zbool. split; [split|split].
      * exact W1.
      * cbn [dq_maxlen with_cache]. rewrite Em. split; [lia|]. rewrite L1. lia.
      * cbn [dq_maxlen with_cache]. rewrite Em. reflexivity.
      * unfold view at 1. cbn [dq_cache with_cache]. rewrite trim_right_fits; [exact V1|]. cbn. lia.
  - split; [split|split]; auto; cbn [dq_maxlen with_cache]; rewrite ?Em; auto.
Qed.

Lemma extend_core vs : forall d, DInv d ->
  DInv (dq_extend vs d) /\ dq_maxlen (dq_extend vs d) = dq_maxlen d /\
  view (dq_extend vs d) = fold_left (l_append (option_map Z.to_nat (dq_maxlen d))) vs (view d).
Proof.
  unfold dq_extend. bridge_tuple bridge_deque_extend_fns. replace deque_extend_fn with MR_append by congruence.
  cbn [dq_mref_push].
  induction vs as [|v vs IH]; intros d I; cbn [fold_left]; [auto|].
  destruct (append_core v d I) as [I1 [M1 V1]].
  destruct (IH _ I1) as [I2 [M2 V2]]. rewrite M1 in *. rewrite V1 in V2. auto.
Qed.

Lemma extendleft_core vs : forall d, DInv d ->
  DInv (dq_extendleft vs d) /\ dq_maxlen (dq_extendleft vs d) = dq_maxlen d /\
  view (dq_extendleft vs d) = fold_left (l_appendleft (option_map Z.to_nat (dq_maxlen d))) vs (view d).
Proof.
  unfold dq_extendleft. bridge_tuple bridge_deque_extend_fns. replace deque_extendleft_fn with MR_appendleft by congruence.
  cbn [dq_mref_push].
  induction vs as [|v vs IH]; intros d I; cbn [fold_left]; [auto|].
  destruct (appendleft_core v d I) as [I1 [M1 V1]].
  destruct (IH _ I1) as [I2 [M2 V2]]. rewrite M1 in *. rewrite V1 in V2. auto.
Qed.

(* ------------------------------------------------------------------------------------------------ *)
(* the refinement statement                                                                          *)

Definition refines (d : deque) (o : dq_op) : Prop :=
  let '(d', r) := dq_step d o in DInv d' /\ ldq_step (absd d) o = (absd d', r).

Lemma absd_eq d d' l : dq_maxlen d' = dq_maxlen d -> view d' = l -> absd d' = ldq_with (absd d) l.
Proof. intros M V. unfold absd, ldq_with. cbn. rewrite M, V. reflexivity. Qed.

Lemma absd_same d : absd d = ldq_with (absd d) (view d).
Proof. reflexivity. Qed.

Lemma DInv_shrink d c' : DInv d -> qwf c' -> (length c' <= length (dq_cache d))%nat -> DInv (with_cache d c').
Proof.
  intros [W M] W' L. split; [exact W'|]. cbn [dq_maxlen with_cache].
  destruct (dq_maxlen d) as [m|]; [|exact I]. destruct M as [M0 M1]. split; [exact M0|].
  unfold dq_len, qc_len in *. cbn [dq_cache with_cache]. lia.
Qed.

Lemma view_with_cache d c : view (with_cache d c) = qc_view c.
Proof. reflexivity. Qed.

Lemma refines_append v d : DInv d -> refines d (OAppend v).
Proof.
  intros I. unfold refines. cbn [dq_step ldq_step]. destruct (append_core v d I) as [I1 [M1 V1]].
  split; [exact I1|]. f_equal. symmetry. apply absd_eq; auto.
Qed.

Lemma refines_appendleft v d : DInv d -> refines d (OAppendLeft v).
Proof.
  intros I. unfold refines. cbn [dq_step ldq_step]. destruct (appendleft_core v d I) as [I1 [M1 V1]].
  split; [exact I1|]. f_equal. symmetry. apply absd_eq; auto.
Qed.

Lemma refines_extend vs d : DInv d -> refines d (OExtend vs) /\ refines d (OIadd vs).
Proof.
  intros I. unfold refines. cbn [dq_step ldq_step]. destruct (extend_core vs d I) as [I1 [M1 V1]].
  split; (split; [exact I1|]; f_equal; symmetry; apply absd_eq; auto).
Qed.

Lemma refines_extendleft vs d : DInv d -> refines d (OExtendLeft vs).
Proof.
  intros I. unfold refines. cbn [dq_step ldq_step]. destruct (extendleft_core vs d I) as [I1 [M1 V1]].
  split; [exact I1|]. f_equal. symmetry. apply absd_eq; auto.
Qed.

(* ---- pop / popleft / peek / peekleft ---- *)

Lemma refines_pop d : DInv d -> refines d OPop.
Proof.
  intros I. unfold refines. cbn [dq_step ldq_step absd l_items].
  destruct (rev_cases (dq_cache d)) as [E|[c' [[k v] E]]].
  - rewrite (dq_pop_nil d E). unfold view. rewrite E. cbn. auto.
  - rewrite (dq_pop_snoc d c' k v E). unfold view at 1. rewrite E, qc_view_app, rev_app_distr. cbn [qc_view map snd rev app].
    split.
    + apply DInv_shrink; auto.
      * destruct I as [W _]. rewrite E in W. apply (qwf_app_inv c' [(k, v)]), W.
      * rewrite E, app_length. lia.
    + f_equal. symmetry. apply absd_eq; [reflexivity|]. rewrite view_with_cache, rev_involutive. reflexivity.
Qed.

Lemma refines_popleft d : DInv d -> refines d OPopLeft.
Proof.
  intros I. unfold refines. cbn [dq_step ldq_step absd l_items].
  destruct (dq_cache d) as [|[k v] r] eqn:E.
  - rewrite (dq_popleft_nil d E). unfold view. rewrite E. cbn. auto.
  - rewrite (dq_popleft_cons d k v r E). unfold view at 1. rewrite E. cbn [qc_view map snd].
    split.
    + apply DInv_shrink; auto.
      * destruct I as [W _]. rewrite E in W. apply (qwf_app_inv [(k, v)] r), W.
      * rewrite E. cbn. lia.
    + f_equal; try (symmetry; apply absd_eq; reflexivity).
Qed.

Lemma refines_peek d : DInv d -> refines d OPeek.
Proof.
  intros I. unfold refines. cbn [dq_step ldq_step absd l_items].
  destruct (rev_cases (dq_cache d)) as [E|[c' [[k v] E]]].
  - rewrite (dq_peek_nil d E). unfold view. rewrite E. cbn. auto.
  - rewrite (dq_peek_snoc d c' k v E). unfold view. rewrite E, qc_view_app, rev_app_distr. cbn. auto.
Qed.

Lemma refines_peekleft d : DInv d -> refines d OPeekLeft.
Proof.
  intros I. unfold refines. cbn [dq_step ldq_step absd l_items].
  destruct (dq_cache d) as [|[k v] r] eqn:E.
  - rewrite (dq_peekleft_nil d E). unfold view. rewrite E. cbn. auto.
  - rewrite (dq_peekleft_cons d k v r E). unfold view. rewrite E. cbn. auto.
Qed.

(* ---- _index ---- *)

Lemma index_walk_fwd hit step func keysA k keysB c r :
  (forall i, hit i = (i =? 0)) -> (forall i, step i = i - 1) -> func k c = Some r ->
  index_walk hit step func (keysA ++ k :: keysB) (Z.of_nat (length keysA)) c = Some r.
Proof.
  intros Hh Hs F. induction keysA as [|a keysA IH]; cbn [app length index_walk].
  - rewrite Hh. cbn. rewrite F. reflexivity.
  - rewrite Hh. replace (Z.of_nat (S (length keysA)) =? 0) with false by zbool.
    rewrite Hs. replace (Z.of_nat (S (length keysA)) - 1) with (Z.of_nat (length keysA)) by lia. exact IH.
Qed.

Lemma index_walk_bwd hit step func keysA k keysB c r :
  (forall i, hit i = (i =? 0)) -> (forall i, step i = i + 1) -> func k c = Some r ->
  index_walk hit step func (keysA ++ k :: keysB) (- Z.of_nat (length keysA)) c = Some r.
Proof.
  intros Hh Hs F. induction keysA as [|a keysA IH]; cbn [app length index_walk].
  - rewrite Hh. cbn. rewrite F. reflexivity.
  - rewrite Hh. replace (- Z.of_nat (S (length keysA)) =? 0) with false by zbool.
    rewrite Hs. replace (- Z.of_nat (S (length keysA)) + 1) with (- Z.of_nat (length keysA)) by lia. exact IH.
Qed.

Lemma norm_index_some i len n :
  l_norm_index i len = Some n ->
  (n < len)%nat /\ ((0 <= i /\ i = Z.of_nat n) \/ (i < 0 /\ i = Z.of_nat n - Z.of_nat len)).
Proof.
  unfold l_norm_index.
  destruct (Z.leb_spec 0 i) as [A|A], (Z.ltb_spec i (Z.of_nat len)) as [B|B]; cbn [andb].
  - intros E; inversion E. split; [lia|left; lia].
  - replace (i <? 0) with false by zbool. cbn. discriminate.
  - replace (i <? 0) with true by zbool. cbn [andb].
    destruct (Z.leb_spec (- Z.of_nat len) i) as [C|C]; [|discriminate].
    intros E; inversion E. split; [lia|right; lia].
  - lia.
Qed.

Lemma norm_index_none i len : l_norm_index i len = None -> Z.of_nat len <= i \/ i < - Z.of_nat len.
Proof.
  unfold l_norm_index.
  destruct (Z.leb_spec 0 i) as [A|A], (Z.ltb_spec i (Z.of_nat len)) as [B|B]; cbn [andb]; try discriminate.
  - intros _. left. lia.
  - replace (i <? 0) with true by zbool. cbn [andb].
    destruct (Z.leb_spec (- Z.of_nat len) i) as [C|C]; [discriminate|]. intros _. right. lia.
  - lia.
Qed.

Lemma dq_index_out i func d :
  l_norm_index i (length (dq_cache d)) = None -> dq_index i func d = (d, RRaise IndexError).
Proof.
  intros N. apply norm_index_none in N. unfold dq_index. bridge_tuple bridge_deque_index_exns.
  rewrite (bridge_deque_index_nonneg i), (bridge_deque_index_too_high i (dq_len d)), (bridge_deque_index_too_low i (dq_len d)).
  unfold dq_len, qc_len.
  destruct (Z.geb_spec i 0) as [A|A].
  - replace (i >=? Z.of_nat (length (dq_cache d))) with true by zbool. congruence.
  - replace (i <? - Z.of_nat (length (dq_cache d))) with true by zbool. congruence.
Qed.

Lemma dq_index_in i func d n c1 k v c2 c' r :
  qwf (dq_cache d) -> l_norm_index i (length (dq_cache d)) = Some n ->
  dq_cache d = c1 ++ (k, v) :: c2 -> length c1 = n -> func k (dq_cache d) = Some (c', r) ->
  dq_index i func d = (with_cache d c', r).
Proof.
  intros W N E L F. apply norm_index_some in N as [Ln N]. unfold dq_index.
  bridge_tuple bridge_deque_index_directions.
  rewrite (bridge_deque_index_nonneg i), (bridge_deque_index_too_high i (dq_len d)), (bridge_deque_index_too_low i (dq_len d)), (bridge_deque_index_adjust i).
  unfold dq_len, qc_len.
  assert (Ltot : length (dq_cache d) = (n + S (length c2))%nat) by (rewrite E, app_length; cbn; lia).
  destruct N as [[N0 N1]|[N0 N1]].
  - replace (i >=? 0) with true by zbool.
    replace (i >=? Z.of_nat (length (dq_cache d))) with false by zbool.
    replace deque_index_fwd_reverse with false by congruence. cbn [qc_iterkeys].
    rewrite E at 1. rewrite qc_keys_app. cbn [qc_keys map fst].
    replace i with (Z.of_nat (length (qc_keys c1))) by (rewrite qc_keys_length; lia).
    rewrite (index_walk_fwd _ _ func _ k _ _ (c', r)); auto using bridge_deque_index_hit_fwd, bridge_deque_index_step_fwd.
  - replace (i >=? 0) with false by zbool.
    replace (i <? - Z.of_nat (length (dq_cache d))) with false by zbool.
    replace deque_index_bwd_reverse with true by congruence. cbn [qc_iterkeys].
    rewrite E at 1. rewrite qc_keys_app. cbn [qc_keys map fst]. rewrite rev_app_distr. cbn [rev]. rewrite <- app_assoc. cbn [app].
    replace (i + 1) with (- Z.of_nat (length (rev (map fst c2)))) by (rewrite rev_length, map_length; lia).
    rewrite (index_walk_bwd _ _ func _ k _ _ (c', r)); auto using bridge_deque_index_hit_bwd, bridge_deque_index_step_bwd.
Qed.

Lemma l_set_nth_mid (l1 : list val) x y l2 : l_set_nth (length l1) y (l1 ++ x :: l2) = l1 ++ y :: l2.
Proof. induction l1; cbn; auto. f_equal; auto. Qed.

Lemma l_del_nth_mid (l1 : list val) x l2 : l_del_nth (length l1) (l1 ++ x :: l2) = l1 ++ l2.
Proof. induction l1; cbn; auto. f_equal; auto. Qed.

Lemma view_length d : length (view d) = length (dq_cache d).
Proof. apply qc_view_length. Qed.

Lemma refines_get i d : DInv d -> refines d (OGet i).
Proof.
  intros I. unfold refines. cbn [dq_step ldq_step absd l_items]. rewrite view_length. unfold dq_getitem.
  bridge_tuple bridge_deque_index_funcs. replace deque_getitem_func with CM_getitem by congruence.
  destruct (l_norm_index i (length (dq_cache d))) as [n|] eqn:N.
  - destruct (norm_index_some _ _ _ N) as [Ln _].
    destruct (split_at n (dq_cache d) Ln) as [c1 [[k v] [c2 [Ec L]]]].
    destruct I as [W M].
    rewrite (dq_index_in i _ d n c1 k v c2 (dq_cache d) (RVal v)); auto.
    + rewrite with_cache_same. split; [split; auto|]. f_equal. f_equal.
      unfold view. rewrite Ec, qc_view_app. cbn [qc_view map snd]. rewrite <- L, <- (qc_view_length c1).
      apply nth_middle.
    + assert (G : qc_get k (dq_cache d) = Some v).
      { rewrite Ec. apply qc_get_mid. eapply qwf_mid_lt. rewrite <- Ec. exact W. }
      cbn [q_exec_func]. rewrite G. reflexivity.
  - rewrite dq_index_out; auto.
Qed.

Lemma refines_set i x d : DInv d -> refines d (OSet i x).
Proof.
  intros I. unfold refines. cbn [dq_step ldq_step absd l_items]. rewrite view_length. unfold dq_setitem.
  bridge_tuple bridge_deque_index_funcs. replace deque_setitem_func with CM_setitem by congruence.
  destruct (l_norm_index i (length (dq_cache d))) as [n|] eqn:N.
  - destruct (norm_index_some _ _ _ N) as [Ln _].
    destruct (split_at n (dq_cache d) Ln) as [c1 [[k v] [c2 [Ec L]]]].
    pose proof I as [W M].
    assert (Lt : forall k', In k' (qc_keys c1) -> k' < k) by (eapply qwf_mid_lt; rewrite <- Ec; exact W).
    rewrite (dq_index_in i _ d n c1 k v c2 (c1 ++ (k, x) :: c2) RNone); auto.
    + split.
      * apply DInv_shrink; auto.
        -- eapply qwf_replace_mid. rewrite <- Ec. exact W.
        -- rewrite Ec, !app_length. cbn. lia.
      * f_equal. symmetry. apply absd_eq; [reflexivity|].
        rewrite view_with_cache. unfold view. rewrite Ec, !qc_view_app. cbn [qc_view map snd].
        rewrite <- L, <- (qc_view_length c1). symmetry. apply l_set_nth_mid.
    + cbn [q_exec_func]. rewrite Ec. rewrite qc_set_mid; auto.
  - rewrite dq_index_out; auto.
Qed.

Lemma refines_del i d : DInv d -> refines d (ODel i).
Proof.
  intros I. unfold refines. cbn [dq_step ldq_step absd l_items]. rewrite view_length. unfold dq_delitem.
  bridge_tuple bridge_deque_index_funcs. replace deque_delitem_func with CM_delitem by congruence.
  destruct (l_norm_index i (length (dq_cache d))) as [n|] eqn:N.
  - destruct (norm_index_some _ _ _ N) as [Ln _].
    destruct (split_at n (dq_cache d) Ln) as [c1 [[k v] [c2 [Ec L]]]].
    pose proof I as [W M].
    assert (Lt : forall k', In k' (qc_keys c1) -> k' < k) by (eapply qwf_mid_lt; rewrite <- Ec; exact W).
    rewrite (dq_index_in i _ d n c1 k v c2 (c1 ++ c2) RNone); auto.
    + split.
      * apply DInv_shrink; auto.
        -- eapply qwf_remove_mid. rewrite <- Ec. exact W.
        -- rewrite Ec, !app_length. cbn. lia.
      * f_equal. symmetry. apply absd_eq; [reflexivity|].
        rewrite view_with_cache. unfold view. rewrite Ec, !qc_view_app. cbn [qc_view map snd].
        rewrite <- L, <- (qc_view_length c1). symmetry. apply l_del_nth_mid.
    + cbn [q_exec_func]. rewrite Ec. rewrite qc_del_mid; auto.
  - rewrite dq_index_out; auto.
Qed.

(* ---- iteration, len, count ---- *)

Lemma dq_iter_view d : qwf (dq_cache d) -> dq_iter d = view d.
Proof.
  intros W. unfold dq_iter, dq_iter_list. bridge_tuple bridge_deque_iter_directions.
  replace deque_iter_reverse with false by congruence. cbn [qc_iterkeys]. apply lookup_all_fwd, W.
Qed.

Lemma dq_reversed_view d : qwf (dq_cache d) -> dq_reversed d = rev (view d).
Proof.
  intros W. unfold dq_reversed, dq_iter_list. bridge_tuple bridge_deque_iter_directions.
  replace deque_reversed_reverse with true by congruence. cbn [qc_iterkeys]. apply lookup_all_bwd, W.
Qed.

Lemma refines_observers d : DInv d ->
  refines d OIter /\ refines d OReversed /\ refines d OLen /\ forall v, refines d (OCount v).
Proof.
  intros I. pose proof I as [W _]. unfold refines. cbn [dq_step ldq_step absd l_items].
  rewrite dq_iter_view, dq_reversed_view, dq_len_view by exact W.
  split; [|split; [|split]]; try (split; [exact I|reflexivity]).
  intros v. split; [exact I|].
  apply f_equal. apply f_equal. unfold dq_count, l_count. rewrite dq_iter_view by exact W.
  apply f_equal. apply f_equal. apply filter_ext. intros x. symmetry. apply bridge_deque_count_match.
Qed.

(* ---- comparisons ---- *)

Lemma lex_cmp_length_neq (a b : list val) : length a <> length b -> lex_cmp a b <> Eq.
Proof. intros H E. apply lex_cmp_eq in E. subst. auto. Qed.

Lemma cmp_walk_spec o : forall a b k,
  match cmp_walk o a b with
  | Some r => r
  | None => seqop_apply o (k + Z.of_nat (length a)) (k + Z.of_nat (length b))
  end = l_compare o a b.
Proof.
  induction a as [|x a IH]; intros [|y b] k; cbn [cmp_walk length lex_cmp].
  - destruct o; cbn; zbool.
  - destruct o; cbn; zbool.
  - destruct o; cbn; zbool.
  - rewrite (bridge_deque_cmp_elem_differs x y).
    destruct (Z.compare_spec x y) as [E|L|G].
    + subst. rewrite Z.eqb_refl. cbn [negb].
      replace (k + Z.of_nat (S (length a))) with ((k + 1) + Z.of_nat (length a)) by lia.
      replace (k + Z.of_nat (S (length b))) with ((k + 1) + Z.of_nat (length b)) by lia.
      rewrite IH. unfold l_compare. cbn [lex_cmp]. rewrite Z.compare_refl. reflexivity.
    + replace (x =? y) with false by zbool. cbn [negb]. unfold l_compare. cbn [lex_cmp].
      apply Z.compare_lt_iff in L as C. rewrite C. destruct o; cbn; zbool.
    + replace (x =? y) with false by zbool. cbn [negb]. unfold l_compare. cbn [lex_cmp].
      apply Z.compare_gt_iff in G as C. rewrite C. destruct o; cbn; zbool.
Qed.

Lemma refines_compare o that d : DInv d -> refines d (OCompare o that).
Proof.
  intros I. pose proof I as [W _]. unfold refines. cbn [dq_step ldq_step absd l_items].
  split; [exact I|]. f_equal. f_equal. unfold dq_compare.
  assert (Eo : dq_method_op o = o).
  { bridge_tuple bridge_deque_compare_ops. destruct o; cbn; congruence. }
  rewrite Eo, (bridge_deque_cmp_len_differs (dq_len d)), bridge_deque_cmp_short, dq_iter_view, dq_len_view by exact W.
  pose proof (cmp_walk_spec o (view d) that 0) as S. cbn [Z.add] in S.
  destruct (Z.eqb_spec (Z.of_nat (length (view d))) (Z.of_nat (length that))) as [E|E]; cbn [negb].
  - symmetry. exact S.
  - assert (N : lex_cmp (view d) that <> Eq) by (apply lex_cmp_length_neq; lia).
    destruct o; try (symmetry; exact S); unfold l_compare; destruct (lex_cmp (view d) that); congruence.
Qed.

(* ---- remove ---- *)

Fixpoint qc_remove_first (v : val) (c : qcache) : option qcache :=
  match c with
  | [] => None
  | (k, x) :: r => if v =? x then Some r
                   else match qc_remove_first v r with Some r' => Some ((k, x) :: r') | None => None end
  end.

Lemma remove_walk_suffix v c2 : forall c1, qwf (c1 ++ c2) ->
  remove_walk v (qc_keys c2) (c1 ++ c2) =
  match qc_remove_first v c2 with Some c2' => Some (c1 ++ c2') | None => None end.
Proof.
  induction c2 as [|[k x] c2 IH]; intros c1 W; [reflexivity|].
  change (qc_keys ((k, x) :: c2)) with (k :: qc_keys c2). cbn [remove_walk qc_remove_first].
  assert (Lt : forall k', In k' (qc_keys c1) -> k' < k) by (eapply qwf_mid_lt; exact W).
  rewrite qc_get_mid, (bridge_deque_remove_match v x) by exact Lt.
  destruct (v =? x).
  - rewrite qc_del_mid by exact Lt. reflexivity.
  - specialize (IH (c1 ++ [(k, x)])). rewrite <- app_assoc in IH. cbn [app] in IH. rewrite IH by exact W.
    destruct (qc_remove_first v c2); [rewrite <- app_assoc|]; reflexivity.
Qed.

Lemma qc_remove_first_view v c :
  match qc_remove_first v c with
  | Some c' => l_remove v (qc_view c) = Some (qc_view c')
  | None => l_remove v (qc_view c) = None
  end.
Proof.
  induction c as [|[k x] c IH]; cbn [qc_remove_first qc_view map snd l_remove]; [reflexivity|].
  destruct (v =? x); [reflexivity|]. fold (qc_view c).
  destruct (qc_remove_first v c) as [c'|]; rewrite IH; reflexivity.
Qed.

Lemma qc_remove_first_split v c c' :
  qc_remove_first v c = Some c' -> exists c1 kv c2, c = c1 ++ kv :: c2 /\ c' = c1 ++ c2.
Proof.
  revert c'. induction c as [|[k x] c IH]; cbn [qc_remove_first]; intros c' E; [discriminate|].
  destruct (v =? x).
  - inversion E; subst. exists [], (k, x), c'. auto.
  - destruct (qc_remove_first v c) as [r'|]; [|discriminate]. inversion E; subst.
    destruct (IH r' eq_refl) as [c1 [kv [c2 [E1 E2]]]]. exists ((k, x) :: c1), kv, c2. subst. auto.
Qed.

Lemma refines_remove v d : DInv d -> refines d (ORemove v).
Proof.
  intros I. pose proof I as [W _]. unfold refines. cbn [dq_step ldq_step absd l_items]. unfold dq_remove.
  rewrite bridge_deque_remove_reverse, bridge_deque_remove_exn. cbn [qc_iterkeys].
  pose proof (remove_walk_suffix v (dq_cache d) [] W) as R. cbn [app] in R. rewrite R.
  pose proof (qc_remove_first_view v (dq_cache d)) as V. fold (view d) in V.
  destruct (qc_remove_first v (dq_cache d)) as [c'|] eqn:E.
  - rewrite V. destruct (qc_remove_first_split _ _ _ E) as [c1 [kv [c2 [E1 E2]]]]. split.
    + apply DInv_shrink; auto.
      * subst c'. eapply qwf_remove_mid. rewrite <- E1. exact W.
      * rewrite E1, E2, !app_length. cbn. lia.
    + f_equal.
  - rewrite V. auto.
Qed.

(* ---- clear ---- *)

Lemma dq_clear_eq d : dq_clear d = with_cache d [].
Proof. unfold dq_clear. rewrite bridge_deque_clear_call. reflexivity. Qed.

Lemma DInv_clear d : DInv d -> DInv (with_cache d []).
Proof. intros I. apply DInv_shrink; auto using qwf_nil. cbn. lia. Qed.

Lemma refines_clear d : DInv d -> refines d OClear.
Proof.
  intros I. unfold refines. cbn [dq_step ldq_step]. rewrite dq_clear_eq. split; [apply DInv_clear, I|reflexivity].
Qed.

(* ---- the maxlen setter ---- *)

Lemma trim_loop_spec fuel : forall d m,
  dq_maxlen d = Some m -> 0 <= m -> qwf (dq_cache d) -> (length (dq_cache d) < fuel)%nat ->
  exists d', trim_loop fuel d = Some d' /\ dq_maxlen d' = Some m /\ qwf (dq_cache d') /\ dq_len d' <= m /\
  view d' = drop (length (view d) - Z.to_nat m) (view d).
Proof.
  induction fuel as [|fuel IH]; intros d m Em M0 W F; [lia|].
  cbn [trim_loop]. rewrite (bridge_deque_setmaxlen_guard (dq_len d)), Em, bridge_deque_setmaxlen_trim.
  cbn [dq_mref_pop].
  destruct (dq_len d >? m) eqn:G.
  - assert (G' : dq_len d > m) by zbool.
    destruct (dq_cache d) as [|[k v] r] eqn:E; [unfold dq_len, qc_len in G'; rewrite E in G'; cbn in G'; lia|].
    rewrite (dq_popleft_cons d k v r E). cbn [fst].
    destruct (IH (with_cache d r) m) as [d' [T [M' [W' [L' V']]]]]; auto.
    + cbn [dq_cache with_cache]. apply (qwf_app_inv [(k, v)] r), W.
    + cbn [dq_cache with_cache]. cbn in F. lia.
    + exists d'. repeat split; auto. rewrite V', view_with_cache. unfold view. rewrite E.
      change (qc_view ((k, v) :: r)) with (v :: qc_view r). cbn [length]. rewrite qc_view_length.
      assert (G2 : Z.of_nat (S (length r)) > m) by (unfold dq_len, qc_len in G'; rewrite E in G'; exact G').
      replace (S (length r) - Z.to_nat m)%nat with (S (length r - Z.to_nat m)) by lia. reflexivity.
  - assert (G' : dq_len d <= m) by zbool. exists d. repeat split; auto.
    rewrite dq_len_view in G'. replace (length (view d) - Z.to_nat m)%nat with O by lia. reflexivity.
Qed.

Lemma refines_set_maxlen m d : DInv d -> refines d (OSetMaxlen m).
Proof.
  intros [W M]. unfold refines. cbn [dq_step ldq_step absd l_items]. unfold dq_set_maxlen.
  set (d1 := {| dq_cache := dq_cache d; dq_maxlen := Some (Z.of_nat m) |}).
  destruct (trim_loop_spec (S (length (dq_cache d))) d1 (Z.of_nat m)) as [d' [T [M' [W' [L' V']]]]]; auto; try lia.
  rewrite T. split.
  - split; [exact W'|]. rewrite M'. split; [lia|exact L'].
  - f_equal. unfold absd. rewrite M', V'. cbn [option_map l_trim_left]. rewrite Nat2Z.id. reflexivity.
Qed.

(* ---- reverse ---- *)

Lemma fold_append_none vs : forall acc : list val, fold_left (l_append None) vs acc = acc ++ vs.
Proof.
  induction vs as [|v vs IH]; intros acc; cbn [fold_left]; [rewrite app_nil_r; reflexivity|].
  rewrite IH. unfold l_append. cbn. rewrite <- app_assoc. reflexivity.
Qed.

Lemma fold_append_fits m vs : forall acc : list val, (length acc + length vs <= m)%nat ->
  fold_left (l_append (Some m)) vs acc = acc ++ vs.
Proof.
  induction vs as [|v vs IH]; intros acc L; cbn [fold_left]; [rewrite app_nil_r; reflexivity|].
  cbn [length] in L. unfold l_append at 2. rewrite trim_left_fits by (rewrite app_length; cbn; lia).
  rewrite IH by (rewrite app_length; cbn; lia). rewrite <- app_assoc. reflexivity.
Qed.

Lemma dq_new_none vs : DInv (dq_new None vs) /\ view (dq_new None vs) = vs.
Proof.
  unfold dq_new. rewrite bridge_deque_init_maxlen.
  set (d0 := {| dq_cache := []; dq_maxlen := None |}).
  assert (I0 : DInv d0) by (split; [exact qwf_nil|exact I]).
  destruct (extend_core vs d0 I0) as [I1 [M1 V1]]. split; [exact I1|]. rewrite V1. cbn [d0 dq_maxlen option_map].
  rewrite fold_append_none. reflexivity.
Qed.

Lemma refines_reverse d : DInv d -> refines d OReverse.
Proof.
  intros I. pose proof I as [W M]. unfold refines. cbn [dq_step ldq_step absd l_items]. unfold dq_reverse.
  rewrite bridge_deque_reverse_source. cbn [dq_source]. rewrite dq_reversed_view by exact W.
  destruct (dq_new_none (rev (view d))) as [[Wt _] Vt]. rewrite dq_iter_view by exact Wt. rewrite Vt.
  rewrite dq_clear_eq. destruct (extend_core (rev (view d)) _ (DInv_clear d I)) as [I1 [M1 V1]].
  split; [exact I1|]. f_equal. symmetry. apply absd_eq; [exact M1|]. rewrite V1.
  cbn [dq_maxlen with_cache]. rewrite view_with_cache. cbn [qc_view map].
  destruct (dq_maxlen d) as [m|]; cbn [option_map].
  - destruct M as [M0 M1']. rewrite dq_len_view in M1'. apply fold_append_fits. rewrite rev_length. cbn. lia.
  - apply fold_append_none.
Qed.

(* ---- rotate ---- *)

Lemma rotate_right_loop n : forall d, DInv d -> (n <= length (view d))%nat ->
  let d' := rotate_loop n MR_pop MR_appendleft d in
  DInv d' /\ dq_maxlen d' = dq_maxlen d /\ view d' = iter n rotr1 (view d).
Proof.
  induction n as [|n IH]; intros d I L; cbn [rotate_loop iter]; [auto|].
  cbn [dq_mref_pop dq_mref_push].
  destruct (rev_cases (dq_cache d)) as [E|[c' [[k v] E]]].
  - unfold view in L. rewrite E in L. cbn in L. lia.
  - rewrite (dq_pop_snoc d c' k v E).
    assert (Vd : view d = qc_view c' ++ [v]) by (unfold view; rewrite E, qc_view_app; reflexivity).
    assert (I1 : DInv (with_cache d c')).
    { apply DInv_shrink; auto.
      - destruct I as [W _]. rewrite E in W. apply (qwf_app_inv c' [(k, v)]), W.
      - rewrite E, app_length. lia. }
    destruct (appendleft_core v _ I1) as [I2 [M2 V2]]. cbn [dq_maxlen with_cache] in M2, V2.
    rewrite view_with_cache in V2.
    assert (V2' : view (dq_appendleft v (with_cache d c')) = v :: qc_view c').
    { rewrite V2. unfold l_appendleft. destruct (dq_maxlen d) as [m|] eqn:Em; cbn [option_map]; [|reflexivity].
      apply trim_right_fits. destruct I as [_ M]. rewrite Em in M. destruct M as [M0 M1].
      rewrite dq_len_view, Vd, app_length in M1. cbn in *. lia. }
    destruct (IH _ I2) as [I3 [M3 V3]].
    + rewrite V2'. rewrite Vd, app_length in L. cbn in *. lia.
    + split; [exact I3|]. split; [congruence|]. rewrite V3, V2', Vd, rotr1_snoc. reflexivity.
Qed.

Lemma rotate_left_loop n : forall d, DInv d -> (n <= length (view d))%nat ->
  let d' := rotate_loop n MR_popleft MR_append d in
  DInv d' /\ dq_maxlen d' = dq_maxlen d /\ view d' = iter n rotl1 (view d).
Proof.
  induction n as [|n IH]; intros d I L; cbn [rotate_loop iter]; [auto|].
  cbn [dq_mref_pop dq_mref_push].
  destruct (dq_cache d) as [|[k v] r] eqn:E.
  - unfold view in L. rewrite E in L. cbn in L. lia.
  - rewrite (dq_popleft_cons d k v r E).
    assert (Vd : view d = v :: qc_view r) by (unfold view; rewrite E; reflexivity).
    assert (I1 : DInv (with_cache d r)).
    { apply DInv_shrink; auto.
      - destruct I as [W _]. rewrite E in W. apply (qwf_app_inv [(k, v)] r), W.
      - rewrite E. cbn. lia. }
    destruct (append_core v _ I1) as [I2 [M2 V2]]. cbn [dq_maxlen with_cache] in M2, V2.
    rewrite view_with_cache in V2.
    assert (V2' : view (dq_append v (with_cache d r)) = qc_view r ++ [v]).
    { rewrite V2. unfold l_append. destruct (dq_maxlen d) as [m|] eqn:Em; cbn [option_map]; [|reflexivity].
      apply trim_left_fits. destruct I as [_ M]. rewrite Em in M. destruct M as [M0 M1].
      rewrite dq_len_view, Vd in M1. rewrite app_length. cbn in *. lia. }
    destruct (IH _ I2) as [I3 [M3 V3]].
    + rewrite V2', app_length. rewrite Vd in L. cbn in *. lia.
    + split; [exact I3|]. split; [congruence|]. rewrite V3, V2', Vd. reflexivity.
Qed.

Lemma refines_rotate n d : DInv d -> refines d (ORotate n).
Proof.
  intros I. unfold refines. cbn [dq_step ldq_step absd l_items]. unfold dq_rotate.
  bridge_tuple bridge_deque_rotate_mrefs.
  rewrite (bridge_deque_rotate_empty (dq_len d)), (bridge_deque_rotate_nonneg n), bridge_deque_rotate_neg_factor.
  replace deque_rotate_right_pop with MR_pop by congruence.
  replace deque_rotate_right_push with MR_appendleft by congruence.
  replace deque_rotate_left_pop with MR_popleft by congruence.
  replace deque_rotate_left_push with MR_append by congruence.
  rewrite dq_len_view.
  destruct (view d) as [|x l] eqn:Ev.
  - cbn. split; [exact I|]. f_equal. symmetry. apply absd_eq; auto.
  - replace (Z.of_nat (length (x :: l)) =? 0) with false by (cbn [length]; zbool).
    set (len := length (x :: l)). assert (Lp : 0 < Z.of_nat len) by (unfold len; cbn [length]; lia).
    cbn [l_rotate]. fold len.
    destruct (n >=? 0) eqn:G.
    + pose proof (Z.mod_pos_bound n (Z.of_nat len) Lp) as Bd.
      destruct (rotate_right_loop (Z.to_nat (n mod Z.of_nat len)) d I) as [I1 [M1 V1]].
      { rewrite Ev. fold len. lia. }
      split; [exact I1|]. f_equal. symmetry. apply absd_eq; [exact M1|].
      rewrite V1, Ev, iter_rotr by (fold len; lia). reflexivity.
    + replace (n * -1) with (- n) by lia.
      pose proof (Z.mod_pos_bound (- n) (Z.of_nat len) Lp) as Bd.
      destruct (rotate_left_loop (Z.to_nat ((- n) mod Z.of_nat len)) d I) as [I1 [M1 V1]].
      { rewrite Ev. fold len. lia. }
      split; [exact I1|]. f_equal. symmetry. apply absd_eq; [exact M1|].
      rewrite V1, Ev, iter_rotl by (fold len; lia). reflexivity.
Qed.

(* ================================================================================================ *)
(* the theorems of C11                                                                               *)

Theorem deque_refines : forall d o, DInv d ->
  let '(d', r) := dq_step d o in DInv d' /\ ldq_step (absd d) o = (absd d', r).
Proof.
  intros d o I. change (refines d o). destruct o.
  - apply refines_append, I.
  - apply refines_appendleft, I.
  - apply refines_extend, I.
  - apply refines_extendleft, I.
  - apply refines_extend, I.
  - apply refines_pop, I.
  - apply refines_popleft, I.
  - apply refines_peek, I.
  - apply refines_peekleft, I.
  - apply refines_get, I.
  - apply refines_set, I.
  - apply refines_del, I.
  - apply refines_rotate, I.
  - apply refines_reverse, I.
  - apply refines_remove, I.
  - apply refines_observers, I.
  - apply refines_compare, I.
  - apply refines_observers, I.
  - apply refines_observers, I.
  - apply refines_observers, I.
  - apply refines_clear, I.
  - apply refines_set_maxlen, I.
Qed.

(* a freshly constructed Deque satisfies the invariant, whatever the initial iterable *)
Lemma DInv_new m vs : DInv (dq_new (option_map Z.of_nat m) vs).
Proof.
  unfold dq_new. rewrite bridge_deque_init_maxlen. apply extend_core. split; [exact qwf_nil|].
  cbn [dq_maxlen]. destruct m as [m|]; cbn [option_map]; [|exact I]. unfold dq_len, qc_len. cbn. lia.
Qed.

(* ops issued through one handle keep length <= maxlen: histories of any length *)
Fixpoint dq_run (d : deque) (os : list dq_op) : deque :=
  match os with [] => d | o :: r => dq_run (fst (dq_step d o)) r end.

Lemma DInv_run os : forall d, DInv d -> DInv (dq_run d os).
Proof.
  induction os as [|o os IH]; intros d I; cbn [dq_run]; [exact I|].
  apply IH. pose proof (deque_refines d o I) as R. destruct (dq_step d o). apply R.
Qed.

Theorem deque_len_le_maxlen : forall m vs os d',
  d' = dq_run (dq_new (option_map Z.of_nat m) vs) os ->
  match dq_maxlen d' with Some b => Z.of_nat (length (view d')) <= b | None => True end.
Proof.
  intros m vs os d' ->. pose proof (DInv_run os _ (DInv_new m vs)) as [_ M].
  destruct (dq_maxlen _) as [b|]; [|exact I]. rewrite <- dq_len_view. apply M.
Qed.

(* whole histories: the model run and the list run agree on every result and every intermediate content *)
Fixpoint dq_results (d : deque) (os : list dq_op) : list (res * list val) :=
  match os with [] => [] | o :: r => let '(d', x) := dq_step d o in (x, view d') :: dq_results d' r end.
Fixpoint ldq_results (s : ldq) (os : list dq_op) : list (res * list val) :=
  match os with [] => [] | o :: r => let '(s', x) := ldq_step s o in (x, l_items s') :: ldq_results s' r end.

Theorem deque_history_refines : forall os d, DInv d -> dq_results d os = ldq_results (absd d) os.
Proof.
  induction os as [|o os IH]; intros d I; cbn [dq_results ldq_results]; [reflexivity|].
  pose proof (deque_refines d o I) as R. destruct (dq_step d o) as [d' x]. destruct R as [I' R]. rewrite R.
  cbn [absd l_items]. f_equal. apply IH, I'.
Qed.

(* persistence: a handle obtained by reopening the directory, copying or unpickling sees the same
   sequence; maxlen travels with copy() and in the pickle *)
Theorem deque_persistent : forall d,
  (forall m, view (dq_reopen m d) = view d /\ dq_maxlen (dq_reopen m d) = m) /\
  (view (dq_copy d) = view d /\ dq_maxlen (dq_copy d) = dq_maxlen d) /\
  (view (dq_unpickle_pickle d) = view d /\ dq_maxlen (dq_unpickle_pickle d) = dq_maxlen d).
Proof.
  intros d. unfold dq_reopen, dq_copy, dq_unpickle_pickle, dq_carry.
  rewrite bridge_deque_copy_args, bridge_deque_getstate. cbn [has_field existsb orb].
  repeat split; cbn [dq_maxlen]; try apply bridge_deque_init_maxlen;
    destruct (dq_maxlen d); rewrite ?bridge_deque_init_maxlen; reflexivity.
Qed.

Lemma DInv_handles d : DInv d ->
  DInv (dq_copy d) /\ DInv (dq_unpickle_pickle d) /\ DInv (dq_reopen (dq_maxlen d) d).
Proof.
  intros [W M]. unfold dq_reopen, dq_copy, dq_unpickle_pickle, dq_carry, DInv, dq_len.
  rewrite bridge_deque_copy_args, bridge_deque_getstate. cbn [has_field existsb orb dq_cache dq_maxlen].
  rewrite bridge_deque_init_maxlen.
  destruct (dq_maxlen d); rewrite ?bridge_deque_init_maxlen; auto.
Qed.

(* never loses: Deque builds its cache with eviction_policy='none' and passes no expiry (the delegated
   calls are pinned by the bridge lemmas), and at the level of the sequence only pop / popleft /
   del d[i] / remove / clear / the maxlen bound remove anything *)
Definition removing (o : dq_op) : bool :=
  match o with OPop | OPopLeft | ODel _ | ORemove _ | OClear | OSetMaxlen _ => true | _ => false end.

Lemma In_drop_take {A} k (l : list A) x : In x l -> In x (drop k l ++ take k l).
Proof.
  intros H. rewrite <- (take_drop k l) in H. apply in_app_or in H. apply in_or_app. tauto.
Qed.

Lemma fold_append_none_in vs (acc : list val) x : In x acc -> In x (fold_left (l_append None) vs acc).
Proof. rewrite fold_append_none. intros H. apply in_or_app. auto. Qed.

Lemma fold_appendleft_none_in vs : forall (acc : list val) x, In x acc -> In x (fold_left (l_appendleft None) vs acc).
Proof. induction vs as [|v vs IH]; intros acc x H; cbn [fold_left]; auto. apply IH. right. exact H. Qed.

Lemma fold_appendleft_none_length vs : forall (acc : list val),
  length (fold_left (l_appendleft None) vs acc) = (length acc + length vs)%nat.
Proof. induction vs as [|v vs IH]; intros acc; cbn [fold_left length]; [lia|]. rewrite IH. cbn. lia. Qed.

Lemma l_set_nth_length n v (l : list val) : length (l_set_nth n v l) = length l.
Proof. revert n; induction l as [|x l IH]; intros [|n]; cbn; auto. Qed.

Theorem deque_never_loses : forall d o, DInv d -> dq_maxlen d = None -> removing o = false ->
  deque_init_policy = PolNone /\
  let d' := fst (dq_step d o) in
  (length (view d) <= length (view d'))%nat /\
  (match o with OSet _ _ => True | _ => forall x, In x (view d) -> In x (view d') end).
Proof.
  intros d o I M R. split; [exact bridge_deque_init_policy|].
  pose proof (deque_refines d o I) as F. destruct (dq_step d o) as [d' r]. destruct F as [_ F]. cbn [fst].
  assert (V : view d' = l_items (fst (ldq_step (absd d) o))) by (rewrite F; reflexivity).
  rewrite V. clear F V. unfold absd. rewrite M. cbn [option_map].
  destruct o; try discriminate R; cbn [ldq_step l_items l_maxlen fst ldq_with].
  - unfold l_append. cbn. rewrite app_length. split; [lia|]. intros x H. apply in_or_app. auto.
  - cbn. split; [lia|]. auto.
  - rewrite fold_append_none, app_length. split; [lia|]. intros x H. apply in_or_app. auto.
  - rewrite fold_appendleft_none_length. split; [lia|]. apply fold_appendleft_none_in.
  - rewrite fold_append_none, app_length. split; [lia|]. intros x H. apply in_or_app. auto.
  - destruct (rev (view d)); cbn; auto.
  - destruct (view d); cbn; auto.
  - destruct (l_norm_index i (length (view d))); cbn; auto.
  - destruct (l_norm_index i (length (view d))); cbn [fst l_items ldq_with]; [|auto].
    rewrite l_set_nth_length. auto.
  - split.
    + unfold l_rotate. destruct (view d) as [|y l] eqn:E; [cbn; lia|]. rewrite <- E.
      destruct (n >=? 0); rewrite app_length, drop_length, length_take; lia.
    + intros x H. unfold l_rotate. destruct (view d) as [|y l] eqn:E; [destruct H|]. rewrite <- E in *.
      destruct (n >=? 0); apply In_drop_take, H.
  - rewrite rev_length. split; [lia|]. intros x H. apply in_rev in H. exact H.
  - split; auto.
  - split; auto.
  - split; auto.
  - split; auto.
  - split; auto.
Qed.

(* the same with multiplicities: every value occurs afterwards at least as often as before *)
Lemma count_occ_rev' (l : list Z) x : count_occ Z.eq_dec (rev l) x = count_occ Z.eq_dec l x.
Proof.
  induction l as [|y l IH]; [reflexivity|]. cbn [rev]. rewrite count_occ_app, IH. cbn.
  destruct (Z.eq_dec y x); lia.
Qed.

Lemma count_occ_drop_take k (l : list Z) x :
  count_occ Z.eq_dec (drop k l ++ take k l) x = count_occ Z.eq_dec l x.
Proof. rewrite <- (take_drop k l) at 3. rewrite !count_occ_app. lia. Qed.

Lemma count_fold_appendleft_none vs : forall (acc : list Z) x,
  (count_occ Z.eq_dec acc x <= count_occ Z.eq_dec (fold_left (l_appendleft None) vs acc) x)%nat.
Proof.
  induction vs as [|v vs IH]; intros acc x; cbn [fold_left]; [lia|].
  eapply Nat.le_trans; [|apply IH]. unfold l_appendleft, l_trim_right. cbn [count_occ]. unfold val in *. destruct (Z.eq_dec v x); lia.
Qed.

Theorem deque_never_loses_multiset : forall d o, DInv d -> dq_maxlen d = None -> removing o = false ->
  match o with
  | OSet _ _ => True
  | _ => forall x, (count_occ Z.eq_dec (view d) x <= count_occ Z.eq_dec (view (fst (dq_step d o))) x)%nat
  end.
Proof.
  intros d o I M R.
  pose proof (deque_refines d o I) as F. destruct (dq_step d o) as [d' r]. destruct F as [_ F]. cbn [fst].
  assert (V : view d' = l_items (fst (ldq_step (absd d) o))) by (rewrite F; reflexivity).
  rewrite V. clear F V. unfold absd. rewrite M. cbn [option_map].
  destruct o; try discriminate R; try exact Logic.I; intros x; cbn [ldq_step l_items l_maxlen fst ldq_with]; try (unfold val in *; lia).
  - unfold l_append, l_trim_left. rewrite count_occ_app. (unfold val in *; lia).
  - unfold l_appendleft, l_trim_right. cbn [count_occ]. destruct (Z.eq_dec v x); (unfold val in *; lia).
  - rewrite fold_append_none, count_occ_app. (unfold val in *; lia).
  - apply count_fold_appendleft_none.
  - rewrite fold_append_none, count_occ_app. (unfold val in *; lia).
  - destruct (rev (view d)); cbn [fst l_items]; (unfold val in *; lia).
  - destruct (view d); cbn [fst l_items]; (unfold val in *; lia).
  - destruct (l_norm_index i (length (view d))); cbn [fst l_items]; (unfold val in *; lia).
  - unfold l_rotate. destruct (view d) as [|y l] eqn:E; [cbn; (unfold val in *; lia)|]. rewrite <- E.
    destruct (n >=? 0); rewrite count_occ_drop_take; (unfold val in *; lia).
  - rewrite count_occ_rev'. (unfold val in *; lia).
Qed.

(* the hypotheses of the theorems above are satisfiable *)
Example DInv_example :
  DInv (dq_new (Some 3) [1; 2; 3; 4]) /\ view (dq_new (Some 3) [1; 2; 3; 4]) = [2; 3; 4] /\
  DInv (dq_new None [1; 2]) /\ dq_maxlen (dq_new None [1; 2]) = None /\ removing (ORotate 5) = false.
Proof.
  split; [apply (DInv_new (Some 3%nat))|]. split; [vm_compute; reflexivity|].
  split; [apply (DInv_new None)|]. split; vm_compute; reflexivity.
Qed.
