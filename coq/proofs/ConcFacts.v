(* Invariants of the micro-step machine for every number of clients, every program, every schedule,
   with kills as steps (C05, C07, C14; the block clauses of C06).  Induction over schedules. *)
From DC Require Import DCPrelude Conc.

Section Facts.
  Variables (D R : Type).
  Variable refs : D -> list Z.          (* value files referenced by the rows of a database state *)
  Variable Dinv : D -> Prop.            (* database-level invariant that bodies preserve *)

  Notation wop := (wop D R).
  Notation pc := (pc D R).
  Notation config := (config D R).
  Notation body_out := (body_out D R).

  Definition optl (f : option Z) : list Z := match f with Some g => [g] | None => [] end.

  (* what the proofs need from a transaction body (discharged for the bodies of model/Txn.v) *)
  Definition body_ok (w : wop) : Prop :=
    forall d f, Dinv d -> (forall g, f = Some g -> ~ In g (refs d)) -> (w_store w = false -> f = None) ->
      let o := w_body w d f in
      Dinv (bo_db o) /\
      (forall g, In g (refs (bo_db o)) -> In g (refs d) \/ f = Some g) /\
      (forall g, In g (bo_cleanup o ++ optl (bo_fetch o)) -> (In g (refs d) \/ f = Some g) /\ ~ In g (refs (bo_db o))) /\
      NoDup (bo_cleanup o ++ optl (bo_fetch o)) /\
      bo_early o = [] /\
      (bo_ok o = true -> forall g, f = Some g -> In g (refs (bo_db o)) \/ In g (bo_cleanup o)).

  (* a lookup opens only files that the row it selected refers to *)
  Definition rop_ok (r : rop D R) : Prop := forall d f h m, r_select r d = SelFile f h m -> In f (refs d).
  Definition op_ok (o : op D R) : Prop := match o with OWrite w => body_ok w | ORead r => rop_ok r end.

  (* files a client is responsible for, by stage *)
  Definition owned (p : pc) : list Z :=
    match p with
    | Storing _ f => [f]
    | AtBegin _ f => optl f
    | InTxn _ f => optl f
    | Early _ f _ _ => optl f
    | AtCommit _ f _ => optl f
    | Cleaning l fe _ => l ++ optl fe
    | Fetching f _ => [f]
    | FetchRm f _ => [f]
    | TimeoutRm f => optl f
    | _ => []
    end.

  Definition pc_wop (p : pc) : option wop :=
    match p with
    | Storing w _ | AtBegin w _ | InTxn w _ | Early w _ _ _ | AtCommit w _ _ => Some w
    | _ => None
    end.

  Definition in_txn (p : pc) : bool :=
    match p with InTxn _ _ | Early _ _ _ _ | AtCommit _ _ _ => true | _ => false end.

  (* the stored file of a call that has finished writing it *)
  Definition stored_done (p : pc) : list Z :=
    match p with
    | AtBegin _ f | InTxn _ f | Early _ f _ _ | AtCommit _ f _ => optl f
    | _ => []
    end.

  Definition store_flag_ok (p : pc) : Prop :=
    match p with
    | Storing w _ => w_store w = true
    | AtBegin w f | InTxn w f | Early w f _ _ | AtCommit w f _ => w_store w = false -> f = None
    | _ => True
    end.

  Lemma stored_done_owned p g : In g (stored_done p) -> In g (owned p).
  Proof. destruct p; cbn; auto; try contradiction. Qed.

  (* what a stage knows about the files it names without owning them: the file being written is partial; a lookup
     that is about to open a file never finds a partially written one (C05_no_partial_read); the file a lookup could
     not open is gone for good (below the fresh-name supply and absent: names are never reused), so the file named
     by the row it selects afterwards is a different one *)
  Definition read_ok (sup : Z) (fl : Z -> fstate) (p : pc) : Prop :=
    match p with
    | Storing _ f => fl f = FPartial
    | ReadOpen r mo f _ _ => rop_ok r /\ f < sup /\ fl f <> FPartial /\ same_file mo f = false /\
                             (forall g, mo = Some g -> g < sup /\ fl g = FNone)
    | ReadAgain r g => rop_ok r /\ g < sup /\ fl g = FNone
    | _ => True
    end.

  (* what a stage knows about files survives the moves of the other clients *)
  Lemma read_ok_frame sup sup' (fl fl' : Z -> fstate) p :
    sup <= sup' ->
    (forall g, g < sup -> fl' g = FPartial -> fl g = FPartial) ->
    (forall g, g < sup -> fl g = FNone -> fl' g = FNone) ->
    (forall g, In g (owned p) -> fl' g = fl g) ->
    read_ok sup fl p -> read_ok sup' fl' p.
  Proof.
    intros Hs Hpart Hnone Hown. destruct p; cbn; auto.
    - intros E. rewrite Hown; [exact E|left; reflexivity].
    - intros [Hr [Lt [Np [Sf Hm]]]]. split; [exact Hr|]. split; [lia|]. split; [intros P; apply Np, Hpart; assumption|].
      split; [exact Sf|]. intros g Eg. destruct (Hm g Eg) as [Lg Ng]. split; [lia|auto].
    - intros [Hr [Lt Ng]]. split; [exact Hr|]. split; [lia|auto].
  Qed.

  Record Inv (c : config) : Prop := {
    i_dinv : Dinv (db c);
    i_ref : forall g, In g (refs (db c)) -> files c g = FDone;                      (* C05_ref_inv *)
    i_ref_lt : forall g, In g (refs (db c)) -> g < supply c;
    i_fresh : forall g, supply c <= g -> files c g = FNone;
    i_own_lt : forall i g, In g (owned (c_pc (cl c i))) -> g < supply c;
    i_own_unref : forall i g, In g (owned (c_pc (cl c i))) -> ~ In g (refs (db c));
    i_own_nodup : forall i, NoDup (owned (c_pc (cl c i)));
    i_own_disj : forall i j g, i <> j -> In g (owned (c_pc (cl c i))) -> ~ In g (owned (c_pc (cl c j)));
    i_stored : forall i g, In g (stored_done (c_pc (cl c i))) -> files c g = FDone;
    i_wops : forall i, (forall w, pc_wop (c_pc (cl c i)) = Some w -> body_ok w) /\ Forall op_ok (c_todo (cl c i));
    i_store_flag : forall i, store_flag_ok (c_pc (cl c i));
    i_read : forall i, read_ok (supply c) (files c) (c_pc (cl c i));
    (* the lock and the transaction stages *)
    i_lock_none : lock c = None -> forall i, in_txn (c_pc (cl c i)) = false;
    i_lock_some : forall j wk, lock c = Some (j, wk) ->
        in_txn (c_pc (cl c j)) = true /\
        (forall i, i <> j -> in_txn (c_pc (cl c i)) = false) /\
        match c_pc (cl c j) with
        | InTxn w f => wk = db c
        | Early w f o l => wk = bo_db o /\ o = w_body w (db c) f /\ l = []
        | AtCommit w f o => wk = bo_db o /\ o = w_body w (db c) f
        | _ => False
        end
  }.

  (* ---- small facts about function update ---- *)
  Lemma upd_cl_same (c : config) i x : upd_cl c i x i = x.
  Proof. unfold upd_cl. rewrite Nat.eqb_refl. reflexivity. Qed.
  Lemma upd_cl_other (c : config) i x j : j <> i -> upd_cl c i x j = cl c j.
  Proof. unfold upd_cl. intros H. apply Nat.eqb_neq in H. rewrite H. reflexivity. Qed.
  Lemma upd_file_same (c : config) f s : upd_file c f s f = s.
  Proof. unfold upd_file. rewrite Z.eqb_refl. reflexivity. Qed.
  Lemma upd_file_other (c : config) f s g : g <> f -> upd_file c f s g = files c g.
  Proof. unfold upd_file. intros H. apply Z.eqb_neq in H. rewrite H. reflexivity. Qed.

  Lemma in_optl f g : In g (optl f) <-> f = Some g.
  Proof. destruct f; cbn; [split; [intros [->|[]]; reflexivity | intros E; inversion E; auto] | split; [intros []|discriminate]]. Qed.

  (* generic way to re-establish the per-client clauses after client i moved to pc p' *)
  Ltac cases_ij i j := destruct (Nat.eq_dec j i) as [->|?]; [rewrite ?upd_cl_same in * | rewrite ?upd_cl_other in * by assumption].

  (* ---- initial configuration ---- *)
  Lemma inv_init d progs : Dinv d -> refs d = [] -> (forall i, Forall op_ok (progs i)) -> Inv (init_config d progs).
  Proof.
    intros Hd Hr Hp. split; cbn; try rewrite Hr; try (intros; contradiction); auto.
    - constructor.
    - intros i. split; [discriminate | apply Hp].
    - discriminate.
  Qed.

  (* ---- preservation by a kill ---- *)
  Lemma inv_crash c i : Inv c -> Inv (crash c i).
  Proof.
    intros H. destruct H. unfold crash. split; cbn; auto.
    - intros j g. cases_ij i j; cbn; [contradiction|eauto].
    - intros j g. cases_ij i j; cbn; [contradiction|eauto].
    - intros j. cases_ij i j; cbn; [constructor|eauto].
    - intros j k g Hjk. cases_ij i j; cbn; [contradiction|]. cases_ij i k; cbn; [auto|eauto].
    - intros j g. cases_ij i j; cbn; [contradiction|eauto].
    - intros j. cases_ij i j; cbn; [split; [discriminate|constructor]|eauto].
    - intros j. cases_ij i j; cbn; [exact I|eauto].
    - intros j. cases_ij i j; cbn; [exact I|eauto].
    - intros Hl j. cases_ij i j; cbn; [reflexivity|].
      unfold holds in Hl. destruct (lock c) as [[k wk]|] eqn:L.
      + destruct (Nat.eqb k i) eqn:E; [|discriminate]. apply Nat.eqb_eq in E. subst k.
        destruct (i_lock_some0 i wk eq_refl) as [_ [Ho _]]. apply Ho. assumption.
      + apply i_lock_none0. reflexivity.
    - intros j wk Hl. unfold holds in Hl. destruct (lock c) as [[k wk']|] eqn:L; [|discriminate].
      destruct (Nat.eqb k i) eqn:E; [discriminate|]. inversion Hl; subst. apply Nat.eqb_neq in E.
      destruct (i_lock_some0 j wk eq_refl) as [Ht [Ho Hm]].
      rewrite upd_cl_other by assumption. split; [exact Ht|]. split; [|exact Hm].
      intros k Hk. cases_ij i k; cbn; [reflexivity|auto].
  Qed.

  (* ---- frame lemma: client i moves outside the transaction stages; db and lock untouched ---- *)
  Lemma inv_frame c i x' files' supply' :
    Inv c ->
    in_txn (c_pc (cl c i)) = false -> in_txn (c_pc x') = false ->
    (forall g, In g (refs (db c)) -> files' g = FDone) ->
    supply c <= supply' -> (forall g, supply' <= g -> files' g = FNone) ->
    (forall j g, j <> i -> In g (stored_done (c_pc (cl c j))) -> files' g = FDone) ->
    (forall g, In g (owned (c_pc x')) -> g < supply' /\ ~ In g (refs (db c)) /\
                                        forall j, j <> i -> ~ In g (owned (c_pc (cl c j)))) ->
    NoDup (owned (c_pc x')) ->
    (forall g, In g (stored_done (c_pc x')) -> files' g = FDone) ->
    (forall w, pc_wop (c_pc x') = Some w -> body_ok w) -> Forall op_ok (c_todo x') ->
    store_flag_ok (c_pc x') ->
    (forall g, g < supply c -> files' g = FPartial -> files c g = FPartial) ->
    (forall g, g < supply c -> files c g = FNone -> files' g = FNone) ->
    (forall j g, j <> i -> In g (owned (c_pc (cl c j))) -> files' g = files c g) ->
    read_ok supply' files' (c_pc x') ->
    Inv {| db := db c; lock := lock c; files := files'; supply := supply'; cl := upd_cl c i x'; commits := commits c |}.
  Proof.
    intros H Told Tnew Fref Hs Hfresh Fst Hown Hnd Hsd Hw Ht Hflag Hpart Hnone Hoth Hro. destruct H.
    split; cbn; auto.
    - intros g I. specialize (i_ref_lt0 g I). lia.
    - intros j g. cases_ij i j; [intros I; apply Hown, I | intros I; specialize (i_own_lt0 j g I); lia].
    - intros j g. cases_ij i j; [intros I; apply Hown, I | eauto].
    - intros j. cases_ij i j; [exact Hnd | eauto].
    - intros j k g Hjk. cases_ij i j.
      + rewrite upd_cl_other by auto. intros I. apply Hown; auto.
      + cases_ij i k; [|eauto]. intros I I'. destruct (Hown g I') as [_ [_ Hd]]. apply (Hd j); auto.
    - intros j g. cases_ij i j; [apply Hsd | apply Fst; assumption].
    - intros j. cases_ij i j; [split; assumption | eauto].
    - intros j. cases_ij i j; [exact Hflag | eauto].
    - intros j. cases_ij i j; [exact Hro|]. eapply read_ok_frame; eauto.
    - intros Hl j. cases_ij i j; [exact Tnew | eauto].
    - intros j wk Hl. destruct (i_lock_some0 j wk Hl) as [T [Ho Hm]].
      assert (Hji : j <> i) by (intros ->; congruence).
      rewrite upd_cl_other by assumption. split; [exact T|]. split; [|exact Hm].
      intros k Hk. cases_ij i k; [exact Tnew | auto].
  Qed.

  (* client i moves between stages outside the transaction, no file changes *)
  Lemma inv_move c i x' :
    Inv c ->
    in_txn (c_pc (cl c i)) = false -> in_txn (c_pc x') = false ->
    (forall g, In g (owned (c_pc x')) -> In g (owned (c_pc (cl c i)))) ->
    NoDup (owned (c_pc x')) ->
    (forall g, In g (stored_done (c_pc x')) -> In g (stored_done (c_pc (cl c i)))) ->
    (forall w, pc_wop (c_pc x') = Some w -> body_ok w) -> Forall op_ok (c_todo x') ->
    store_flag_ok (c_pc x') ->
    read_ok (supply c) (files c) (c_pc x') ->
    Inv (with_cl c i x').
  Proof.
    intros H Told Tnew Hsub Hnd Hsd Hw Ht Hflag Hro. pose proof H as H0. destruct H0. unfold with_cl.
    apply inv_frame; auto; try lia.
    - intros j g Hj I. eauto.
    - intros g I. split; [eauto|]. split; [eauto|]. intros j Hj. apply (i_own_disj0 i j); auto.
    - intros g I. eauto.
  Qed.

  (* client i removes a file it owns *)
  Lemma inv_remove c i x' g :
    Inv c ->
    in_txn (c_pc (cl c i)) = false -> in_txn (c_pc x') = false ->
    In g (owned (c_pc (cl c i))) ->
    (forall g', In g' (owned (c_pc x')) -> In g' (owned (c_pc (cl c i)))) ->
    NoDup (owned (c_pc x')) ->
    stored_done (c_pc x') = [] ->
    (forall w, pc_wop (c_pc x') = Some w -> body_ok w) -> Forall op_ok (c_todo x') ->
    store_flag_ok (c_pc x') ->
    (forall sup fl, read_ok sup fl (c_pc x')) ->
    Inv {| db := db c; lock := lock c; files := upd_file c g FNone; supply := supply c; cl := upd_cl c i x'; commits := commits c |}.
  Proof.
    intros H Told Tnew Og Hsub Hnd Hsd Hw Ht Hflag Hro. pose proof H as H0. destruct H0.
    apply inv_frame; auto; try lia.
    - intros g' I. rewrite upd_file_other; [auto|]. intros ->. eapply i_own_unref0; eauto.
    - intros g' Hg. rewrite upd_file_other; [auto|]. specialize (i_own_lt0 i g Og). lia.
    - intros j g' Hj I. rewrite upd_file_other; [eauto|]. intros ->.
      apply stored_done_owned in I. eapply (i_own_disj0 i j); eauto.
    - intros g' I. split; [eauto|]. split; [eauto|]. intros j Hj. apply (i_own_disj0 i j); auto.
    - rewrite Hsd. intros g' [].
    - intros g' Lt. unfold upd_file. destruct (g' =? g); [discriminate|auto].
    - intros g' Lt N. unfold upd_file. destruct (g' =? g); [reflexivity|exact N].
    - intros j g' Hj I. rewrite upd_file_other; [reflexivity|]. intros ->. eapply (i_own_disj0 i j); eauto.
  Qed.

  Lemma txn_holder c i : Inv c -> in_txn (c_pc (cl c i)) = true -> exists wk, lock c = Some (i, wk).
  Proof.
    intros H T. destruct (lock c) as [[j wk]|] eqn:L.
    - destruct (Nat.eq_dec i j) as [->|N]; [eauto|].
      destruct (i_lock_some c H j wk L) as [_ [Ho _]]. rewrite (Ho i N) in T. discriminate.
    - rewrite (i_lock_none c H L i) in T. discriminate.
  Qed.

  Lemma nodup_app_r {A} (a b : list A) : NoDup (a ++ b) -> NoDup b.
  Proof. induction a; cbn; auto. intros H. inversion H; auto. Qed.
  Lemma nodup_cons_tl {A} (x : A) l : NoDup (x :: l) -> NoDup l.
  Proof. intros H; inversion H; auto. Qed.

  Ltac side :=
    cbn; try assumption; try reflexivity; try discriminate; try solve [intros ? []]; try solve [constructor];
    try solve [repeat constructor; intros []]; try exact I; try solve [auto].

  (* ---- preservation by a micro-step ---- *)
  Theorem inv_step c i c' : Inv c -> cstep c i = Some c' -> Inv c'.
  Proof.
    intros H. pose proof H as H0. destruct H0.
    unfold cstep. remember (cl c i) as x eqn:Ex. destruct x as [p todo dn]. cbn [c_pc c_todo c_done].
    assert (Ep : c_pc (cl c i) = p) by (rewrite <- Ex; reflexivity).
    assert (Et : c_todo (cl c i) = todo) by (rewrite <- Ex; reflexivity).
    assert (Wt : Forall op_ok todo) by (rewrite <- Et; apply (i_wops0 i)).
    assert (Wp : forall w, pc_wop p = Some w -> body_ok w) by (rewrite <- Ep; apply (i_wops0 i)).
    assert (Nd : NoDup (owned p)) by (rewrite <- Ep; apply i_own_nodup0).
    assert (Sfl : store_flag_ok p) by (rewrite <- Ep; apply i_store_flag0).
    destruct p as [|w f|w f|w f|w f o l|w f o|l fe res|f r|f res|f|r mo f hit miss|r mo|].
    - (* Idle *)
      destruct todo as [|[w|r] rest]; [discriminate| |]; inversion Wt as [|? ? Hw Frest]; subst.
      + destruct (w_store w) eqn:Ws; intros E; inversion E; subst; clear E.
        * apply inv_frame; cbn; auto; try (rewrite Ep; reflexivity).
          -- intros g I. rewrite upd_file_other; [auto | specialize (i_ref_lt0 g I); lia].
          -- lia.
          -- intros g Hg. rewrite upd_file_other; [apply i_fresh0; lia | lia].
          -- intros j g Hj I. rewrite upd_file_other; [eauto|].
             apply stored_done_owned in I. specialize (i_own_lt0 j g I). lia.
          -- intros g [<-|[]]. split; [lia|]. split.
             ++ intros I. specialize (i_ref_lt0 _ I). lia.
             ++ intros j Hj I. specialize (i_own_lt0 j _ I). lia.
          -- repeat constructor. intros [].
          -- intros g [].
          -- intros w' E; inversion E; subst; exact Hw.
          -- intros g Lt. rewrite upd_file_other; [auto|lia].
          -- intros g Lt N. rewrite upd_file_other; [auto|lia].
          -- intros j g Hj I. rewrite upd_file_other; [reflexivity|]. specialize (i_own_lt0 j g I). lia.
          -- apply upd_file_same.
        * apply inv_move; auto; try (rewrite Ep; reflexivity); side.
          intros w' E; inversion E; subst; exact Hw.
      + intros E; inversion E; subst; clear E. unfold after_select.
        destruct (r_select r (db c)) as [res|res|f h m] eqn:Sel;
          (apply inv_move; auto; try (rewrite Ep; reflexivity); side).
        pose proof (Hw _ _ _ _ Sel) as If. split; [exact Hw|]. split; [auto|]. split; [rewrite (i_ref0 _ If); discriminate|].
        split; [reflexivity|discriminate].
    - (* Storing *)
      intros E; inversion E; subst; clear E.
      assert (Of : In f (owned (c_pc (cl c i)))) by (rewrite Ep; left; reflexivity).
      apply inv_frame; cbn; auto; try (rewrite Ep; reflexivity); try lia.
      + intros g I. destruct (Z.eq_dec g f) as [->|N]; [apply upd_file_same|rewrite upd_file_other; auto].
      + intros g Hg. rewrite upd_file_other; [auto|]. specialize (i_own_lt0 i f Of). lia.
      + intros j g Hj I. destruct (Z.eq_dec g f) as [->|N]; [apply upd_file_same|rewrite upd_file_other; eauto].
      + intros g [<-|[]]. split; [eauto|]. split; [eauto|]. intros j Hj. apply (i_own_disj0 i j); auto.
      + intros g [<-|[]]. apply upd_file_same.
      + cbn in Sfl. intros Hf. congruence.
      + intros g Lt. unfold upd_file. destruct (g =? f); [discriminate|auto].
      + intros g Lt N. rewrite upd_file_other; [exact N|]. intros ->.
        pose proof (i_read0 i) as Rd. rewrite Ep in Rd. cbn in Rd. congruence.
      + intros j g Hj I. rewrite upd_file_other; [reflexivity|]. intros ->. eapply (i_own_disj0 i j); eauto.
    - (* AtBegin *)
      destruct (lock c) as [[j wk]|] eqn:L.
      + destruct (w_retry w); intros E; inversion E; subst; clear E; [exact H|].
        apply inv_move; auto; try (rewrite Ep; reflexivity); side.
        rewrite Ep. auto.
      + intros E; inversion E; subst; clear E.
        split; cbn; auto.
        * intros j g. cases_ij i j; [cbn; intros I; apply (i_own_lt0 i); rewrite Ep; exact I | eauto].
        * intros j g. cases_ij i j; [cbn; intros I; apply (i_own_unref0 i); rewrite Ep; exact I | eauto].
        * intros j. cases_ij i j; [cbn; exact Nd | eauto].
        * intros j k g Hjk. cases_ij i j.
          -- rewrite upd_cl_other by auto. cbn. intros I. apply (i_own_disj0 i k); auto. rewrite Ep. exact I.
          -- cases_ij i k; [|eauto]. cbn. intros I I'. apply (i_own_disj0 j i g); auto. rewrite Ep. exact I'.
        * intros j g. cases_ij i j; [cbn; intros I; apply (i_stored0 i); rewrite Ep; exact I | eauto].
        * intros j. cases_ij i j; [cbn; split; [exact Wp | exact Wt] | eauto].
        * intros j. cases_ij i j; [cbn; exact Sfl | eauto].
        * intros j. cases_ij i j; [cbn; exact I | eauto].
        * discriminate.
        * intros j wk E. inversion E; subst. rewrite upd_cl_same. cbn. split; [reflexivity|]. split; [|reflexivity].
          intros k Hk. rewrite upd_cl_other by assumption. apply i_lock_none0. reflexivity.
    - (* InTxn *)
      assert (T : in_txn (c_pc (cl c i)) = true) by (rewrite Ep; reflexivity).
      destruct (txn_holder c i H T) as [wk L]. rewrite L.
      destruct (i_lock_some0 i wk L) as [_ [Ho Hm]]. rewrite Ep in Hm. subst wk.
      intros E; inversion E; subst; clear E.
      assert (Bw : body_ok w) by (apply Wp; reflexivity).
      assert (Fr : forall g, f = Some g -> ~ In g (refs (db c))).
      { intros g ->. apply (i_own_unref0 i). rewrite Ep. left. reflexivity. }
      cbn in Sfl.
      destruct (Bw (db c) f i_dinv0 Fr Sfl) as [_ [_ [_ [_ [Be _]]]]].
      split; cbn; auto.
      * intros j g. cases_ij i j; [cbn; intros I; apply (i_own_lt0 i); rewrite Ep; exact I | eauto].
      * intros j g. cases_ij i j; [cbn; intros I; apply (i_own_unref0 i); rewrite Ep; exact I | eauto].
      * intros j. cases_ij i j; [cbn; exact Nd | eauto].
      * intros j k g Hjk. cases_ij i j.
        -- rewrite upd_cl_other by auto. cbn. intros I. apply (i_own_disj0 i k); auto. rewrite Ep. exact I.
        -- cases_ij i k; [|eauto]. cbn. intros I I'. apply (i_own_disj0 j i g); auto. rewrite Ep. exact I'.
      * intros j g. cases_ij i j; [cbn; intros I; apply (i_stored0 i); rewrite Ep; exact I | eauto].
      * intros j. cases_ij i j; [cbn; split; [intros w' E; inversion E; subst; exact Bw | exact Wt] | eauto].
      * intros j. cases_ij i j; [cbn; exact Sfl | eauto].
      * intros j. cases_ij i j; [cbn; exact I | eauto].
      * discriminate.
      * intros j wk E. inversion E; subst. rewrite upd_cl_same. cbn. split; [reflexivity|]. split; [|auto].
        intros k Hk. rewrite upd_cl_other by assumption. apply Ho. assumption.
    - (* Early *)
      assert (T : in_txn (c_pc (cl c i)) = true) by (rewrite Ep; reflexivity).
      destruct (txn_holder c i H T) as [wk L].
      destruct (i_lock_some0 i wk L) as [_ [Ho Hm]]. rewrite Ep in Hm. destruct Hm as [Hwk [Ho' Hl]]. subst l.
      intros E; inversion E; subst; clear E. unfold with_cl.
      split; cbn; auto.
      * intros j g. cases_ij i j; [cbn; intros I; apply (i_own_lt0 i); rewrite Ep; exact I | eauto].
      * intros j g. cases_ij i j; [cbn; intros I; apply (i_own_unref0 i); rewrite Ep; exact I | eauto].
      * intros j. cases_ij i j; [cbn; exact Nd | eauto].
      * intros j k g Hjk. cases_ij i j.
        -- rewrite upd_cl_other by auto. cbn. intros I. apply (i_own_disj0 i k); auto. rewrite Ep. exact I.
        -- cases_ij i k; [|eauto]. cbn. intros I I'. apply (i_own_disj0 j i g); auto. rewrite Ep. exact I'.
      * intros j g. cases_ij i j; [cbn; intros I; apply (i_stored0 i); rewrite Ep; exact I | eauto].
      * intros j. cases_ij i j; [cbn; split; [exact Wp | exact Wt] | eauto].
      * intros j. cases_ij i j; [cbn; exact Sfl | eauto].
      * intros j. cases_ij i j; [cbn; exact I | eauto].
      * intros Hl j. congruence.
      * intros j wk' E. rewrite L in E. inversion E; subst. rewrite upd_cl_same. cbn. split; [reflexivity|]. split; [|auto].
        intros k Hk. rewrite upd_cl_other by assumption. apply Ho. assumption.
    - (* AtCommit *)
      assert (T : in_txn (c_pc (cl c i)) = true) by (rewrite Ep; reflexivity).
      destruct (txn_holder c i H T) as [wk L].
      destruct (i_lock_some0 i wk L) as [_ [Ho Hm]]. rewrite Ep in Hm. destruct Hm as [Hwk Ho'].
      assert (Bw : body_ok w) by (apply Wp; reflexivity).
      assert (Fr : forall g, f = Some g -> ~ In g (refs (db c))).
      { intros g ->. apply (i_own_unref0 i). rewrite Ep. left. reflexivity. }
      cbn in Sfl.
      destruct (Bw (db c) f i_dinv0 Fr Sfl) as [Bd [B1 [B2 [Bn [Be Bs]]]]]. rewrite <- Ho' in *.
      assert (Of : forall g, f = Some g -> In g (owned (c_pc (cl c i)))) by (intros g ->; rewrite Ep; left; reflexivity).
      destruct (bo_ok o) eqn:Ok; intros E; inversion E; subst; clear E.
      + (* COMMIT *)
        split; cbn; auto.
        * intros g I. destruct (B1 g I) as [I'| ->]; [auto | apply (i_stored0 i); rewrite Ep; left; reflexivity].
        * intros g I. destruct (B1 g I) as [I'| ->]; [auto | apply (i_own_lt0 i), Of; reflexivity].
        * intros j g. cases_ij i j; [|eauto]. cbn. intros I. destruct (B2 g I) as [[I'| ->] _]; [auto | apply (i_own_lt0 i), Of; reflexivity].
        * intros j g. cases_ij i j.
          -- cbn. intros I. apply (B2 g I).
          -- intros I I'. destruct (B1 g I') as [I''| ->]; [eapply i_own_unref0; eauto | eapply (i_own_disj0 j i); eauto].
        * intros j. cases_ij i j; [cbn; exact Bn | eauto].
        * intros j k g Hjk. cases_ij i j.
          -- rewrite upd_cl_other by auto. cbn. intros I I'. destruct (B2 g I) as [[I''| ->] _];
               [eapply i_own_unref0; eauto | eapply (i_own_disj0 i k); eauto].
          -- cases_ij i k; [|eauto]. cbn. intros I I'. destruct (B2 g I') as [[I''| ->] _];
               [eapply i_own_unref0; eauto | eapply (i_own_disj0 j i); eauto].
        * intros j g. cases_ij i j; [cbn; contradiction | eauto].
        * intros j. cases_ij i j; [cbn; split; [discriminate | exact Wt] | eauto].
        * intros j. cases_ij i j; [cbn; exact I | eauto].
        * intros j. cases_ij i j; [cbn; exact I | eauto].
        * intros _ j. cases_ij i j; [reflexivity | apply Ho; assumption].
        * discriminate.
      + (* ROLLBACK *)
        split; cbn; auto.
        * intros j g. cases_ij i j; [|eauto]. cbn. rewrite app_nil_r. intros I. apply (i_own_lt0 i). rewrite Ep. exact I.
        * intros j g. cases_ij i j; [|eauto]. cbn. rewrite app_nil_r. intros I. apply (i_own_unref0 i). rewrite Ep. exact I.
        * intros j. cases_ij i j; [|eauto]. cbn. rewrite app_nil_r. exact Nd.
        * intros j k g Hjk. cases_ij i j.
          -- rewrite upd_cl_other by auto. cbn. rewrite app_nil_r. intros I. apply (i_own_disj0 i k); auto. rewrite Ep. exact I.
          -- cases_ij i k; [|eauto]. cbn. rewrite app_nil_r. intros I I'. apply (i_own_disj0 j i g); auto. rewrite Ep. exact I'.
        * intros j g. cases_ij i j; [cbn; contradiction | eauto].
        * intros j. cases_ij i j; [cbn; split; [discriminate | exact Wt] | eauto].
        * intros j. cases_ij i j; [cbn; exact I | eauto].
        * intros j. cases_ij i j; [cbn; exact I | eauto].
        * intros _ j. cases_ij i j; [reflexivity | apply Ho; assumption].
        * discriminate.
    - (* Cleaning *)
      assert (Tf : in_txn (c_pc (cl c i)) = false) by (rewrite Ep; reflexivity).
      cbn in Nd.
      destruct l as [|g l].
      + destruct fe as [f|]; intros E; inversion E; subst; clear E.
        * apply inv_move; auto; try (rewrite Ep); destruct res; side.
        * apply inv_move; auto; side.
      + intros E; inversion E; subst; clear E.
        apply inv_remove; auto; try (rewrite Ep); side.
        eapply nodup_cons_tl; eauto.
    - (* Fetching *)
      assert (Tf : in_txn (c_pc (cl c i)) = false) by (rewrite Ep; reflexivity).
      intros E; inversion E; subst; clear E.
      apply inv_move; auto; try (rewrite Ep); side.
    - (* FetchRm *)
      assert (Tf : in_txn (c_pc (cl c i)) = false) by (rewrite Ep; reflexivity).
      intros E; inversion E; subst; clear E.
      apply inv_remove; auto; try (rewrite Ep); side.
    - (* TimeoutRm *)
      assert (Tf : in_txn (c_pc (cl c i)) = false) by (rewrite Ep; reflexivity).
      destruct f as [f|]; intros E; inversion E; subst; clear E.
      + apply inv_remove; auto; try (rewrite Ep); side.
      + apply inv_move; auto; side.
    - (* ReadOpen *)
      assert (Tf : in_txn (c_pc (cl c i)) = false) by (rewrite Ep; reflexivity).
      pose proof (i_read0 i) as Rd. rewrite Ep in Rd. cbn in Rd. destruct Rd as [Hr [Lt [Np [Sf Hm]]]].
      destruct (files c f) eqn:Ff; [| contradiction |].
      + (* the file is gone *)
        destruct (r_again r && negb (same_file mo f)); intros E; inversion E; subst; clear E;
          (apply inv_move; auto; side).
      + intros E; inversion E; subst; clear E. apply inv_move; auto; side.
    - (* ReadAgain *)
      assert (Tf : in_txn (c_pc (cl c i)) = false) by (rewrite Ep; reflexivity).
      pose proof (i_read0 i) as Rd. rewrite Ep in Rd. cbn in Rd. destruct Rd as [Hr [Lt Ng]].
      intros E; inversion E; subst; clear E. unfold after_select.
      destruct (r_select r (db c)) as [res|res|f h m] eqn:Sel; (apply inv_move; auto; side).
      pose proof (Hr _ _ _ _ Sel) as If. split; [exact Hr|]. split; [auto|]. split; [rewrite (i_ref0 _ If); discriminate|].
      split.
      * cbn. apply Z.eqb_neq. intros ->. rewrite (i_ref0 _ If) in Ng. discriminate.
      * intros g Eg. inversion Eg; subst. split; assumption.
    - discriminate.
  Qed.
End Facts.

Arguments Inv {D R}.
Arguments op_ok {D R}.
Arguments body_ok {D R}.
Arguments rop_ok {D R}.
Arguments read_ok {D R}.
Arguments in_txn {D R}.
Arguments owned {D R}.
