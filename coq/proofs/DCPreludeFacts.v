From DC Require Import DCPrelude.

Lemma lex_cmp_eq a : forall b, lex_cmp a b = Eq <-> a = b.
Proof.
  induction a as [|x a IH]; intros [|y b]; cbn; try (split; congruence).
  destruct (Z.compare_spec x y) as [E|L|G].
  - subst. rewrite IH. split; congruence.
  - split; [discriminate|]. intros H; inversion H; lia.
  - split; [discriminate|]. intros H; inversion H; lia.
Qed.

Lemma lex_cmp_refl a : lex_cmp a a = Eq.
Proof. apply lex_cmp_eq; reflexivity. Qed.

Lemma lex_cmp_antisym a : forall b, lex_cmp b a = CompOpp (lex_cmp a b).
Proof.
  induction a as [|x a IH]; intros [|y b]; cbn; try reflexivity.
  rewrite (Z.compare_antisym x y). destruct (x ?= y); cbn; auto.
Qed.

Lemma lex_cmp_lt_trans a : forall b c, lex_cmp a b = Lt -> lex_cmp b c = Lt -> lex_cmp a c = Lt.
Proof.
  induction a as [|x a IH]; intros [|y b] [|z c]; cbn; try congruence.
  destruct (Z.compare_spec x y) as [E|L|G]; destruct (Z.compare_spec y z) as [E'|L'|G']; try congruence;
    intros H1 H2; subst.
  - rewrite Z.compare_refl. eauto.
  - apply Z.compare_lt_iff in L'. rewrite L'. reflexivity.
  - apply Z.compare_lt_iff in L. rewrite L. reflexivity.
  - assert (x < z) by lia. apply Z.compare_lt_iff in H. rewrite H. reflexivity.
Qed.

Lemma list_eqb_spec {A} (eqb : A -> A -> bool) :
  (forall x y, eqb x y = true <-> x = y) ->
  forall a b, list_eqb eqb a b = true <-> a = b.
Proof.
  intros H. induction a as [|x a IH]; intros [|y b]; cbn; try (split; congruence).
  rewrite andb_true_iff, H, IH. split; [intros [-> ->]; reflexivity | intros E; inversion E; auto].
Qed.

Lemma zlist_eqb_spec a b : zlist_eqb a b = true <-> a = b.
Proof. apply list_eqb_spec. intros; apply Z.eqb_eq. Qed.

Lemma zlist_eqb_refl a : zlist_eqb a a = true.
Proof. apply zlist_eqb_spec; reflexivity. Qed.

Lemma length_take {A} n (l : list A) : length (take n l) = Nat.min n (length l).
Proof. revert l; induction n; intros [|x l]; cbn; auto. Qed.

Lemma take_drop {A} n (l : list A) : take n l ++ drop n l = l.
Proof. revert l; induction n; intros [|x l]; cbn; auto. f_equal; auto. Qed.

Lemma app_eq_length_inv {A} (a b c d : list A) :
  length a = length c -> a ++ b = c ++ d -> a = c /\ b = d.
Proof.
  revert c; induction a as [|x a IH]; intros [|y c]; cbn; try discriminate; auto.
  intros L E. inversion E; subst. destruct (IH c) as [-> ->]; auto.
Qed.

(* insert_stable / sort_stable basics *)
Lemma insert_stable_length {A} (ltb : A -> A -> bool) x l :
  length (insert_stable ltb x l) = S (length l).
Proof. induction l as [|y l IH]; cbn; auto. destruct (ltb x y); cbn; auto. Qed.

Lemma insert_stable_perm {A} (ltb : A -> A -> bool) x l :
  forall z, In z (insert_stable ltb x l) <-> z = x \/ In z l.
Proof.
  induction l as [|y l IH]; cbn; intros z; [intuition congruence|].
  destruct (ltb x y); cbn; [intuition congruence|]. rewrite IH. intuition congruence.
Qed.

Lemma sort_stable_in {A} (ltb : A -> A -> bool) l : forall z, In z (sort_stable ltb l) <-> In z l.
Proof.
  unfold sort_stable. intros z.
  assert (G : forall acc, In z (fold_left (fun acc x => insert_stable ltb x acc) l acc) <-> In z acc \/ In z l).
  { induction l as [|x l IH]; cbn; intros acc; [intuition|].
    rewrite IH, insert_stable_perm. intuition congruence. }
  rewrite G. cbn. intuition.
Qed.

Lemma sort_stable_length {A} (ltb : A -> A -> bool) l : length (sort_stable ltb l) = length l.
Proof.
  unfold sort_stable.
  assert (G : forall acc, length (fold_left (fun acc x => insert_stable ltb x acc) l acc) = (length acc + length l)%nat).
  { induction l as [|x l IH]; cbn; intros acc; [lia|]. rewrite IH, insert_stable_length. lia. }
  rewrite G. reflexivity.
Qed.
