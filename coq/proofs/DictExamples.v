(* The hypotheses of the invariant / dictionary / transaction theorems are satisfiable: a concrete codec
   with codec_ok and pkk_inj, a concrete configuration, and instances of the theorems on it. *)
From Coq Require Import ZArith List Bool Lia Sorted Permutation.
From DC Require Import DCPrelude DCPreludeFacts Val DiskBase SqlBase Gen_Disk Disk Gen_Sql Cache Refs Conc Txn
  TableFacts TableRows SqlBridge ExpiryFacts DiskFacts SortFacts SqlOrderFacts SinvFacts DictFacts IterFacts TxnFacts.

(* an injective serialiser: constructor tag, then the content *)
Definition enc_fl (f : fl) : list Z :=
  match f with FNaN => [0] | FInf b => [1; b2z b] | FZero b => [2; b2z b] | FFin m e => [3; m; e] end.
Definition dec_fl (l : list Z) : option fl :=
  match l with
  | [0] => Some FNaN
  | [1; b] => Some (FInf (b =? 1))
  | [2; b] => Some (FZero (b =? 1))
  | [3; m; e] => Some (FFin m e)
  | _ => None
  end.
Definition enc (v : pyval) : list Z :=
  match v with
  | VInt z => [0; z] | VFloat f => 1 :: enc_fl f | VStr s => 2 :: s | VBytes b => 3 :: b
  | VOther i => [4; i] | VStream b => 5 :: b
  end.
Definition dec (l : list Z) : option pyval :=
  match l with
  | [0; z] => Some (VInt z)
  | 1 :: r => option_map VFloat (dec_fl r)
  | 2 :: s => Some (VStr s)
  | 3 :: b => Some (VBytes b)
  | [4; i] => Some (VOther i)
  | 5 :: b => Some (VStream b)
  | _ => None
  end.

Lemma dec_enc v : dec (enc v) = Some v.
Proof. destruct v as [z|f|s|b|i|b]; try reflexivity. destruct f as [|[]|[]|m e]; reflexivity. Qed.

Definition demo_codec : codec := {| pkk := enc; pkv := enc; unpk := dec |}.
Definition demo_cfg : cfg :=
  {| c_policy := PLRS; c_size_limit := 1073741824; c_cull_limit := 0; c_min_file_size := 4; c_codec := demo_codec |}.
Definition demo_cfg_cull : cfg :=
  {| c_policy := PLRS; c_size_limit := 1073741824; c_cull_limit := 10; c_min_file_size := 4; c_codec := demo_codec |}.

Example demo_codec_ok : codec_ok demo_codec.
Proof. split; intros v; apply dec_enc. Qed.
Example demo_pkk_inj : pkk_inj demo_codec.
Proof. intros a b E. cbn in E. pose proof (dec_enc a) as A. rewrite E, dec_enc in A. congruence. Qed.

(* Sinv: the empty cache, and every state reached from it without pushes *)
Example sinv_reachable :
  Sinv (run demo_cfg init_st [(OSet (VStr [97]) (VBytes [1; 2; 3; 4; 5; 6]) false None SNull, 0, []);
                              (OSet (VStr [97]) (VInt 7) false (Some 5) SNull, 1, []);
                              (ODelete (VStr [98]) false, 2, [])]).
Proof. apply sinv_run_nopush. intros x [<-|[<-|[<-|[]]]]; reflexivity. Qed.

(* (a) *)
Example get_after_set_instance :
  snd (op_get demo_cfg (fst (op_set demo_cfg init_st (VStr [97]) (VBytes [1; 2; 3; 4; 5; 6]) false (Some 10) SNull 0 0))
              (VStr [97]) false 9) = RVal (FVal (VBytes [1; 2; 3; 4; 5; 6])) (Some 10) SNull.
Proof.
  apply (get_after_set demo_cfg eq_refl init_st (VStr [97]) (VBytes [1; 2; 3; 4; 5; 6]) false (Some 10) SNull 0 0 9);
    [apply sinv_init|apply demo_codec_ok|reflexivity|reflexivity|reflexivity|reflexivity].
Qed.
Example get_after_set_cull_instance :
  let s' := fst (op_set demo_cfg_cull init_st (VInt 1) (VStr [104; 105]) false None (SText [116])  0 0) in
  (snd (op_get demo_cfg_cull s' (VInt 1) false 100) = RVal (FVal (VStr [104; 105])) None (SText [116]) /\
   snd (op_contains demo_cfg_cull s' (VInt 1) 100) = RBool true) \/
  (forall rd' now'', snd (op_get demo_cfg_cull s' (VInt 1) rd' now'') = RDefault /\
                     snd (op_contains demo_cfg_cull s' (VInt 1) now'') = RBool false).
Proof.
  apply (get_after_set_cull demo_cfg_cull init_st (VInt 1) (VStr [104; 105]) false None (SText [116]) 0 0 100);
    [apply sinv_init|apply demo_codec_ok|reflexivity|reflexivity|reflexivity|reflexivity].
Qed.

(* (b): 1 and "1" are different keys; 1 and 1.0 are not *)
Example other_key_instance : other_key demo_cfg (VInt 1) (VStr [49]).
Proof. split; [apply demo_pkk_inj|repeat split]. Qed.
Example same_key_instance : key_eq (VInt 1) (VFloat (FFin 1 0)) = true.
Proof. reflexivity. Qed.

(* (e) *)
Example set_incr_get_instance :
  let s1 := fst (op_set demo_cfg init_st (VStr [110]) (VInt 41) false None SNull 0 0) in
  snd (op_incr demo_cfg s1 (VStr [110]) 1 None 1 0) = RVal (FVal (VInt 42)) None SNull /\
  snd (op_get demo_cfg (fst (op_incr demo_cfg s1 (VStr [110]) 1 None 1 0)) (VStr [110]) false 2) = RVal (FVal (VInt 42)) None SNull.
Proof.
  apply (set_incr_get demo_cfg init_st (VStr [110]) 41 None SNull 0 0 1 None 1 0 2);
    [reflexivity|apply sinv_init|reflexivity|reflexivity|reflexivity|reflexivity|reflexivity|reflexivity].
Qed.

(* Part 2: the hypotheses of the sequential equivalences *)
Example fs_fresh_init : fs_fresh init_st.
Proof. intros id []. Qed.
Example incr_inline_instance : incr_inline demo_cfg 1 (Some 41) = true.
Proof. reflexivity. Qed.
