(* File bookkeeping of a transaction block (model/TxnFiles.v) -- finding C08-F1 as theorems.
   (1) ROLLBACK of the outermost transaction: the directory is exactly as before the block (every file written inside is removed,
       nothing handed to cleanup is removed), for every sequence of nested calls;
   (2) COMMIT when no nested call failed: no orphan (every value file is referred to by a row), provided there was none before;
   (3) COMMIT after a nested call FAILED (exception caught inside the block): its file is an orphan -- the statement "no value file
       exists that no item refers to" is false; witness and general form. *)
From Coq Require Import ZArith List Bool Lia.
From DC Require Import DCPrelude TxnFiles.
Import ListNotations.

Lemma in_remove_all l from x : In x (remove_all l from) <-> In x from /\ ~ In x l.
Proof.
  unfold remove_all. rewrite filter_In. split; intros [H1 H2]; split; try exact H1.
  - intros I. apply negb_true_iff in H2. assert (existsb (Z.eqb x) l = true) by (apply existsb_exists; exists x; split; [exact I|apply Z.eqb_refl]). congruence.
  - apply negb_true_iff. destruct (existsb (Z.eqb x) l) eqn:E; [|reflexivity].
    apply existsb_exists in E as [y [Iy Ey]]. apply Z.eqb_eq in Ey. subst y. contradiction.
Qed.

Definition run (files rows : list Z) (es : list nested) : fs := fold_left step es (begin_block files rows).

Definition new_file (e : nested) : list Z := match e with Stored f | Discarded f | Failed f => [f] | Released _ => [] end.

(* what the block wrote sits in front of what was there, and `created` lists exactly that *)
Lemma present_created es : forall s, present (fold_left step es s) = rev (flat_map new_file es) ++ present s /\
                                      created (fold_left step es s) = rev (flat_map new_file es) ++ created s.
Proof.
  induction es as [|e es IH]; intros s; cbn [fold_left flat_map rev app]; [split; reflexivity|].
  destruct (IH (step s e)) as [P C]. rewrite P, C, rev_app_distr.
  destruct e; cbn [step present created new_file rev app]; rewrite <- ?app_assoc; cbn [app]; split; reflexivity.
Qed.

(* (1) *)
Theorem rollback_restores_directory files rows es :
  (forall f, In f (flat_map new_file es) -> ~ In f files) ->
  fst (rollback rows (run files rows es)) = files /\ snd (rollback rows (run files rows es)) = rows.
Proof.
  intros Fresh. unfold rollback, run. cbn [fst snd]. split; [|reflexivity].
  destruct (present_created es (begin_block files rows)) as [P C]. rewrite P, C. cbn [begin_block present created]. rewrite app_nil_r.
  set (n := rev (flat_map new_file es)). unfold remove_all. rewrite filter_app.
  assert (A : filter (fun x => negb (existsb (Z.eqb x) n)) n = []).
  { clear. induction n as [|a n IH] using rev_ind; [reflexivity|]. rewrite filter_app.
    assert (forall l m, (forall x, In x l -> In x m) -> filter (fun x => negb (existsb (Z.eqb x) m)) l = []).
    { clear. intros l m H. induction l as [|y l IH]; [reflexivity|]. cbn [filter].
      assert (existsb (Z.eqb y) m = true) by (apply existsb_exists; exists y; split; [apply H; left; reflexivity|apply Z.eqb_refl]).
      rewrite H0. cbn. apply IH. intros x I. apply H. right. exact I. }
    rewrite (H n (n ++ [a])) by (intros x I; apply in_or_app; left; exact I).
    rewrite (H [a] (n ++ [a])) by (intros x [<-|[]]; apply in_or_app; right; left; reflexivity). reflexivity. }
  rewrite A. cbn [app].
  assert (B : forall l, (forall x, In x l -> ~ In x n) -> filter (fun x => negb (existsb (Z.eqb x) n)) l = l).
  { clear. intros l H. induction l as [|y l IH]; [reflexivity|]. cbn [filter].
    destruct (existsb (Z.eqb y) n) eqn:E.
    - apply existsb_exists in E as [z [Iz Ez]]. apply Z.eqb_eq in Ez. subst z. exfalso. apply (H y); [left; reflexivity|exact Iz].
    - cbn. f_equal. apply IH. intros x I. apply H. right. exact I. }
  apply B. intros x I In_. apply (Fresh x); [apply in_rev; exact In_|exact I].
Qed.

(* (2) every file is accounted for: referred to by a row, handed to cleanup, or written by a nested call that failed *)
Definition accounted (s : fs) (failed : list Z) : Prop :=
  forall x, In x (present s) -> In x (referred s) \/ In x (filenames s) \/ In x failed.

Lemma accounted_step s e failed : accounted s failed -> accounted (step s e) (match e with Failed f => f :: failed | _ => failed end).
Proof.
  intros A x I. destruct e as [f|f|f|g]; cbn [step present referred filenames] in *.
  - destruct I as [<-|I]; [left; left; reflexivity|]. destruct (A x I) as [H|[H|H]]; [left; right; exact H|right; left; exact H|right; right; exact H].
  - destruct I as [<-|I]; [right; left; left; reflexivity|]. destruct (A x I) as [H|[H|H]]; [left; exact H|right; left; right; exact H|right; right; exact H].
  - destruct I as [<-|I]; [right; right; left; reflexivity|]. destruct (A x I) as [H|[H|H]]; [left; exact H|right; left; exact H|right; right; right; exact H].
  - destruct (A x I) as [H|[H|H]]; [|right; left; right; exact H|right; right; exact H].
    destruct (Z.eq_dec x g) as [->|Ne]; [right; left; left; reflexivity|left].
    apply in_remove_all. split; [exact H|]. intros [E|[]]. congruence.
Qed.

Definition facc (acc : list Z) (e : nested) : list Z := match e with Failed f => f :: acc | _ => acc end.

Lemma accounted_run es : forall s failed, accounted s failed -> accounted (fold_left step es s) (fold_left facc es failed).
Proof.
  induction es as [|e es IH]; intros s failed A; cbn [fold_left]; [exact A|].
  apply IH. exact (accounted_step s e failed A).
Qed.

Lemma facc_nil es : failed_files es = [] -> forall acc, fold_left facc es acc = acc.
Proof.
  induction es as [|e es IH]; intros H acc; cbn [fold_left]; [reflexivity|].
  unfold failed_files in H. cbn [flat_map] in H. apply app_eq_nil in H as [H1 H2].
  destruct e; try discriminate; cbn [facc]; apply IH; exact H2.
Qed.

Theorem commit_without_failure_no_orphan files rows es :
  (forall x, In x files -> In x rows) -> failed_files es = [] -> orphans (commit (run files rows es)) = [].
Proof.
  intros Ok NoF. assert (A : accounted (begin_block files rows) []) by (intros x I; left; apply Ok, I).
  pose proof (accounted_run es _ _ A) as H. rewrite (facc_nil es NoF) in H.
  destruct (orphans (commit (run files rows es))) as [|x l] eqn:E; [reflexivity|exfalso].
  assert (I : In x (orphans (commit (run files rows es)))) by (rewrite E; left; reflexivity).
  unfold orphans, commit in I. cbn [fst snd] in I. apply in_remove_all in I as [I1 I2]. apply in_remove_all in I1 as [I1 I3].
  destruct (H x I1) as [R|[F|[]]]; contradiction.
Qed.

(* (3) a nested call that failed leaves its file: an orphan after the COMMIT *)
Lemma referred_sub es : forall s x, In x (referred (fold_left step es s)) -> In x (referred s) \/ In x (flat_map new_file es).
Proof.
  induction es as [|e es IH]; intros s x I; cbn [fold_left flat_map] in *; [left; exact I|].
  destruct (IH _ _ I) as [H|H]; [|right; apply in_or_app; right; exact H].
  destruct e as [f|f|f|g]; cbn [step referred new_file app] in *.
  - destruct H as [<-|H]; [right; left; reflexivity|left; exact H].
  - left; exact H.
  - left; exact H.
  - left. apply in_remove_all in H as [H _]. exact H.
Qed.

Lemma filenames_sub es : forall s x, In x (filenames (fold_left step es s)) ->
  In x (filenames s) \/ In x (flat_map new_file es) \/ In (Released x) es.
Proof.
  induction es as [|e es IH]; intros s x I; cbn [fold_left flat_map] in *; [left; exact I|].
  destruct (IH _ _ I) as [H|[H|H]]; [|right; left; apply in_or_app; right; exact H|right; right; right; exact H].
  destruct e as [f|f|f|g]; cbn [step filenames new_file app] in *.
  - left; exact H.
  - destruct H as [<-|H]; [right; left; left; reflexivity|left; exact H].
  - left; exact H.
  - destruct H as [<-|H]; [right; right; left; reflexivity|left; exact H].
Qed.

Theorem commit_after_failure_orphan files rows es f :
  ~ In f rows -> ~ In f (flat_map new_file es) -> ~ In (Released f) es ->
  In f (orphans (commit (run files rows (es ++ [Failed f])))).
Proof.
  intros Nr Nn Nrel. unfold run. rewrite fold_left_app. cbn [fold_left]. set (s := fold_left step es (begin_block files rows)).
  unfold orphans, commit. cbn [fst snd step present referred filenames].
  apply in_remove_all. split; [apply in_remove_all; split; [left; reflexivity|]|].
  - intros I. destruct (filenames_sub es _ _ I) as [H|[H|H]]; [destruct H|exact (Nn H)|exact (Nrel H)].
  - intros I. destruct (referred_sub es _ _ I) as [H|H]; [exact (Nr H)|exact (Nn H)].
Qed.

(* the witness of the finding: file 1 holds the value of row k; in the block a set of k with a new file 2 FAILS (caught), then an
   inline set succeeds (no file event); COMMIT: file 2 is an orphan.  The same block rolled back leaves the directory as it was. *)
Lemma nested_failure_witness :
  (orphans (commit (run [1] [1] [Failed 2])) = [2]) /\ (dangling (commit (run [1] [1] [Failed 2])) = []) /\
  (orphans (commit (run [1] [1] [Failed 2; Stored 3; Released 1])) = [2]) /\
  (rollback [1] (run [1] [1] [Failed 2; Stored 3; Released 1]) = ([1], [1])) /\
  (orphans (commit (run [1] [1] [Stored 3; Released 1; Discarded 4])) = []).
Proof. vm_compute. repeat split; reflexivity. Qed.

Print Assumptions rollback_restores_directory.
Print Assumptions commit_without_failure_no_orphan.
Print Assumptions commit_after_failure_orphan.
