(* Bridge lemmas for the queue operations (C10): what the GENERATED selects, guards and key constants of
   push / pull / peek (gen/Gen_Sql.v, regenerated from core.py on every check) mean, in the terms used by
   the hand-written proofs of QueueFacts.v.  Everything above this file depends only on these statements,
   so a flipped comparison, a changed ORDER BY direction, a dropped `raw = 1`, a changed range constant or
   a changed key format in the source breaks a lemma here. *)
From Coq Require Import Sorted Permutation.
From DC Require Import DCPrelude DCPreludeFacts Val DiskBase SqlBase Gen_Disk Disk Gen_Sql Cache SortFacts.

(* ------------------------------------------------------------------ the range predicate and the sorted range *)
(* the WHERE clause shared by the push/pull/peek selects: ? < key AND key < ? AND raw = 1 *)
Definition in_range (p : option (list Z)) (r : row) : bool :=
  truthy (tv_and (tv_and (sql_gt (rkey r) (qkey_min p)) (sql_lt (rkey r) (qkey_max p))) (tvz_eq (b2z (rraw r)) 1)).

(* ORDER BY key ASC as the model executes it *)
Definition key_ltb (a b : row) : bool := c_lt (lex_rcmp [ord_sql rkey] a b).
Definition range_sorted (p : option (list Z)) (t : list row) : list row :=
  sort_stable key_ltb (filter (in_range p) t).

Lemma bridge_range_sorted p t : sql_order false [ord_sql rkey] (filter (in_range p) t) = range_sorted p t.
Proof. reflexivity. Qed.

(* front = the head of the ascending list, back = the head of the reversed list (i.e. the last row) *)
Lemma bridge_pull_select p sd t :
  pull_select sd p t = take 1 (match sd with Front => range_sorted p t | Back => rev (range_sorted p t) end).
Proof. destruct sd; reflexivity. Qed.

Lemma bridge_peek_select p sd t :
  peek_select sd p t = take 1 (match sd with Front => range_sorted p t | Back => rev (range_sorted p t) end).
Proof. destruct sd; reflexivity. Qed.

(* push looks at the row next to which it inserts: the last row for 'back', the first for 'front' *)
Lemma bridge_push_select_back p t :
  push_select_back (qkey_min p) (qkey_max p) 1 t = take 1 (rev (range_sorted p t)).
Proof. reflexivity. Qed.

Lemma bridge_push_select_front p t :
  push_select_front (qkey_min p) (qkey_max p) 1 t = take 1 (range_sorted p t).
Proof. reflexivity. Qed.

(* pull and peek agree on what "expired" means; the DELETEs address one rowid *)
Lemma bridge_peek_expired e now : peek_expired e now = pull_expired e now.
Proof. reflexivity. Qed.

Lemma bridge_pull_expired e now :
  pull_expired e now = match e with Some t => t <=? now | None => false end.
Proof. destruct e; reflexivity. Qed.

Lemma bridge_pull_delete i t r : pull_delete i t r = (rowid r =? i).
Proof. unfold pull_delete, tvz_eq, truthy. destruct (rowid r =? i); reflexivity. Qed.

Lemma bridge_peek_delete i t r : peek_delete i t r = (rowid r =? i).
Proof. unfold peek_delete, tvz_eq, truthy. destruct (rowid r =? i); reflexivity. Qed.

(* the key constants *)
Definition key_bound : Z := 1000000000000000.      (* 10^15: numbers below it have at most 15 digits *)

Lemma bridge_key_constants :
  push_min_key = 0 /\ push_max_key = 999999999999999 /\ push_start = 500000000000000 /\
  push_key_digits = 15 /\ 10 ^ push_key_digits = key_bound /\
  pull_min_key = push_min_key /\ pull_max_key = push_max_key /\ peek_min_key = push_min_key /\ peek_max_key = push_max_key /\
  pull_smin = push_smin /\ pull_smax = push_smax /\ peek_smin = push_smin /\ peek_smax = push_smax.
Proof. repeat split; reflexivity. Qed.

Lemma bridge_push_start_valid : push_min_key < push_start < push_max_key.
Proof. split; reflexivity. Qed.

Lemma key_bound_pow : 10 ^ Z.of_nat (Z.to_nat push_key_digits) = key_bound.
Proof. reflexivity. Qed.

(* ------------------------------------------------------------------ in_range, readably *)
Lemma tv_cmp_nonnull f a b : a <> SNull -> b <> SNull -> tv_cmp f a b = Some (f (sql_cmp a b)).
Proof. destruct a, b; try congruence; reflexivity. Qed.

Lemma in_range_spec p r :
  in_range p r = true <->
  rraw r = true /\ sql_cmp (rkey r) (qkey_min p) = Gt /\ sql_cmp (rkey r) (qkey_max p) = Lt.
Proof.
  unfold in_range, sql_gt, sql_lt.
  assert (Lo : qkey_min p <> SNull) by (destruct p; discriminate).
  assert (Hi : qkey_max p <> SNull) by (destruct p; discriminate).
  assert (D : rkey r = SNull \/ rkey r <> SNull) by (destruct (rkey r); [left; reflexivity|right; discriminate..]).
  destruct D as [N|N].
  - rewrite N. change (tv_cmp c_gt SNull (qkey_min p)) with (@None bool).
    change (tv_cmp c_lt SNull (qkey_max p)) with (@None bool).
    destruct (rraw r); cbn; (split; [discriminate|]); intros [R [H _]]; try discriminate R.
    destruct p; cbn in H; discriminate.
  - rewrite !tv_cmp_nonnull by assumption. unfold tvz_eq.
    destruct (sql_cmp (rkey r) (qkey_min p)); destruct (sql_cmp (rkey r) (qkey_max p)); destruct (rraw r); cbn;
      intuition congruence.
Qed.

Lemma in_range_raw p r : in_range p r = true -> rraw r = true.
Proof. intros H. apply in_range_spec in H. tauto. Qed.

(* in_range depends on the row only through (key, raw) *)
Lemma in_range_key_raw p r r' : rkey r = rkey r' -> rraw r = rraw r' -> in_range p r = in_range p r'.
Proof. unfold in_range. intros -> ->. reflexivity. Qed.

(* ------------------------------------------------------------------ comparison of queue keys *)
Lemma sql_cmp_int a b : sql_cmp (SInt a) (SInt b) = (a ?= b).
Proof. unfold sql_cmp. cbn. unfold dy_cmp, pow2. cbn. rewrite !Z.mul_1_r. reflexivity. Qed.

Lemma sql_cmp_text s t : sql_cmp (SText s) (SText t) = lex_cmp s t.
Proof. reflexivity. Qed.

Lemma lex_cmp_app_same p : forall a b, lex_cmp (p ++ a) (p ++ b) = lex_cmp a b.
Proof. induction p as [|x p IH]; intros a b; cbn; auto. rewrite Z.compare_refl. apply IH. Qed.

Lemma lex_cmp_snoc a : forall b x y, length a = length b ->
  lex_cmp (a ++ [x]) (b ++ [y]) = match lex_cmp a b with Eq => (x ?= y) | c => c end.
Proof.
  induction a as [|h a IH]; intros [|k b] x y L; cbn in L; try discriminate.
  - cbn. destruct (x ?= y); reflexivity.
  - cbn. destruct (h ?= k); auto.
Qed.

Lemma digits_pad_length n : forall z, length (digits_pad n z) = n.
Proof. induction n as [|n IH]; intros z; cbn; auto. rewrite app_length, IH. cbn. lia. Qed.

Lemma pow10_S n : 10 ^ Z.of_nat (S n) = 10 * 10 ^ Z.of_nat n.
Proof. rewrite Nat2Z.inj_succ, Z.pow_succ_r by lia. reflexivity. Qed.

Lemma div10_bound n z : 0 <= z < 10 ^ Z.of_nat (S n) -> 0 <= z / 10 < 10 ^ Z.of_nat n.
Proof.
  rewrite pow10_S. intros [L U]. split; [apply Z.div_pos; lia|]. apply Z.div_lt_upper_bound; lia.
Qed.

(* equal-length zero-padded decimal strings compare like the numbers they denote *)
Lemma lex_cmp_digits n : forall a b, 0 <= a < 10 ^ Z.of_nat n -> 0 <= b < 10 ^ Z.of_nat n ->
  lex_cmp (digits_pad n a) (digits_pad n b) = (a ?= b).
Proof.
  induction n as [|n IH]; intros a b Ha Hb.
  - cbn in Ha, Hb. assert (a = 0) by lia. assert (b = 0) by lia. subst. reflexivity.
  - cbn [digits_pad]. rewrite lex_cmp_snoc by (rewrite !digits_pad_length; reflexivity).
    rewrite (IH (a / 10) (b / 10)) by (apply div10_bound; assumption).
    pose proof (Z.div_mod a 10 ltac:(lia)) as Ea. pose proof (Z.mod_pos_bound a 10 ltac:(lia)) as Ra.
    pose proof (Z.div_mod b 10 ltac:(lia)) as Eb. pose proof (Z.mod_pos_bound b 10 ltac:(lia)) as Rb.
    revert Ea Ra Eb Rb. generalize (a / 10) (a mod 10) (b / 10) (b mod 10). intros qa ra qb rb Ea Ra Eb Rb.
    destruct (Z.compare_spec qa qb) as [E|L|G].
    + destruct (Z.compare_spec (48 + ra) (48 + rb)); destruct (Z.compare_spec a b); try reflexivity; lia.
    + symmetry. apply Z.compare_lt_iff. lia.
    + symmetry. apply Z.compare_gt_iff. lia.
Qed.

Lemma digits_pad_inj n a b : 0 <= a < 10 ^ Z.of_nat n -> 0 <= b < 10 ^ Z.of_nat n ->
  digits_pad n a = digits_pad n b -> a = b.
Proof.
  intros Ha Hb E. apply Z.compare_eq. rewrite <- (lex_cmp_digits n a b Ha Hb), E. apply lex_cmp_refl.
Qed.

Lemma parse_digits_snoc l : forall acc d, parse_digits acc (l ++ [d]) = parse_digits acc l * 10 + (d - 48).
Proof. induction l as [|x l IH]; intros acc d; cbn; auto. Qed.

Lemma parse_digits_pad n : forall z, 0 <= z < 10 ^ Z.of_nat n -> parse_digits 0 (digits_pad n z) = z.
Proof.
  induction n as [|n IH]; intros z Hz.
  - cbn in *. lia.
  - cbn [digits_pad]. rewrite parse_digits_snoc, IH by (apply div10_bound; assumption).
    pose proof (Z.div_mod z 10 ltac:(lia)). lia.
Qed.

Lemma digits_pad_range n : forall z d, In d (digits_pad n z) -> 48 <= d <= 57.
Proof.
  induction n as [|n IH]; intros z d; cbn [digits_pad]; [intros []|].
  intros H. apply in_app_or in H as [H|[<-|[]]]; [eauto|].
  pose proof (Z.mod_pos_bound z 10 ltac:(lia)). lia.
Qed.

Lemma after_last_dash_other x r cur : x <> 45 -> after_last_dash (x :: r) cur = after_last_dash r cur.
Proof.
  intros H. destruct x as [|q|q]; try reflexivity.
  do 6 (destruct q as [q|q|]; try reflexivity). contradiction.
Qed.

Lemma after_last_dash_nodash d : (forall x, In x d -> x <> 45) -> forall cur, after_last_dash d cur = cur.
Proof.
  induction d as [|x d IH]; intros H cur; [reflexivity|].
  rewrite after_last_dash_other by (apply H; left; reflexivity). apply IH. intros y Hy. apply H. right; exact Hy.
Qed.

Lemma after_last_dash_app l d : (forall x, In x d -> x <> 45) ->
  forall cur, after_last_dash (l ++ 45 :: d) cur = d.
Proof.
  intros H. induction l as [|x l IH]; intros cur.
  - cbn [app]. change (after_last_dash (45 :: d) cur) with (after_last_dash d d). apply after_last_dash_nodash, H.
  - cbn [app]. destruct (Z.eq_dec x 45) as [->|N].
    + change (after_last_dash (45 :: l ++ 45 :: d) cur) with (after_last_dash (l ++ 45 :: d) (l ++ 45 :: d)). apply IH.
    + rewrite after_last_dash_other by exact N. apply IH.
Qed.

(* ---- the three facts about keys the queue proofs use ---- *)
Definition KD : nat := Z.to_nat push_key_digits.

(* K1: numeric order of queue keys = SQL order *)
Lemma sql_cmp_make p a b : 0 <= a < key_bound -> 0 <= b < key_bound ->
  sql_cmp (qkey_make p a) (qkey_make p b) = (a ?= b).
Proof.
  intros Ha Hb. destruct p as [p|]; cbn [qkey_make].
  - rewrite sql_cmp_text, lex_cmp_app_same. cbn [app lex_cmp]. rewrite Z.compare_refl.
    apply lex_cmp_digits; rewrite key_bound_pow; assumption.
  - apply sql_cmp_int.
Qed.

(* K2: push recovers the number of a key it made *)
Lemma qkey_num_make p n : 0 <= n < key_bound -> qkey_num p (qkey_make p n) = n.
Proof.
  intros Hn. destruct p as [p|]; cbn [qkey_make qkey_num]; [|reflexivity].
  change (p ++ [45] ++ digits_pad (Z.to_nat push_key_digits) n) with (p ++ 45 :: digits_pad KD n).
  rewrite after_last_dash_app.
  - apply parse_digits_pad. unfold KD. rewrite key_bound_pow. exact Hn.
  - intros x Hx. apply digits_pad_range in Hx. lia.
Qed.

Lemma qkey_make_inj p a b : 0 <= a < key_bound -> 0 <= b < key_bound -> qkey_make p a = qkey_make p b -> a = b.
Proof.
  intros Ha Hb E. apply Z.compare_eq. rewrite <- (sql_cmp_make p a b Ha Hb), E.
  destruct p; cbn [qkey_make]; [rewrite sql_cmp_text; apply lex_cmp_refl|rewrite sql_cmp_int; apply Z.compare_refl].
Qed.

(* K3: the bounds of the range are the keys of the numbers push_min_key and push_max_key *)
Lemma bridge_qkey_min p : qkey_min p = qkey_make p push_min_key.
Proof. destruct p; reflexivity. Qed.

Lemma bridge_qkey_max p : qkey_max p = qkey_make p push_max_key.
Proof. destruct p; reflexivity. Qed.

Lemma push_min_in_bound : 0 <= push_min_key < key_bound.
Proof. unfold push_min_key, key_bound. lia. Qed.
Lemma push_max_in_bound : 0 <= push_max_key < key_bound.
Proof. unfold push_max_key, key_bound. lia. Qed.

(* a row carrying the key of number n lies in the range iff push_min_key < n < push_max_key *)
Lemma in_range_make p r n : 0 <= n < key_bound -> rkey r = qkey_make p n ->
  in_range p r = rraw r && (push_min_key <? n) && (n <? push_max_key).
Proof.
  intros Hn K.
  assert (C1 : sql_cmp (rkey r) (qkey_min p) = (n ?= push_min_key)).
  { rewrite K, bridge_qkey_min. apply sql_cmp_make; [exact Hn|exact push_min_in_bound]. }
  assert (C2 : sql_cmp (rkey r) (qkey_max p) = (n ?= push_max_key)).
  { rewrite K, bridge_qkey_max. apply sql_cmp_make; [exact Hn|exact push_max_in_bound]. }
  destruct (in_range p r) eqn:E.
  - apply in_range_spec in E as [R [G L]]. rewrite C1 in G. rewrite C2 in L.
    apply Z.compare_gt_iff in G. change (n < push_max_key) in L. symmetry.
    rewrite R. cbn [andb]. apply andb_true_iff. split; apply Z.ltb_lt; lia.
  - symmetry. destruct (rraw r) eqn:R; [|reflexivity]. cbn [andb].
    destruct (Z.ltb_spec push_min_key n) as [A|A]; [|reflexivity].
    destruct (Z.ltb_spec n push_max_key) as [B|B]; [|reflexivity].
    exfalso. assert (T : in_range p r = true); [|congruence].
    apply in_range_spec. rewrite C1, C2. split; [exact R|]. split.
    + apply Z.compare_gt_iff. exact A.
    + exact B.
Qed.

(* ------------------------------------------------------------------ ranges of different queues *)
Lemma lex_between_prefix P : forall a b s,
  lex_cmp (P ++ a) s = Lt -> lex_cmp s (P ++ b) = Lt ->
  exists rest, s = P ++ rest /\ lex_cmp a rest = Lt /\ lex_cmp rest b = Lt.
Proof.
  induction P as [|x P IH]; intros a b s H1 H2.
  - exists s. auto.
  - destruct s as [|y s]; [cbn in H1; discriminate|]. cbn in H1, H2.
    rewrite (Z.compare_antisym x y) in H2.
    destruct (Z.compare_spec x y) as [E|L|G]; cbn in H2; try discriminate.
    subst y. destruct (IH a b s H1 H2) as [rest [-> [A B]]]. exists rest. auto.
Qed.

Definition is_digit (c : Z) : bool := (48 <=? c) && (c <=? 57).

(* a text key inside the range of prefix p is  p ++ "-" ++ a digit ++ ...  *)
Lemma text_in_range_shape p s :
  sql_cmp (SText s) (qkey_min (Some p)) = Gt -> sql_cmp (SText s) (qkey_max (Some p)) = Lt ->
  exists c rest, is_digit c = true /\ s = (p ++ [45]) ++ c :: rest.
Proof.
  cbn [qkey_min qkey_max]. rewrite !sql_cmp_text. intros G L.
  rewrite lex_cmp_antisym in G. apply (f_equal CompOpp) in G. rewrite CompOpp_involutive in G. cbn in G.
  change (p ++ push_smin) with (p ++ [45] ++ tl push_smin) in G.
  change (p ++ push_smax) with (p ++ [45] ++ tl push_smax) in L.
  rewrite app_assoc in G, L.
  destruct (lex_between_prefix (p ++ [45]) _ _ s G L) as [rest [-> [A B]]].
  destruct rest as [|c rest]; [cbn in A; discriminate|].
  exists c, rest. split; [|reflexivity].
  cbn [tl push_smin push_smax lex_cmp] in A, B.
  unfold is_digit. apply andb_true_iff. split; apply Z.leb_le.
  - destruct (Z.compare_spec 48 c); try discriminate; lia.
  - destruct (Z.compare_spec c 57); try discriminate; lia.
Qed.
