(* every micro-step of the machine is a transition of the stage automaton (so every tag sequence the
   machine can emit for a client is a path of the automaton the implementation traces are checked against) *)
From DC Require Import DCPrelude Conc ConcTrace.

Theorem step_is_transition (D R : Type) (c : config D R) i c' :
  cstep c i = Some c' ->
  trans_ok true (phase_of (c_pc (cl c i))) (step_tag c i) (phase_of (c_pc (cl c' i))) = true.
Proof.
  unfold cstep, step_tag.
  destruct (c_pc (cl c i)) as [|w f|w f|w f|w f o l|w f o|l fe res|f r|f res|f|r mo f hh m|r mo|] eqn:E; try discriminate.
  - destruct (c_todo (cl c i)) as [|[w|r] rest]; [discriminate| |].
    + destruct (w_store w); intros X; inversion X; subst; cbn; unfold upd_cl; rewrite Nat.eqb_refl; reflexivity.
    + unfold after_select. destruct (r_select r (db c)); intros X; inversion X; subst; cbn; unfold upd_cl; rewrite Nat.eqb_refl; reflexivity.
  - intros X; inversion X; subst; cbn; unfold upd_cl; rewrite Nat.eqb_refl; reflexivity.
  - destruct (lock c) as [[j wk]|].
    + destruct (w_retry w); intros X; inversion X; subst; cbn.
      * rewrite E. reflexivity.
      * unfold upd_cl; rewrite Nat.eqb_refl; reflexivity.
    + intros X; inversion X; subst; cbn; unfold upd_cl; rewrite Nat.eqb_refl; reflexivity.
  - destruct (lock c) as [[j wk]|]; [|discriminate].
    intros X; inversion X; subst; cbn; unfold upd_cl; rewrite Nat.eqb_refl; reflexivity.
  - destruct l; intros X; inversion X; subst; cbn; unfold upd_cl; rewrite Nat.eqb_refl; reflexivity.
  - destruct (bo_ok o); intros X; inversion X; subst; cbn; unfold upd_cl; rewrite Nat.eqb_refl; reflexivity.
  - destruct l as [|g l]; [destruct fe as [f|]|]; intros X; inversion X; subst; cbn; unfold upd_cl; rewrite Nat.eqb_refl;
      try reflexivity. destruct res; reflexivity.
  - intros X; inversion X; subst; cbn; unfold upd_cl; rewrite Nat.eqb_refl; reflexivity.
  - intros X; inversion X; subst; cbn; unfold upd_cl; rewrite Nat.eqb_refl; reflexivity.
  - destruct f; intros X; inversion X; subst; cbn; unfold upd_cl; rewrite Nat.eqb_refl; reflexivity.
  - destruct (files c f); [destruct (r_again r && negb (same_file mo f))|destruct (r_again r && negb (same_file mo f))|];
      intros X; inversion X; subst; cbn; unfold upd_cl; rewrite Nat.eqb_refl; reflexivity.
  - unfold after_select. destruct (r_select r (db c)); intros X; inversion X; subst; cbn; unfold upd_cl; rewrite Nat.eqb_refl; reflexivity.
Qed.

(* the stage order the machine (and the automaton) impose: removals of replaced files only after the
   commit decision, the value file complete before BEGIN, one body per transaction *)
Example accepted_set_file : accepts false [TCreate; TClose; TBegin; TBody; TCommit; TRemove] = true.
Proof. reflexivity. Qed.
Example rejected_remove_before_commit : accepts false [TCreate; TClose; TBegin; TBody; TRemove; TCommit] = false.
Proof. reflexivity. Qed.
Example rejected_store_inside_txn : accepts false [TBegin; TCreate; TClose; TBody; TCommit] = false.
Proof. reflexivity. Qed.
Example accepted_timeout_removes_file : accepts false [TCreate; TClose; TBeginBusy; TRemove] = true.
Proof. reflexivity. Qed.
Example accepted_pop : accepts false [TBegin; TBody; TCommit; TFetchRead; TRemove] = true.
Proof. reflexivity. Qed.
(* a lookup whose file is gone looks the row up again; it does not open two files after one SELECT *)
Example accepted_lookup_again :
  accepts false [TSelect; TOpenRead; TSelect; TOpenRead] = true /\ accepts false [TSelect; TOpenRead; TSelect] = true /\
  accepts false [TSelect; TOpenRead; TOpenRead] = false.
Proof. repeat split; reflexivity. Qed.
Example early_removal_only_in_blocks :
  accepts false [TBegin; TBody; TEarlyRm; TRollback] = false /\ accepts true [TBegin; TBody; TEarlyRm; TRollback] = true.
Proof. split; reflexivity. Qed.

Print Assumptions step_is_transition.
