(* C11, concurrent clause, at the level of atomic operations: whatever the interleaving of producers and
   consumers, the values handed out by popleft (in the order of the calls) followed by what is left in the
   deque are exactly the appended values in the order of the append calls -- so every appended item is
   popped at most once, none is lost, and each producer's items come out in that producer's order.
   Mirror image for appendleft / pop.  That each Deque call is one atomic step (a transaction of the
   underlying Cache) is the assumption taken from C05/C06. *)
From DC Require Import DCPrelude DCPreludeFacts PersistentBase Gen_Persistent QCache Deque
     PersistentBridge QCacheFacts DequeFacts.

(* a schedule of n clients is a list of (client, operation); atomicity makes the client irrelevant for
   the resulting state, so histories below are plain operation lists obtained by erasing the client *)
Definition erase {C} (sched : list (C * dq_op)) : list dq_op := map snd sched.

Fixpoint run_collect (d : deque) (os : list dq_op) : list val * deque :=
  match os with
  | [] => ([], d)
  | o :: r => let '(d', x) := dq_step d o in
              let '(popped, d'') := run_collect d' r in
              (match x with RVal v => v :: popped | _ => popped end, d'')
  end.

Definition appended (os : list dq_op) : list val :=
  flat_map (fun o => match o with OAppend v | OAppendLeft v => [v] | _ => [] end) os.

Definition fifo_op (o : dq_op) : bool := match o with OAppend _ | OPopLeft => true | _ => false end.
Definition lifo_mirror_op (o : dq_op) : bool := match o with OAppendLeft _ | OPop => true | _ => false end.

Lemma unbounded_step d o : DInv d -> dq_maxlen d = None -> (fifo_op o || lifo_mirror_op o) = true ->
  let '(d', x) := dq_step d o in
  DInv d' /\ dq_maxlen d' = None /\ ldq_step (absd d) o = (absd d', x).
Proof.
  intros I M F. pose proof (deque_refines d o I) as R. destruct (dq_step d o) as [d' x] eqn:E.
  destruct R as [I' R]. split; [exact I'|]. split; [|exact R].
  assert (L : l_maxlen (absd d') = None).
  { replace (absd d') with (fst (ldq_step (absd d) o)) by (rewrite R; reflexivity).
    unfold absd at 1. rewrite M. destruct o; try discriminate F; cbn [ldq_step];
      repeat match goal with |- context [match ?t with _ => _ end] => destruct t end; reflexivity. }
  unfold absd in L. cbn in L. destruct (dq_maxlen d'); [discriminate|reflexivity].
Qed.

Theorem deque_fifo_exactly_once : forall os d, DInv d -> dq_maxlen d = None -> forallb fifo_op os = true ->
  let '(popped, d') := run_collect d os in popped ++ view d' = view d ++ appended os.
Proof.
  induction os as [|o os IH]; intros d I M F; cbn [run_collect appended flat_map].
  - rewrite app_nil_r. reflexivity.
  - cbn [forallb] in F. apply andb_true_iff in F as [Fo F].
    pose proof (unbounded_step d o I M) as S. rewrite Fo in S. specialize (S eq_refl).
    destruct (dq_step d o) as [d' x]. destruct S as [I' [M' R]].
    specialize (IH d' I' M' F). destruct (run_collect d' os) as [popped d''].
    fold (appended os). unfold absd in R. rewrite M, M' in R. cbn [option_map] in R.
    destruct o; try discriminate Fo; cbn [ldq_step l_items l_maxlen ldq_with] in R.
    + (* append *) inversion R as [[V X]]. rewrite IH, <- V. unfold l_append. cbn. rewrite <- app_assoc. reflexivity.
    + (* popleft *) destruct (view d) as [|y l] eqn:Ev; inversion R as [[V X]]; cbn [app]; rewrite IH, <- V; reflexivity.
Qed.

Theorem deque_lifo_mirror_exactly_once : forall os d, DInv d -> dq_maxlen d = None -> forallb lifo_mirror_op os = true ->
  let '(popped, d') := run_collect d os in popped ++ rev (view d') = rev (view d) ++ appended os.
Proof.
  induction os as [|o os IH]; intros d I M F; cbn [run_collect appended flat_map].
  - rewrite app_nil_r. reflexivity.
  - cbn [forallb] in F. apply andb_true_iff in F as [Fo F].
    pose proof (unbounded_step d o I M) as S. rewrite Fo, orb_true_r in S. specialize (S eq_refl).
    destruct (dq_step d o) as [d' x]. destruct S as [I' [M' R]].
    specialize (IH d' I' M' F). destruct (run_collect d' os) as [popped d''].
    fold (appended os). unfold absd in R. rewrite M, M' in R. cbn [option_map] in R.
    destruct o; try discriminate Fo; cbn [ldq_step l_items l_maxlen ldq_with] in R.
    + (* appendleft *) inversion R as [[V X]]. rewrite IH, <- V. unfold l_appendleft. cbn. rewrite <- app_assoc. reflexivity.
    + (* pop *) destruct (rev (view d)) as [|y l] eqn:Ev; inversion R as [[V X]]; cbn [app]; rewrite IH, <- V.
      * rewrite Ev. reflexivity.
      * rewrite rev_involutive. reflexivity.
Qed.

(* per-producer order: restricting both sides to the values of one producer (any predicate on values) *)
Corollary deque_fifo_per_producer : forall (mine : val -> bool) os d,
  DInv d -> dq_maxlen d = None -> forallb fifo_op os = true ->
  let '(popped, d') := run_collect d os in
  filter mine popped ++ filter mine (view d') = filter mine (view d) ++ filter mine (appended os).
Proof.
  intros mine os d I M F. pose proof (deque_fifo_exactly_once os d I M F) as E.
  destruct (run_collect d os) as [popped d']. rewrite <- !filter_app. rewrite E. reflexivity.
Qed.

(* non-vacuity: two producers, two consumers, one interleaving *)
Example fifo_example :
  run_collect (dq_new None []) (erase [(1%nat, OAppend 10); (2%nat, OAppend 20); (3%nat, OPopLeft); (1%nat, OAppend 11); (4%nat, OPopLeft); (4%nat, OPopLeft); (3%nat, OPopLeft)])
  = ([10; 20; 11], dq_new None []).
Proof. vm_compute. reflexivity. Qed.
