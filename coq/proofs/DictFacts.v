(* Dictionary laws of the row-level model (the dictionary clauses of C03), for every state satisfying the
   invariant Sinv of SinvFacts.v, every codec, every key of the key domain.

   The lookups get / contains depend on the state only through the VIEW of their key: the rows the key
   addresses, with the content of their value files (`kview`).  Each law is a statement about views:
     (a) set k v makes the view of k the single row holding v;
     (b) an operation on k1 leaves the view of every other key k2 alone (no shadowing);
     (c) delete / pop empty the view of their key;
     (d) add is a no-op on a live key and is set otherwise;
     (e) incr on a live int item adds delta in place.
   (a), (b), (e) are stated for cull_limit = 0 (no lazy removal during writes). *)
From Coq Require Import ZArith List Bool Lia Sorted Permutation.
From DC Require Import DCPrelude DCPreludeFacts Val DiskBase SqlBase Gen_Disk Disk Gen_Sql Cache Refs
  TableFacts TableRows SqlBridge ExpiryFacts DiskFacts SortFacts SqlOrderFacts SinvFacts.

(* ================================================================== bridge lemmas *)
(* incr's UPDATE, on the row it addresses: new value, everything a lookup reports is kept *)
Lemma bridge_incr_update_fields p now v r :
  let r' := incr_update p now v (rowid r) r in
  expire_time r' = expire_time r /\ rtag r' = rtag r /\ rmode r' = rmode r /\ rvalue r' = v.
Proof.
  unfold incr_update. destruct p;
    unfold incr_update_plain_where, incr_update_PLRU_where, incr_update_PLFU_where, tvz_eq; rewrite Z.eqb_refl; cbn [truthy];
    repeat split.
Qed.

(* ================================================================== list helpers *)
Lemma filter_andb {A} (p q : A -> bool) l : filter (fun x => p x && q x) l = filter q (filter p l).
Proof.
  induction l as [|x l IH]; [reflexivity|]. cbn [filter]. destruct (p x); cbn [andb filter]; [|exact IH].
  destruct (q x); rewrite IH; reflexivity.
Qed.

Lemma filter_map_pair {A B} (q : A -> bool) (g : A -> B) l :
  filter (fun p => q (fst p)) (map (fun r => (r, g r)) l) = map (fun r => (r, g r)) (filter q l).
Proof. induction l as [|x l IH]; [reflexivity|]. cbn. destruct (q x); cbn; rewrite IH; reflexivity. Qed.

Lemma filter_unique {A} (p : A -> bool) t x :
  NoDup t -> In x t -> p x = true -> (forall y, In y t -> p y = true -> y = x) -> filter p t = [x].
Proof.
  induction t as [|a t IH]; intros N I Px U; [destruct I|]. inversion N as [|? ? Na Nt]; subst. cbn [filter].
  destruct I as [->|I].
  - rewrite Px. f_equal. apply filter_none. intros y Iy. destruct (p y) eqn:Py; [|reflexivity].
    exfalso. apply Na. rewrite <- (U y (or_intror Iy) Py). exact Iy.
  - destruct (p a) eqn:Pa.
    + exfalso. apply Na. rewrite (U a (or_introl eq_refl) Pa). exact I.
    + apply IH; auto. intros y Iy. apply U. right. exact Iy.
Qed.

Lemma filter_map_same {A} (p : A -> bool) (g : A -> A) l :
  (forall x, In x l -> g x = x \/ (p x = false /\ p (g x) = false)) -> filter p (map g l) = filter p l.
Proof.
  induction l as [|x l IH]; intros H; [reflexivity|]. cbn [map filter].
  rewrite IH by (intros y I; apply H; right; exact I).
  destruct (H x (or_introl eq_refl)) as [->|[-> ->]]; reflexivity.
Qed.

(* ================================================================== small state facts *)
Lemma fs_t_update wh f s : fs (t_update wh f s) = fs s /\ next_file (t_update wh f s) = next_file s.
Proof. unfold t_update. destruct (upd_rows _ _ _ _) as [t' sz']. split; reflexivity. Qed.
Lemma fs_t_delete wh s : fs (t_delete wh s) = fs s /\ next_file (t_delete wh s) = next_file s.
Proof. unfold t_delete. destruct (del_rows _ _ _ _) as [[t' c'] s']. split; reflexivity. Qed.
Lemma fs_bump s b : fs (bump s b) = fs s.
Proof. unfold bump. destruct (statistics s), b; reflexivity. Qed.

Lemma fs_lookup_ext s s' o : fs s' = fs s -> fs_lookup s' o = fs_lookup s o.
Proof. unfold fs_lookup. intros ->. reflexivity. Qed.

(* ================================================================== keys *)
(* (the key_domain hypothesis is no longer needed: DiskFacts.put_never_null; kept for the callers) *)
Lemma put_nonnull c k dbk raw : key_domain k = true -> put c k = PutOk dbk raw -> dbk <> SNull.
Proof. intros _ P. exact (proj1 (put_never_null c k dbk raw P)). Qed.

(* a row carrying database key (k1, r1) is not addressed by a different database key *)
Lemma db_same_false_row k1 r1 k2 r2 n :
  db_same (PutOk k1 r1) (PutOk k2 r2) = false -> rkey n = k1 -> rraw n = r1 -> key_match k2 (b2z r2) n = false.
Proof.
  intros D K R. destruct (key_match k2 (b2z r2) n) eqn:M; [|reflexivity].
  apply key_match_spec in M as [_ [_ [C Z]]]. rewrite K in C. rewrite R in Z. apply b2z_inj in Z. subst.
  cbn in D. rewrite eqb_reflx, C in D. discriminate.
Qed.

Lemma other_key_row k1 r1 k2 r2 r :
  db_same (PutOk k1 r1) (PutOk k2 r2) = false -> sv_wf (rkey r) = true ->
  key_match k1 (b2z r1) r = true -> key_match k2 (b2z r2) r = false.
Proof.
  intros D W M1. destruct (key_match k2 (b2z r2) r) eqn:M2; [|reflexivity].
  destruct (key_match_same_key _ _ _ _ r W M1 M2) as [C Z]. apply b2z_inj in Z. subst.
  cbn in D. rewrite eqb_reflx, C in D. discriminate.
Qed.

Lemma key_match_self k raw n : k <> SNull -> rkey n = k -> rraw n = raw -> key_match k (b2z raw) n = true.
Proof. intros N K R. apply key_match_spec. rewrite K, R. repeat split; auto. apply sql_cmp_refl. Qed.

(* two keys that differ under the documented rule are different database keys *)
Definition other_key (c : cfg) (k1 k2 : pyval) : Prop :=
  pkk_inj (c_codec c) /\ key_domain k1 = true /\ key_domain k2 = true /\ key_eq k1 k2 = false.

Lemma other_db_same c k1 k2 dbk1 raw1 dbk2 raw2 :
  other_key c k1 k2 -> put (c_codec c) k1 = PutOk dbk1 raw1 -> put (c_codec c) k2 = PutOk dbk2 raw2 ->
  db_same (PutOk dbk1 raw1) (PutOk dbk2 raw2) = false.
Proof.
  intros [Inj [D1 [D2 Ne]]] P1 P2. rewrite <- P1, <- P2, (key_identity _ _ _ Inj D1 D2). exact Ne.
Qed.

(* ================================================================== the view of a key *)
Definition kview (s : st) (k : sqlval) (z : Z) : list (row * option fcontent) :=
  map (fun r => (r, fs_lookup s (rfile r))) (filter (key_match k z) (rows s)).

Definition get_res (c : cfg) (rd : bool) (now : Z) (v : list (row * option fcontent)) : result :=
  match filter (fun p => live_at now (fst p)) v with
  | [] => RDefault
  | p :: _ => match fetch (c_codec c) (rmode (fst p)) (snd p) (rvalue (fst p)) rd with
              | FIOError => RDefault
              | x => RVal x (expire_time (fst p)) (rtag (fst p))
              end
  end.
Definition contains_res (now : Z) (v : list (row * option fcontent)) : result :=
  RBool (negb (is_nil (filter (fun p => live_at now (fst p)) v))).

(* get and contains see the state only through the view of their key *)
Lemma get_by_view c s k rd now dbk raw :
  put (c_codec c) k = PutOk dbk raw -> snd (op_get c s k rd now) = get_res c rd now (kview s dbk (b2z raw)).
Proof.
  intros P. unfold op_get, get_res, kview. rewrite P, bridge_get_select, filter_andb, filter_map_pair.
  destruct (filter (live_at now) (filter (key_match dbk (b2z raw)) (rows s))) as [|r0 rs]; cbn [map fst snd].
  - destruct (get_fast_path _ _); reflexivity.
  - unfold fetch_row. destruct (get_fast_path _ _); destruct (fetch _ _ _ _ _); reflexivity.
Qed.

Lemma contains_by_view c s k now dbk raw :
  put (c_codec c) k = PutOk dbk raw -> snd (op_contains c s k now) = contains_res now (kview s dbk (b2z raw)).
Proof.
  intros P. unfold op_contains, contains_res, kview. rewrite P, bridge_contains_select, filter_andb, filter_map_pair.
  cbn [snd]. destruct (filter _ (filter _ _)); reflexivity.
Qed.

(* s' shows every lookup of key k what s shows *)
Definition same_view (c : cfg) (s s' : st) (k : pyval) : Prop :=
  forall dbk raw, put (c_codec c) k = PutOk dbk raw -> kview s' dbk (b2z raw) = kview s dbk (b2z raw).

Theorem same_view_lookups c s s' k : same_view c s s' k ->
  forall rd now, snd (op_get c s' k rd now) = snd (op_get c s k rd now) /\
                 snd (op_contains c s' k now) = snd (op_contains c s k now).
Proof.
  intros V rd now. destruct (put (c_codec c) k) as [dbk raw|] eqn:P.
  - rewrite !(get_by_view _ _ _ _ _ _ _ P), !(contains_by_view _ _ _ _ _ _ P), (V _ _ P). auto.
  - unfold op_get, op_contains. rewrite P. auto.
Qed.

Lemma same_view_refl c s k : same_view c s s k.
Proof. intros dbk raw _. reflexivity. Qed.

(* ---- frames: what leaves a view alone ---- *)
Lemma kview_frame s s' k z :
  filter (key_match k z) (rows s') = filter (key_match k z) (rows s) ->
  (forall r, In r (rows s) -> key_match k z r = true -> fs_lookup s' (rfile r) = fs_lookup s (rfile r)) ->
  kview s' k z = kview s k z.
Proof.
  intros E H. unfold kview. rewrite E. apply map_ext_in. intros r I. apply filter_In in I as [I M]. rewrite H; auto.
Qed.

Lemma frame_write s oc s1 fid k z : fs_write s oc = (s1, fid) -> Winv s -> kview s1 k z = kview s k z.
Proof.
  intros Wr W. destruct (pinv_fs_write s _ oc s1 fid Wr (winv_pinv s W)) as [_ [R1 [_ [_ [G _]]]]].
  apply kview_frame; [rewrite R1; reflexivity|]. intros r I _. unfold fs_lookup.
  pose proof (w_file s W r I) as F. unfold file_ok in F. destruct (rfile r) as [g|]; [|reflexivity].
  destruct F as [c0 [F _]]. apply G. eapply fs_get_in, F.
Qed.

Lemma frame_insert mk s k z : key_match k z (mk (next_rowid (rows s))) = false -> kview (t_insert mk s) k z = kview s k z.
Proof.
  intros M. apply kview_frame; [|intros; reflexivity].
  rewrite rows_t_insert, filter_app. cbn [filter]. rewrite M. apply app_nil_r.
Qed.

Lemma frame_update s wh f r0 k z :
  Winv s -> In r0 (rows s) -> (forall r, wh r = (rowid r =? rowid r0)) -> keeps_id f -> key_match k z r0 = false ->
  kview (t_update wh f s) k z = kview s k z.
Proof.
  intros W I0 Hwh Ki M. apply kview_frame; [|intros; apply fs_lookup_ext, fs_t_update].
  rewrite rows_t_update. apply filter_map_same. intros x Ix. rewrite Hwh.
  destruct (Z.eqb_spec (rowid x) (rowid r0)) as [E|N]; [|left; reflexivity].
  assert (x = r0) by (eapply rowid_unique; eauto; apply W). subst x. right. split; [exact M|].
  rewrite (key_match_cols k z (f r0) r0); [exact M|apply Ki|apply Ki].
Qed.

Lemma frame_delete s wh r0 k z :
  Winv s -> In r0 (rows s) -> (forall r, wh r = (rowid r =? rowid r0)) -> key_match k z r0 = false ->
  kview (t_delete wh s) k z = kview s k z.
Proof.
  intros W I0 Hwh M. apply kview_frame; [|intros; apply fs_lookup_ext, fs_t_delete].
  rewrite rows_t_delete. apply filter_absorb. intros x Ix Mx. rewrite Hwh.
  destruct (Z.eqb_spec (rowid x) (rowid r0)) as [E|N]; [|reflexivity].
  assert (x = r0) by (eapply rowid_unique; eauto; apply W). subst x. congruence.
Qed.

Lemma frame_remove_unref s l k z : (forall g, In (Some g) l -> ~ In g (refs s)) -> kview (fs_remove s l) k z = kview s k z.
Proof.
  intros H. apply kview_frame; [rewrite rows_fs_remove; reflexivity|]. intros r I _. unfold fs_lookup.
  destruct (rfile r) as [g|] eqn:E; [|reflexivity]. apply fs_get_fs_remove. intros I'. apply (H g I').
  apply in_frefs. eauto.
Qed.

Lemma frame_bump s b k z : kview (bump s b) k z = kview s k z.
Proof. apply kview_frame; [rewrite rows_bump; reflexivity|]. intros. apply fs_lookup_ext, fs_bump. Qed.

(* the file of a deleted row is referenced by no remaining row *)
Lemma delete_one_unref s wh r0 :
  Winv s -> In r0 (rows s) -> (forall r, wh r = (rowid r =? rowid r0)) ->
  forall g, In (Some g) [rfile r0] -> ~ In g (refs (t_delete wh s)).
Proof.
  intros W I0 Hwh g Ig.
  destruct (pinv_delete_sel s _ wh [r0] (winv_pinv s W) (sel_of_one _ _ I0)) as [_ [Pm _]].
  { intros r _. rewrite Hwh, mem_rowid_one. reflexivity. }
  eapply perm_split_disj; [apply (w_refs_nd s W)|exact Pm|]. apply in_somes. exact Ig.
Qed.

(* ================================================================== the operations without lazy cull *)
Section NoCull.
  Variable c : cfg.
  Hypothesis NoCull : c_cull_limit c = 0.

  (* ---- the insert / update tails of set, add, incr ---- *)
  Lemma frame_tail_insert s sd v rd s1 fid dbk1 raw1 now exp tag k z :
    Sinv s -> store (c_codec c) (c_min_file_size c) v rd = StOk sd -> fs_write s (s_file sd) = (s1, fid) ->
    (forall n, rkey n = dbk1 -> rraw n = raw1 -> key_match k z n = false) ->
    kview (t_insert (columns_insert dbk1 raw1 now exp tag sd fid) s1) k z = kview s k z.
  Proof.
    intros H St Wr D. rewrite frame_insert; [eapply frame_write; [exact Wr|apply H]|].
    apply D; reflexivity.
  Qed.

  Lemma frame_tail_update s sd v rd s1 fid r0 now exp tag k z l :
    Sinv s -> store (c_codec c) (c_min_file_size c) v rd = StOk sd -> fs_write s (s_file sd) = (s1, fid) ->
    In r0 (rows s) -> key_match k z r0 = false -> (forall o, In o l -> o = rfile r0) ->
    kview (fs_remove (columns_update (rowid r0) now exp tag sd fid s1) l) k z = kview s k z.
  Proof.
    intros H St Wr I0 M Hl. destruct (write_phase c s sd v rd s1 fid H St Wr) as [H1 [R1 Fok]].
    assert (I1 : In r0 (rows s1)) by (rewrite R1; exact I0).
    destruct (pinv_columns_update s1 _ r0 now exp tag sd fid H1 I1 Fok) as [_ [_ [_ [_ [Nr _]]]]].
    rewrite frame_remove_unref.
    - unfold columns_update. rewrite (frame_update s1 _ _ r0); [eapply frame_write; [exact Wr|apply H]|apply H1|exact I1| | |exact M].
      + intros r. apply bridge_row_update_where.
      + apply bridge_row_update_keeps_id.
    - intros g I. apply Hl in I. apply Nr. auto.
  Qed.

  Lemma fs_remove_nil s : fs_remove s [] = s.
  Proof. reflexivity. Qed.

  (* ---- (b) no shadowing ---- *)
  Section Other.
    Variables (k1 k2 : pyval).
    Hypothesis Hother : other_key c k1 k2.

    Lemma set_frame s v rd e tag now pg : Sinv s -> same_view c s (fst (op_set c s k1 v rd e tag now pg)) k2.
    Proof.
      intros H dbk2 raw2 P2. unfold op_set. destruct (put (c_codec c) k1) as [dbk1 raw1|] eqn:P1; [|reflexivity].
      pose proof (other_db_same c k1 k2 _ _ _ _ Hother P1 P2) as D.
      destruct (store _ _ v rd) as [sd|] eqn:St; [|reflexivity].
      destruct (fs_write s (s_file sd)) as [s1 fid] eqn:Wr.
      assert (R1 : rows s1 = rows s).
      { pose proof (rows_fs_write s (s_file sd)) as R. rewrite Wr in R. exact R. }
      rewrite bridge_set_select, R1.
      destruct (filter (key_match dbk1 (b2z raw1)) (rows s)) as [|r0 rs] eqn:F; cbv beta iota zeta;
        rewrite cull_disabled_0 by exact NoCull; cbn [fst app].
      - rewrite fs_remove_nil. eapply frame_tail_insert; eauto. intros n K R. eapply db_same_false_row; eauto.
      - apply filter_cons_in in F as [I0 M0]. eapply frame_tail_update; eauto.
        + eapply other_key_row; eauto. apply H, I0.
        + intros o [<-|[]]. reflexivity.
    Qed.

    Lemma delete_frame s di now : Sinv s -> same_view c s (fst (op_delete c s k1 di now)) k2.
    Proof.
      intros H dbk2 raw2 P2. unfold op_delete. destruct (put (c_codec c) k1) as [dbk1 raw1|] eqn:P1; [|reflexivity].
      pose proof (other_db_same c k1 k2 _ _ _ _ Hother P1 P2) as D.
      rewrite bridge_del_select. destruct (filter _ (rows s)) as [|r0 rs] eqn:F; [reflexivity|]. cbn [fst].
      apply filter_cons_in in F as [I0 M0]. apply andb_true_iff in M0 as [M0 _].
      assert (Hwh : forall r, del_delete (rowid r0) (rows s) r = (rowid r =? rowid r0)) by (intros; apply bridge_del_delete).
      rewrite frame_remove_unref by (apply delete_one_unref; auto; apply H).
      apply (frame_delete s _ r0); auto; [apply H|]. eapply other_key_row; eauto. apply H, I0.
    Qed.

    Lemma pop_frame s now : Sinv s -> same_view c s (fst (op_pop c s k1 now)) k2.
    Proof.
      intros H dbk2 raw2 P2. unfold op_pop. destruct (put (c_codec c) k1) as [dbk1 raw1|] eqn:P1; [|reflexivity].
      pose proof (other_db_same c k1 k2 _ _ _ _ Hother P1 P2) as D.
      rewrite bridge_pop_select. destruct (filter _ (rows s)) as [|r0 rs] eqn:F; [reflexivity|]. cbv zeta.
      apply filter_cons_in in F as [I0 M0]. apply andb_true_iff in M0 as [M0 _].
      assert (Hwh : forall r, pop_delete (rowid r0) (rows s) r = (rowid r =? rowid r0)) by (intros; apply bridge_pop_delete).
      assert (U : kview (fs_remove (t_delete (pop_delete (rowid r0) (rows s)) s) [rfile r0]) dbk2 (b2z raw2) = kview s dbk2 (b2z raw2)).
      { rewrite frame_remove_unref by (apply delete_one_unref; auto; apply H).
        apply (frame_delete s _ r0); auto; [apply H|]. eapply other_key_row; eauto. apply H, I0. }
      destruct (fetch_row _ _ _ _); exact U.
    Qed.

    Lemma touch_frame s e now : Sinv s -> same_view c s (fst (op_touch c s k1 e now)) k2.
    Proof.
      intros H dbk2 raw2 P2. unfold op_touch. destruct (put (c_codec c) k1) as [dbk1 raw1|] eqn:P1; [|reflexivity].
      pose proof (other_db_same c k1 k2 _ _ _ _ Hother P1 P2) as D.
      rewrite bridge_touch_select. destruct (filter _ (rows s)) as [|r0 rs] eqn:F; [reflexivity|].
      apply filter_cons_in in F as [I0 M0]. destruct (touch_live _ _); [|reflexivity]. cbn [fst].
      apply (frame_update s _ _ r0); [apply H|exact I0| | |].
      - intros r. apply bridge_touch_update_where.
      - apply bridge_touch_update_keeps_id.
      - eapply other_key_row; eauto. apply H, I0.
    Qed.

    Lemma incr_frame s d df now pg : Sinv s -> same_view c s (fst (op_incr c s k1 d df now pg)) k2.
    Proof.
      intros H dbk2 raw2 P2. unfold op_incr. destruct (put (c_codec c) k1) as [dbk1 raw1|] eqn:P1; [|reflexivity].
      pose proof (other_db_same c k1 k2 _ _ _ _ Hother P1 P2) as D.
      assert (Fr : forall upd,
        match upd with Some r0 => In r0 (rows s) /\ key_match dbk1 (b2z raw1) r0 = true | None => True end ->
        kview (fst (match df with
          | None => (s, RRaise EKeyError)
          | Some d0 =>
            match store (c_codec c) (c_min_file_size c) (VInt (d0 + d)) false with
            | StRaise => (s, RRaise EStore)
            | StOk sd =>
              let '(s1, fid) := fs_write s (s_file sd) in
              let s2 := match upd with
                        | None => t_insert (columns_insert dbk1 raw1 now None SNull sd fid) s1
                        | Some r0 => columns_update (rowid r0) now None SNull sd fid s1
                        end in
              let '(s3, cl2) := cull c now pg s2 in
              (fs_remove s3 (cl2 ++ match upd with Some r0 => [rfile r0] | None => [] end), RVal (FVal (VInt (d0 + d))) None SNull)
            end
          end)) dbk2 (b2z raw2) = kview s dbk2 (b2z raw2)).
      { intros upd Hu. destruct df as [d0|]; [|reflexivity].
        destruct (store _ _ _ _) as [sd|] eqn:St; [|reflexivity].
        destruct (fs_write s (s_file sd)) as [s1 fid] eqn:Wr. cbv zeta.
        rewrite cull_disabled_0 by exact NoCull. cbn [fst app]. destruct upd as [r0|].
        - destruct Hu as [I0 M0]. eapply frame_tail_update; eauto.
          + eapply other_key_row; eauto. apply H, I0.
          + intros o [<-|[]]. reflexivity.
        - rewrite fs_remove_nil. eapply frame_tail_insert; eauto. intros n K R. eapply db_same_false_row; eauto. }
      rewrite bridge_incr_select. destruct (filter _ (rows s)) as [|r0 rs] eqn:F; [apply (Fr None), I|].
      apply filter_cons_in in F as [I0 M0].
      destruct (incr_expired _ _); [apply (Fr (Some r0)); auto|].
      destruct (rvalue r0); try reflexivity. destruct (in_int64 _); [|reflexivity]. cbn [fst].
      apply (frame_update s _ _ r0); [apply H|exact I0|reflexivity| |].
      - apply bridge_incr_update_keeps_id.
      - eapply other_key_row; eauto. apply H, I0.
    Qed.

    (* (b) no shadowing: what get / contains report for k2 is the same before and after an operation on k1 *)
    Theorem no_shadowing s rd' now' :
      Sinv s ->
      let same s' := snd (op_get c s' k2 rd' now') = snd (op_get c s k2 rd' now') /\
                     snd (op_contains c s' k2 now') = snd (op_contains c s k2 now') in
      (forall v rd e tag now pg, same (fst (op_set c s k1 v rd e tag now pg))) /\
      (forall di now, same (fst (op_delete c s k1 di now))) /\
      (forall now, same (fst (op_pop c s k1 now))) /\
      (forall e now, same (fst (op_touch c s k1 e now))) /\
      (forall d df now pg, same (fst (op_incr c s k1 d df now pg))).
    Proof.
      intros H same. unfold same. repeat split; intros; apply same_view_lookups;
        auto using set_frame, delete_frame, pop_frame, touch_frame, incr_frame.
    Qed.
  End Other.

  (* ---- (a) get after set ---- *)
  Lemma view_after_set s k v rd e tag now pg dbk raw sd :
    Sinv s -> key_domain k = true -> put (c_codec c) k = PutOk dbk raw ->
    store (c_codec c) (c_min_file_size c) v rd = StOk sd ->
    exists r', kview (fst (op_set c s k v rd e tag now pg)) dbk (b2z raw) = [(r', s_file sd)] /\
               expire_time r' = expire_at now e /\ rtag r' = tag /\ rmode r' = s_mode sd /\ rvalue r' = s_col sd.
  Proof.
    intros H Dk P St. unfold op_set. rewrite P, St.
    destruct (fs_write s (s_file sd)) as [s1 fid] eqn:Wr.
    destruct (write_phase c s sd v rd s1 fid H St Wr) as [H1 [R1 Fok]].
    destruct (pinv_fs_write s _ (s_file sd) s1 fid Wr (proj1 (sinv_pinv s) H)) as [_ [_ [_ [Lk _]]]].
    pose proof (put_nonnull _ _ _ _ Dk P) as Nn.
    rewrite bridge_set_select, R1.
    destruct (filter (key_match dbk (b2z raw)) (rows s)) as [|r0 rs] eqn:F; cbv beta iota zeta;
      rewrite cull_disabled_0 by exact NoCull; cbn [fst app].
    - rewrite fs_remove_nil.
      set (n := columns_insert dbk raw now (expire_at now e) tag sd fid (next_rowid (rows s1))).
      exists n. split; [|repeat split].
      unfold kview. rewrite rows_t_insert, filter_app. fold n. rewrite R1, F. cbn [app filter].
      rewrite (key_match_self dbk raw n Nn eq_refl eq_refl). cbn [map]. f_equal. f_equal. exact Lk.
    - apply filter_cons_in in F as [I0 M0].
      assert (I1 : In r0 (rows s1)) by (rewrite R1; exact I0).
      destruct (pinv_columns_update s1 _ r0 now (expire_at now e) tag sd fid H1 I1 Fok) as [H2 [_ [Fs2 [_ [_ [a [b [_ [E2 _]]]]]]]]].
      set (f := row_update_set now (expire_at now e) now 0 tag (s_size sd) (s_mode sd) fid (s_col sd) (rowid r0)) in *.
      set (s2 := columns_update (rowid r0) now (expire_at now e) tag sd fid s1) in *.
      assert (M2 : key_match dbk (b2z raw) (f r0) = true).
      { rewrite (key_match_cols _ _ (f r0) r0); [exact M0|reflexivity|reflexivity]. }
      assert (I2 : In (f r0) (rows s2)) by (rewrite E2; apply in_or_app; right; left; reflexivity).
      exists (f r0). split; [|repeat split].
      unfold kview. rewrite rows_fs_remove.
      rewrite (filter_unique (key_match dbk (b2z raw)) (rows s2) (f r0)); [|apply rows_nodup, H2|exact I2|exact M2|].
      + cbn [map]. f_equal. f_equal. change (rfile (f r0)) with fid. rewrite <- Lk. unfold fs_lookup.
        destruct fid as [g|]; [|reflexivity]. rewrite fs_get_fs_remove; [rewrite Fs2; reflexivity|].
        intros [E|[]]. destruct Fok as [Nr _]. apply Nr. apply in_frefs. eauto.
      + intros y Iy My. eapply (lookup_unique (rows s2)); eauto; [apply H2|eapply put_wf; eauto].
  Qed.

  Lemma set_ok_inv s k v rd e tag now pg :
    snd (op_set c s k v rd e tag now pg) = RBool true ->
    exists dbk raw sd, put (c_codec c) k = PutOk dbk raw /\ store (c_codec c) (c_min_file_size c) v rd = StOk sd.
  Proof.
    unfold op_set. destruct (put _ k) as [dbk raw|]; [|discriminate].
    destruct (store _ _ v rd) as [sd|]; [|discriminate]. eauto.
  Qed.

  (* what a lookup right after set k v sees, in terms of what Disk.store produced *)
  Lemma get_after_set_gen s k v rd e tag now pg dbk raw sd rd' now' :
    Sinv s -> key_domain k = true -> put (c_codec c) k = PutOk dbk raw ->
    store (c_codec c) (c_min_file_size c) v rd = StOk sd ->
    live_opt now' (expire_at now e) = true ->
    snd (op_get c (fst (op_set c s k v rd e tag now pg)) k rd' now') =
      match fetch (c_codec c) (s_mode sd) (s_file sd) (s_col sd) rd' with
      | FIOError => RDefault
      | x => RVal x (expire_at now e) tag
      end /\
    snd (op_contains c (fst (op_set c s k v rd e tag now pg)) k now') = RBool true.
  Proof.
    intros H Dk P St L.
    destruct (view_after_set s k v rd e tag now pg dbk raw sd H Dk P St) as [r' [V [Ee [Et [Em Ev]]]]].
    rewrite (get_by_view _ _ _ _ _ _ _ P), (contains_by_view _ _ _ _ _ _ P), V.
    unfold get_res, contains_res. cbn [filter fst snd]. unfold live_at. rewrite Ee, L. cbn [fst snd is_nil negb].
    rewrite Em, Ev, Ee, Et. auto.
  Qed.

  (* (a) get after set: the value comes back unchanged, with expiry now+ttl and the tag *)
  Theorem get_after_set s k v rd e tag now pg now' :
    Sinv s -> codec_ok (c_codec c) -> key_domain k = true -> shape_ok v rd = true ->
    snd (op_set c s k v rd e tag now pg) = RBool true ->
    live_opt now' (expire_at now e) = true ->
    snd (op_get c (fst (op_set c s k v rd e tag now pg)) k false now') = RVal (FVal (expected v)) (expire_at now e) tag /\
    snd (op_contains c (fst (op_set c s k v rd e tag now pg)) k now') = RBool true.
  Proof.
    intros H Hc Dk Hs Ok L. destruct (set_ok_inv _ _ _ _ _ _ _ _ Ok) as [dbk [raw [sd [P St]]]].
    destruct (get_after_set_gen s k v rd e tag now pg dbk raw sd false now' H Dk P St L) as [G C].
    destruct (store_fetch_roundtrip _ _ _ _ _ Hc Hs St) as [F _]. rewrite F in G. auto.
  Qed.

  (* a stream stored with read=True comes back as an open handle when read with read=True *)
  Theorem get_after_set_stream s k b e tag now pg now' :
    Sinv s -> codec_ok (c_codec c) -> key_domain k = true ->
    snd (op_set c s k (VStream b) true e tag now pg) = RBool true ->
    live_opt now' (expire_at now e) = true ->
    snd (op_get c (fst (op_set c s k (VStream b) true e tag now pg)) k true now') = RVal (FHandleOn b) (expire_at now e) tag.
  Proof.
    intros H Hc Dk Ok L. destruct (set_ok_inv _ _ _ _ _ _ _ _ Ok) as [dbk [raw [sd [P St]]]].
    destruct (get_after_set_gen s k (VStream b) true e tag now pg dbk raw sd true now' H Dk P St L) as [G _].
    destruct (store_fetch_roundtrip _ _ (VStream b) true _ Hc eq_refl St) as [_ [F _]]. rewrite (F b eq_refl) in G. exact G.
  Qed.

  (* set keeps the position of an existing key and appends a new one (iteration order) *)
  Theorem set_position s k v rd e tag now pg dbk raw :
    put (c_codec c) k = PutOk dbk raw -> snd (op_set c s k v rd e tag now pg) = RBool true ->
    keys_of (rows (fst (op_set c s k v rd e tag now pg))) =
      match filter (key_match dbk (b2z raw)) (rows s) with
      | [] => keys_of (rows s) ++ [(dbk, raw)]
      | _ :: _ => keys_of (rows s)
      end.
  Proof.
    intros P Ok. destruct (set_ok_inv _ _ _ _ _ _ _ _ Ok) as [dbk' [raw' [sd [P' St]]]]. unfold op_set. rewrite P, St.
    destruct (fs_write s (s_file sd)) as [s1 fid] eqn:Wr.
    assert (R1 : rows s1 = rows s).
    { pose proof (rows_fs_write s (s_file sd)) as R. rewrite Wr in R. exact R. }
    rewrite bridge_set_select, R1.
    destruct (filter (key_match dbk (b2z raw)) (rows s)) as [|r0 rs] eqn:F; cbv beta iota zeta;
      rewrite cull_disabled_0 by exact NoCull; cbn [fst app]; rewrite rows_fs_remove.
    - rewrite rows_t_insert, R1. unfold keys_of. rewrite map_app. reflexivity.
    - unfold columns_update. rewrite rows_t_update, R1. unfold keys_of. rewrite map_map. apply map_ext.
      intros r. destruct (row_update_where _ _ _ _ _ _ _ _ _ _ r); reflexivity.
  Qed.
End NoCull.

(* ================================================================== (c) delete / pop *)
Lemma view_after_remove s wh r0 k z :
  Winv s -> sv_wf k = true -> In r0 (rows s) -> key_match k z r0 = true -> (forall r, wh r = (rowid r =? rowid r0)) ->
  kview (fs_remove (t_delete wh s) [rfile r0]) k z = [].
Proof.
  intros W Wk I0 M0 Hwh. unfold kview. rewrite rows_fs_remove, rows_t_delete.
  rewrite (filter_none (key_match k z)); [reflexivity|]. intros x Ix. apply filter_In in Ix as [Ix Nx].
  destruct (key_match k z x) eqn:Mx; [|reflexivity]. exfalso.
  assert (x = r0) by (eapply (lookup_unique (rows s)); eauto; apply W). subst x.
  rewrite Hwh, Z.eqb_refl in Nx. discriminate.
Qed.

Lemma absent_view c s k dbk raw : put (c_codec c) k = PutOk dbk raw -> kview s dbk (b2z raw) = [] ->
  forall rd now, snd (op_get c s k rd now) = RDefault /\ snd (op_contains c s k now) = RBool false.
Proof.
  intros P V rd now. rewrite (get_by_view _ _ _ _ _ _ _ P), (contains_by_view _ _ _ _ _ _ P), V. split; reflexivity.
Qed.

Theorem absent_after_delete c s k di now :
  Sinv s -> snd (op_delete c s k di now) = RBool true ->
  forall rd now', snd (op_get c (fst (op_delete c s k di now)) k rd now') = RDefault /\
                  snd (op_contains c (fst (op_delete c s k di now)) k now') = RBool false.
Proof.
  intros H. unfold op_delete. destruct (put (c_codec c) k) as [dbk raw|] eqn:P; [|discriminate].
  rewrite bridge_del_select. destruct (filter _ (rows s)) as [|r0 rs] eqn:F; [destruct di; discriminate|].
  intros _. cbn [fst]. apply filter_cons_in in F as [I0 M0]. apply andb_true_iff in M0 as [M0 _].
  apply (absent_view c _ k dbk raw P). apply view_after_remove; auto; [apply H|eapply put_wf; eauto|].
  intros r. apply bridge_del_delete.
Qed.

Theorem absent_after_pop c s k now v e t :
  Sinv s -> snd (op_pop c s k now) = RVal v e t ->
  forall rd now', snd (op_get c (fst (op_pop c s k now)) k rd now') = RDefault /\
                  snd (op_contains c (fst (op_pop c s k now)) k now') = RBool false.
Proof.
  intros H. unfold op_pop. destruct (put (c_codec c) k) as [dbk raw|] eqn:P; [|discriminate].
  rewrite bridge_pop_select. destruct (filter _ (rows s)) as [|r0 rs] eqn:F; [discriminate|]. cbv zeta.
  apply filter_cons_in in F as [I0 M0]. apply andb_true_iff in M0 as [M0 _].
  assert (U : forall rd now',
    snd (op_get c (fs_remove (t_delete (pop_delete (rowid r0) (rows s)) s) [rfile r0]) k rd now') = RDefault /\
    snd (op_contains c (fs_remove (t_delete (pop_delete (rowid r0) (rows s)) s) [rfile r0]) k now') = RBool false).
  { apply (absent_view c _ k dbk raw P). apply view_after_remove; auto; [apply H|eapply put_wf; eauto|].
    intros r. apply bridge_pop_delete. }
  destruct (fetch_row _ _ _ _); intros _; exact U.
Qed.

(* with a clock that does not go back, the key is absent after ANY delete / pop of it (it was removed, or
   it was not live and stays so) *)
Lemma live_opt_mono now now' e : now <= now' -> live_opt now e = false -> live_opt now' e = false.
Proof. destruct e as [x|]; cbn; [|discriminate]. intros L. rewrite !Z.ltb_ge. lia. Qed.

Lemma absent_if_dead c s k dbk raw now :
  put (c_codec c) k = PutOk dbk raw ->
  filter (fun r => key_match dbk (b2z raw) r && live_at now r) (rows s) = [] ->
  forall rd now', now <= now' ->
  snd (op_get c s k rd now') = RDefault /\ snd (op_contains c s k now') = RBool false.
Proof.
  intros P F rd now' L.
  assert (F' : filter (fun r => key_match dbk (b2z raw) r && live_at now' r) (rows s) = []).
  { apply filter_none. intros x Ix. pose proof (filter_nil_none _ _ x F Ix) as N. cbv beta in N.
    destruct (key_match dbk (b2z raw) x); [|reflexivity]. cbn [andb] in *. unfold live_at in *. eapply live_opt_mono; eauto. }
  unfold op_get, op_contains. rewrite P, bridge_get_select, bridge_contains_select, F'.
  split; [destruct (get_fast_path _ _); reflexivity|reflexivity].
Qed.

Theorem absent_after_delete_mono c s k di now dbk raw :
  Sinv s -> put (c_codec c) k = PutOk dbk raw ->
  forall rd now', now <= now' ->
  snd (op_get c (fst (op_delete c s k di now)) k rd now') = RDefault /\
  snd (op_contains c (fst (op_delete c s k di now)) k now') = RBool false.
Proof.
  intros H P rd now' L.
  destruct (filter (fun r => key_match dbk (b2z raw) r && live_at now r) (rows s)) as [|r0 rs] eqn:F.
  - assert (E : fst (op_delete c s k di now) = s) by (unfold op_delete; rewrite P, bridge_del_select, F; reflexivity).
    rewrite E. eapply absent_if_dead; eauto.
  - apply absent_after_delete; auto. unfold op_delete. rewrite P, bridge_del_select, F. reflexivity.
Qed.

Theorem absent_after_pop_mono c s k now dbk raw :
  Sinv s -> put (c_codec c) k = PutOk dbk raw ->
  forall rd now', now <= now' ->
  snd (op_get c (fst (op_pop c s k now)) k rd now') = RDefault /\
  snd (op_contains c (fst (op_pop c s k now)) k now') = RBool false.
Proof.
  intros H P rd now' L.
  destruct (filter (fun r => key_match dbk (b2z raw) r && live_at now r) (rows s)) as [|r0 rs] eqn:F.
  - assert (E : fst (op_pop c s k now) = s) by (unfold op_pop; rewrite P, bridge_pop_select, F; reflexivity).
    rewrite E. eapply absent_if_dead; eauto.
  - assert (E : fst (op_pop c s k now) = fs_remove (t_delete (pop_delete (rowid r0) (rows s)) s) [rfile r0]).
    { unfold op_pop. rewrite P, bridge_pop_select, F. cbv zeta. destruct (fetch_row _ _ _ _); reflexivity. }
    rewrite E. apply filter_cons_in in F as [I0 M0]. apply andb_true_iff in M0 as [M0 _].
    apply (absent_view c _ k dbk raw P). apply view_after_remove; auto; [apply H|eapply put_wf; eauto|].
    intros r. apply bridge_pop_delete.
Qed.

(* ================================================================== (d) add *)
(* on an absent key, or on a key whose item is dead, add is set *)
Theorem add_is_set c s k v rd e tag now pg dbk raw :
  put (c_codec c) k = PutOk dbk raw ->
  match filter (key_match dbk (b2z raw)) (rows s) with [] => True | r0 :: _ => live_at now r0 = false end ->
  op_add c s k v rd e tag now pg = op_set c s k v rd e tag now pg.
Proof.
  intros P Hd. unfold op_add, op_set. rewrite P. destruct (store _ _ v rd) as [sd|]; [|reflexivity].
  destruct (fs_write s (s_file sd)) as [s1 fid] eqn:Wr.
  assert (R1 : rows s1 = rows s).
  { pose proof (rows_fs_write s (s_file sd)) as R. rewrite Wr in R. exact R. }
  rewrite bridge_add_select, bridge_set_select, R1.
  destruct (filter (key_match dbk (b2z raw)) (rows s)) as [|r0 rs]; cbv beta iota zeta.
  - destruct (cull _ _ _ _). reflexivity.
  - rewrite bridge_add_live. unfold live_at in Hd. rewrite Hd. destruct (cull _ _ _ _). reflexivity.
Qed.

Lemma filter_fresh_file (f : list (Z * fcontent)) nf content :
  (forall id, In id (map fst f) -> id < nf) ->
  filter (fun p => negb (fst p =? nf)) (f ++ [(nf, content)]) = f.
Proof.
  intros H. rewrite filter_app. cbn [filter fst]. rewrite Z.eqb_refl. cbn [negb]. rewrite app_nil_r.
  apply filter_all. intros [i x] I. cbn [fst]. apply negb_true_iff, Z.eqb_neq.
  specialize (H i (in_map fst _ _ I)). cbn in H. lia.
Qed.

(* on a live key add returns False and changes nothing but the fresh-name supply (it wrote and removed a file) *)
Theorem add_live_noop c s k v rd e tag now pg dbk raw sd r0 rs :
  Winv s -> put (c_codec c) k = PutOk dbk raw -> store (c_codec c) (c_min_file_size c) v rd = StOk sd ->
  filter (key_match dbk (b2z raw)) (rows s) = r0 :: rs -> live_at now r0 = true ->
  op_add c s k v rd e tag now pg =
    (match s_file sd with Some _ => set_fs s (fs s) (next_file s + 1) | None => s end, RBool false).
Proof.
  intros W P St F L. unfold op_add. rewrite P, St. unfold live_at in L.
  destruct (s_file sd) as [content|]; cbn [fs_write]; rewrite bridge_add_select; cbn [set_fs rows]; rewrite F, bridge_add_live, L.
  - f_equal. unfold fs_remove. cbn [fold_left fs_remove1 set_fs fs next_file rows n_count n_size n_hits n_misses statistics].
    rewrite filter_fresh_file; [reflexivity|]. intros id I. apply (w_lt s W). right. exact I.
  - reflexivity.
Qed.

Corollary add_live_returns_false c s k v rd e tag now pg dbk raw r0 rs :
  put (c_codec c) k = PutOk dbk raw -> filter (key_match dbk (b2z raw)) (rows s) = r0 :: rs -> live_at now r0 = true ->
  snd (op_add c s k v rd e tag now pg) = RBool false \/ snd (op_add c s k v rd e tag now pg) = RRaise EStore.
Proof.
  intros P F L. unfold op_add. rewrite P. destruct (store _ _ v rd) as [sd|]; [|right; reflexivity].
  destruct (fs_write s (s_file sd)) as [s1 fid] eqn:Wr.
  assert (R1 : rows s1 = rows s).
  { pose proof (rows_fs_write s (s_file sd)) as R. rewrite Wr in R. exact R. }
  rewrite bridge_add_select, R1, F, bridge_add_live. unfold live_at in L. rewrite L. left. reflexivity.
Qed.

(* ================================================================== (e) incr *)
(* a live item holding an int64 (what set stores for such a value) *)
Definition int_item (c : cfg) (s : st) (k : pyval) (now z : Z) (r0 : row) : Prop :=
  exists dbk raw rs, put (c_codec c) k = PutOk dbk raw /\ filter (key_match dbk (b2z raw)) (rows s) = r0 :: rs /\
                     live_at now r0 = true /\ rvalue r0 = SInt z /\ rmode r0 = MODE_RAW.

Theorem incr_live_int c s k d df now pg z r0 now' :
  Sinv s -> int_item c s k now z r0 -> in_int64 (z + d) = true -> live_at now' r0 = true ->
  snd (op_incr c s k d df now pg) = RVal (FVal (VInt (z + d))) None SNull /\
  snd (op_get c (fst (op_incr c s k d df now pg)) k false now') = RVal (FVal (VInt (z + d))) (expire_time r0) (rtag r0).
Proof.
  intros H [dbk [raw [rs [P [F [L [Ev Em]]]]]]] R L'.
  pose proof F as F0. apply filter_cons_in in F0 as [I0 M0].
  assert (E : op_incr c s k d df now pg =
              (t_update (fun r => rowid r =? rowid r0) (incr_update (c_policy c) now (SInt (z + d)) (rowid r0)) s,
               RVal (FVal (VInt (z + d))) None SNull)).
  { unfold op_incr. rewrite P, bridge_incr_select, F, bridge_incr_expired. unfold live_at in L. rewrite L. cbn [negb].
    rewrite Ev, R. reflexivity. }
  rewrite E. cbn [fst snd]. split; [reflexivity|].
  set (f := incr_update (c_policy c) now (SInt (z + d)) (rowid r0)).
  set (s' := t_update (fun r => rowid r =? rowid r0) f s).
  assert (H' : Pinv s' (fun _ => False)).
  { apply (pinv_update_keep s _ _ _ (bridge_incr_update_keeps_id _ _ _ _) (bridge_incr_update_keeps_file _ _ _ _)).
    apply sinv_pinv, H. }
  assert (Ir : In (f r0) (rows s')).
  { unfold s'. rewrite rows_t_update. apply in_map_iff. exists r0. rewrite Z.eqb_refl. auto. }
  assert (Ki := bridge_incr_update_keeps_id (c_policy c) now (SInt (z + d)) (rowid r0) r0). fold f in Ki.
  assert (Kf := bridge_incr_update_keeps_file (c_policy c) now (SInt (z + d)) (rowid r0) r0). fold f in Kf.
  assert (Mr : key_match dbk (b2z raw) (f r0) = true).
  { rewrite (key_match_cols _ _ (f r0) r0); [exact M0|apply Ki|apply Ki]. }
  destruct (bridge_incr_update_fields (c_policy c) now (SInt (z + d)) r0) as [Fe [Ft [Fm Fv]]]. fold f in Fe, Ft, Fm, Fv.
  rewrite (get_by_view _ _ _ _ _ _ _ P). unfold kview.
  rewrite (filter_unique (key_match dbk (b2z raw)) (rows s') (f r0)); [|apply rows_nodup, H'|exact Ir|exact Mr|].
  - unfold get_res. cbn [map filter fst snd]. unfold live_at. rewrite Fe. unfold live_at in L'. rewrite L'. cbn [fst snd].
    rewrite Fm, Fv, Fe, Ft, Em. unfold fetch. rewrite bridge_fetch_plan. reflexivity.
  - intros y Iy My. eapply (lookup_unique (rows s')); eauto; [apply H'|eapply put_wf; eauto].
Qed.

(* set of an int64 value makes an int item (so set; incr; get composes) *)
Lemma store_int c m z sd : in_int64 z = true -> store c m (VInt z) false = StOk sd ->
  s_mode sd = MODE_RAW /\ s_col sd = SInt z /\ s_file sd = None.
Proof.
  intros R. unfold store. rewrite bridge_store_plan. cbn [store_plan_spec]. rewrite R. cbn [run_plan bind]. rewrite R.
  intros E; inversion E; subst. repeat split.
Qed.

Theorem set_incr_get c s k z e tag now pg d df now1 pg1 now2 :
  c_cull_limit c = 0 -> Sinv s -> key_domain k = true -> in_int64 z = true -> in_int64 (z + d) = true ->
  snd (op_set c s k (VInt z) false e tag now pg) = RBool true ->
  live_opt now1 (expire_at now e) = true -> live_opt now2 (expire_at now e) = true ->
  let s1 := fst (op_set c s k (VInt z) false e tag now pg) in
  snd (op_incr c s1 k d df now1 pg1) = RVal (FVal (VInt (z + d))) None SNull /\
  snd (op_get c (fst (op_incr c s1 k d df now1 pg1)) k false now2) = RVal (FVal (VInt (z + d))) (expire_at now e) tag.
Proof.
  intros NoCull H Dk Rz Rzd Ok L1 L2 s1.
  destruct (set_ok_inv _ _ _ _ _ _ _ _ _ Ok) as [dbk [raw [sd [P St]]]].
  destruct (view_after_set c NoCull s k (VInt z) false e tag now pg dbk raw sd H Dk P St) as [r' [V [Ee [Et [Em Ev]]]]].
  destruct (store_int _ _ _ _ Rz St) as [Sm [Sc _]].
  assert (H1 : Sinv s1) by (apply sinv_set, H).
  assert (F : filter (key_match dbk (b2z raw)) (rows s1) = [r']).
  { fold s1 in V. unfold kview in V. destruct (filter (key_match dbk (b2z raw)) (rows s1)) as [|a [|b t]]; try discriminate.
    cbn in V. inversion V. reflexivity. }
  assert (It : int_item c s1 k now1 z r').
  { exists dbk, raw, []. unfold live_at. rewrite Ee, Em, Ev, Sm, Sc. auto. }
  destruct (incr_live_int c s1 k d df now1 pg1 z r' now2 H1 It Rzd) as [A B].
  { unfold live_at. rewrite Ee. exact L2. }
  rewrite Ee, Et in B. auto.
Qed.

(* ================================================================== (a) with the lazy cull enabled *)
(* the cull of a write only deletes rows and leaves the file store alone *)
Lemma cull_rows_fs c now pg s :
  (forall r, In r (rows (fst (cull c now pg s))) -> In r (rows s)) /\ fs (fst (cull c now pg s)) = fs s.
Proof.
  assert (D : forall wh s0, (forall r, In r (rows (t_delete wh s0)) -> In r (rows s0)) /\ fs (t_delete wh s0) = fs s0).
  { intros wh s0. split; [intros r; apply t_delete_in|apply fs_t_delete]. }
  assert (Stage : forall s1 (cl1 : list (option Z)) lim,
    let x := (if cull_skip_policy (if policy_has_cull (c_policy c) then Some tt else None) (volume pg s1) (c_size_limit c)
              then (s1, cl1)
              else let pr := policy_cull_select (c_policy c) lim (rows s1) in
                   if is_nil pr then (s1, cl1)
                   else (t_delete (policy_cull_delete (c_policy c) lim (rows s1)) s1, cl1 ++ map rfile pr)) in
    (forall r, In r (rows (fst x)) -> In r (rows s1)) /\ fs (fst x) = fs s1).
  { intros s1 cl1 lim. cbv zeta. destruct (cull_skip_policy _ _ _); [split; auto|].
    destruct (is_nil _); [split; auto|]. apply D. }
  unfold cull. destruct (cull_disabled _); [split; auto|].
  destruct (negb (is_nil (cull_expired_select now (c_cull_limit c) (rows s)))); cbv beta iota zeta.
  - destruct (D (cull_expired_delete now (c_cull_limit c) (rows s)) s) as [A B].
    destruct (cull_exhausted _); [split; auto|].
    destruct (Stage (t_delete (cull_expired_delete now (c_cull_limit c) (rows s)) s)
        (map rfile (cull_expired_select now (c_cull_limit c) (rows s)))
        (c_cull_limit c - Z.of_nat (length (cull_expired_select now (c_cull_limit c) (rows s))))) as [A' B'].
    split; [intros r I; exact (A _ (A' _ I))|exact (eq_trans B' B)].
  - apply Stage.
Qed.

Lemma finish_unref c now pg s2 P cl :
  Pinv s2 P -> (forall g, In (Some g) cl -> ~ In g (refs s2)) ->
  forall g, In (Some g) (cl ++ snd (cull c now pg s2)) -> ~ In g (refs (fst (cull c now pg s2))).
Proof.
  intros H2 Hcl g I. destruct (cull c now pg s2) as [s3 cl2] eqn:C. cbn [fst snd] in *.
  destruct (pinv_cull c now pg s2 _ s3 cl2 C H2) as [_ [Pm _]].
  apply in_app_or in I as [I|I].
  - intros I'. apply (Hcl g I). eapply Permutation_in; [apply Permutation_sym, Pm|]. apply in_or_app. left. exact I'.
  - eapply perm_split_disj; [apply (w_refs_nd s2), H2|exact Pm|]. apply in_somes, I.
Qed.

Lemma all_same_nodup {A} (l : list A) x : NoDup l -> (forall y, In y l -> y = x) -> l = [] \/ l = [x].
Proof.
  intros N H. destruct l as [|a [|b t]]; [left; reflexivity|right; rewrite (H a (or_introl eq_refl)); reflexivity|].
  exfalso. inversion N as [|? ? Na _]; subst. apply Na. left.
  rewrite (H a (or_introl eq_refl)), (H b (or_intror (or_introl eq_refl))). reflexivity.
Qed.

(* after the upsert the key has exactly one row r'; the cull either keeps it (with its file) or deletes it *)
Lemma view_tail c now pg s2 P cl l k z r' oc :
  Pinv s2 P -> sv_wf k = true -> In r' (rows s2) -> key_match k z r' = true -> fs_lookup s2 (rfile r') = oc ->
  (forall g, In (Some g) cl -> ~ In g (refs s2)) ->
  incl l (cl ++ snd (cull c now pg s2)) ->
  let s' := fs_remove (fst (cull c now pg s2)) l in
  kview s' k z = [(r', oc)] \/ kview s' k z = [].
Proof.
  intros H2 Wk I2 M2 Lk Hcl Hl s'.
  destruct (cull_rows_fs c now pg s2) as [Sub Fs3].
  pose proof (finish_unref c now pg s2 P cl H2 Hcl) as Un.
  assert (H3 : Winv (fst (cull c now pg s2))).
  { destruct (cull c now pg s2) as [s3 cl2] eqn:C. eapply pinv_winv. apply (pinv_cull c now pg s2 _ s3 cl2 C H2). }
  set (s3 := fst (cull c now pg s2)) in *. set (cl2 := snd (cull c now pg s2)) in *.
  assert (U : forall y, In y (filter (key_match k z) (rows s3)) -> y = r').
  { intros y Iy. apply filter_In in Iy as [Iy My]. eapply (lookup_unique (rows s2)); eauto; apply H2. }
  unfold kview, s'. rewrite rows_fs_remove.
  destruct (all_same_nodup _ r' (NoDup_filter _ (rows_nodup s3 (w_rowids s3 H3))) U) as [E|E]; rewrite E; [right; reflexivity|left].
  cbn [map]. f_equal. f_equal. rewrite <- Lk. unfold fs_lookup. destruct (rfile r') as [g|] eqn:Ef; [|reflexivity].
  rewrite fs_get_fs_remove; [rewrite Fs3; reflexivity|]. intros I. apply (Un g (Hl _ I)).
  apply in_frefs. exists r'. split; [|exact Ef].
  assert (Ir : In r' (filter (key_match k z) (rows s3))) by (rewrite E; left; reflexivity).
  apply filter_In in Ir. apply Ir.
Qed.

Lemma view_after_set_cull c s k v rd e tag now pg dbk raw sd :
  Sinv s -> key_domain k = true -> put (c_codec c) k = PutOk dbk raw ->
  store (c_codec c) (c_min_file_size c) v rd = StOk sd ->
  (exists r', kview (fst (op_set c s k v rd e tag now pg)) dbk (b2z raw) = [(r', s_file sd)] /\
              expire_time r' = expire_at now e /\ rtag r' = tag /\ rmode r' = s_mode sd /\ rvalue r' = s_col sd) \/
  kview (fst (op_set c s k v rd e tag now pg)) dbk (b2z raw) = [].
Proof.
  intros H Dk P St. unfold op_set. rewrite P, St.
  destruct (fs_write s (s_file sd)) as [s1 fid] eqn:Wr.
  destruct (write_phase c s sd v rd s1 fid H St Wr) as [H1 [R1 Fok]].
  destruct (pinv_fs_write s _ (s_file sd) s1 fid Wr (proj1 (sinv_pinv s) H)) as [_ [_ [_ [Lk _]]]].
  pose proof (put_nonnull _ _ _ _ Dk P) as Nn. pose proof (put_wf _ _ _ _ P) as Wk.
  rewrite bridge_set_select, R1.
  destruct (filter (key_match dbk (b2z raw)) (rows s)) as [|r0 rs] eqn:F; cbv beta iota zeta.
  - assert (Hk : forall r, In r (rows s1) -> key_match dbk (b2z raw) r = false).
    { rewrite R1. intros r I. eapply filter_nil_none; eauto. }
    destruct (pinv_columns_insert s1 _ dbk raw now (expire_at now e) tag sd fid H1 Hk Wk (put_key_nonnull _ _ _ _ P) Fok) as [H2 [_ [E2 _]]].
    set (n := columns_insert dbk raw now (expire_at now e) tag sd fid (next_rowid (rows s1))) in *.
    set (s2 := t_insert (columns_insert dbk raw now (expire_at now e) tag sd fid) s1) in *.
    pose proof (view_tail c now pg s2 _ [] ([] ++ snd (cull c now pg s2)) dbk (b2z raw) n (s_file sd) H2 Wk) as T. cbv zeta in T.
    destruct (cull c now pg s2) as [s3 cl2] eqn:C. cbn [fst snd] in *.
    destruct T as [T|T]; [rewrite E2; apply in_or_app; right; left; reflexivity
                         |apply key_match_self; auto|exact Lk|intros g []|apply incl_refl| |right; exact T].
    left. exists n. split; [exact T|repeat split].
  - apply filter_cons_in in F as [I0 M0].
    assert (I1 : In r0 (rows s1)) by (rewrite R1; exact I0).
    destruct (pinv_columns_update s1 _ r0 now (expire_at now e) tag sd fid H1 I1 Fok) as [H2 [_ [Fs2 [_ [Nr [a [b [_ [E2 _]]]]]]]]].
    set (f := row_update_set now (expire_at now e) now 0 tag (s_size sd) (s_mode sd) fid (s_col sd) (rowid r0)) in *.
    set (s2 := columns_update (rowid r0) now (expire_at now e) tag sd fid s1) in *.
    pose proof (view_tail c now pg s2 _ [rfile r0] ([rfile r0] ++ snd (cull c now pg s2)) dbk (b2z raw) (f r0) (s_file sd) H2 Wk) as T. cbv zeta in T.
    destruct (cull c now pg s2) as [s3 cl2] eqn:C. cbn [fst snd] in *.
    destruct T as [T|T]; [rewrite E2; apply in_or_app; right; left; reflexivity
                         |rewrite (key_match_cols _ _ (f r0) r0); [exact M0|reflexivity|reflexivity]
                         |change (rfile (f r0)) with fid; rewrite <- Lk; apply fs_lookup_ext, Fs2
                         |intros g [E|[]]; apply Nr; auto|apply incl_refl| |right; exact T].
    left. exists (f r0). split; [exact T|repeat split].
Qed.

(* (a), general: after set k v, get k returns v (expiry now+ttl, the tag) -- or the lazy cull of that very
   write removed the item (a tiny size limit, or a ttl that is already over), and then k is absent *)
Theorem get_after_set_cull c s k v rd e tag now pg now' :
  Sinv s -> codec_ok (c_codec c) -> key_domain k = true -> shape_ok v rd = true ->
  snd (op_set c s k v rd e tag now pg) = RBool true ->
  live_opt now' (expire_at now e) = true ->
  let s' := fst (op_set c s k v rd e tag now pg) in
  (snd (op_get c s' k false now') = RVal (FVal (expected v)) (expire_at now e) tag /\
   snd (op_contains c s' k now') = RBool true) \/
  (forall rd' now'', snd (op_get c s' k rd' now'') = RDefault /\ snd (op_contains c s' k now'') = RBool false).
Proof.
  intros H Hc Dk Hs Ok L s'.
  assert (Inv : exists dbk raw sd, put (c_codec c) k = PutOk dbk raw /\ store (c_codec c) (c_min_file_size c) v rd = StOk sd).
  { unfold op_set in Ok. destruct (put _ k) as [dbk raw|]; [|discriminate].
    destruct (store _ _ v rd) as [sd|]; [|discriminate]. eauto. }
  destruct Inv as [dbk [raw [sd [P St]]]].
  destruct (view_after_set_cull c s k v rd e tag now pg dbk raw sd H Dk P St) as [[r' [V [Ee [Et [Em Ev]]]]]|V]; fold s' in V.
  - left. rewrite (get_by_view _ _ _ _ _ _ _ P), (contains_by_view _ _ _ _ _ _ P), V.
    unfold get_res, contains_res. cbn [filter fst snd]. unfold live_at. rewrite Ee, L. cbn [fst snd is_nil negb].
    rewrite Em, Ev, Ee, Et. destruct (store_fetch_roundtrip _ _ _ _ _ Hc Hs St) as [F _]. rewrite F. auto.
  - right. apply (absent_view c s' k dbk raw P V).
Qed.

(* ================================================================== (b) with the lazy cull enabled *)
(* whatever the key: the cull keeps its view or empties it *)
Lemma view_tail_any c now pg s2 P cl l k z :
  Pinv s2 P -> sv_wf k = true -> (forall g, In (Some g) cl -> ~ In g (refs s2)) ->
  incl l (cl ++ snd (cull c now pg s2)) ->
  let s' := fs_remove (fst (cull c now pg s2)) l in
  kview s' k z = kview s2 k z \/ kview s' k z = [].
Proof.
  intros H2 Wk Hcl Hl s'. destruct (filter (key_match k z) (rows s2)) as [|r' rs] eqn:F.
  - right. unfold kview, s'. rewrite rows_fs_remove, (filter_none (key_match k z)); [reflexivity|].
    intros x Ix. apply (proj1 (cull_rows_fs c now pg s2)) in Ix. eapply filter_nil_none; eauto.
  - pose proof F as F0. apply filter_cons_in in F0 as [I M].
    destruct (view_tail c now pg s2 P cl l k z r' _ H2 Wk I M eq_refl Hcl Hl) as [T|T]; [left|right; exact T].
    fold s' in T. rewrite T. unfold kview.
    rewrite (filter_unique (key_match k z) (rows s2) r'); [reflexivity|apply rows_nodup, H2|exact I|exact M|].
    intros y Iy My. eapply (lookup_unique (rows s2)); eauto; apply H2.
Qed.

Definition same_or_gone (c : cfg) (s s' : st) (k : pyval) : Prop :=
  forall dbk raw, put (c_codec c) k = PutOk dbk raw ->
    kview s' dbk (b2z raw) = kview s dbk (b2z raw) \/ kview s' dbk (b2z raw) = [].

Lemma same_or_gone_lookups c s s' k : same_or_gone c s s' k ->
  (forall rd now, snd (op_get c s' k rd now) = snd (op_get c s k rd now) /\
                  snd (op_contains c s' k now) = snd (op_contains c s k now)) \/
  (forall rd now, snd (op_get c s' k rd now) = RDefault /\ snd (op_contains c s' k now) = RBool false).
Proof.
  intros V. destruct (put (c_codec c) k) as [dbk raw|] eqn:P.
  - destruct (V _ _ P) as [E|E].
    + left. intros rd now. rewrite !(get_by_view _ _ _ _ _ _ _ P), !(contains_by_view _ _ _ _ _ _ P), E. auto.
    + right. apply (absent_view c s' k dbk raw P E).
  - left. intros rd now. unfold op_get, op_contains. rewrite P. auto.
Qed.

Section OtherCull.
  Variables (c : cfg) (k1 k2 : pyval).
  Hypothesis Hother : other_key c k1 k2.

  Lemma set_frame_cull s v rd e tag now pg : Sinv s -> same_or_gone c s (fst (op_set c s k1 v rd e tag now pg)) k2.
  Proof.
    intros H dbk2 raw2 P2. unfold op_set. destruct (put (c_codec c) k1) as [dbk1 raw1|] eqn:P1; [|left; reflexivity].
    pose proof (other_db_same c k1 k2 _ _ _ _ Hother P1 P2) as D. pose proof (put_wf _ _ _ _ P2) as Wk.
    destruct (store _ _ v rd) as [sd|] eqn:St; [|left; reflexivity].
    destruct (fs_write s (s_file sd)) as [s1 fid] eqn:Wr.
    destruct (write_phase c s sd v rd s1 fid H St Wr) as [H1 [R1 Fok]].
    rewrite bridge_set_select, R1.
    destruct (filter (key_match dbk1 (b2z raw1)) (rows s)) as [|r0 rs] eqn:F; cbv beta iota zeta.
    - assert (Hk : forall r, In r (rows s1) -> key_match dbk1 (b2z raw1) r = false).
      { rewrite R1. intros r I. eapply filter_nil_none; eauto. }
      destruct (pinv_columns_insert s1 _ dbk1 raw1 now (expire_at now e) tag sd fid H1 Hk (put_wf _ _ _ _ P1) (put_key_nonnull _ _ _ _ P1) Fok) as [H2 _].
      set (s2 := t_insert (columns_insert dbk1 raw1 now (expire_at now e) tag sd fid) s1) in *.
      pose proof (view_tail_any c now pg s2 _ [] ([] ++ snd (cull c now pg s2)) dbk2 (b2z raw2) H2 Wk) as T. cbv zeta in T.
      destruct (cull c now pg s2) as [s3 cl2] eqn:C. cbn [fst snd] in *.
      destruct T as [T|T]; [intros g []|apply incl_refl| |right; exact T]. left. rewrite T.
      unfold s2. rewrite frame_insert; [eapply frame_write; [exact Wr|apply H]|]. eapply db_same_false_row; eauto.
    - apply filter_cons_in in F as [I0 M0].
      assert (I1 : In r0 (rows s1)) by (rewrite R1; exact I0).
      destruct (pinv_columns_update s1 _ r0 now (expire_at now e) tag sd fid H1 I1 Fok) as [H2 [_ [_ [_ [Nr _]]]]].
      set (s2 := columns_update (rowid r0) now (expire_at now e) tag sd fid s1) in *.
      pose proof (view_tail_any c now pg s2 _ [rfile r0] ([rfile r0] ++ snd (cull c now pg s2)) dbk2 (b2z raw2) H2 Wk) as T. cbv zeta in T.
      destruct (cull c now pg s2) as [s3 cl2] eqn:C. cbn [fst snd] in *.
      destruct T as [T|T]; [intros g [E|[]]; apply Nr; auto|apply incl_refl| |right; exact T]. left. rewrite T.
      unfold s2, columns_update. rewrite (frame_update s1 _ _ r0); [eapply frame_write; [exact Wr|apply H]|apply H1|exact I1| | |].
      + intros r. apply bridge_row_update_where.
      + apply bridge_row_update_keeps_id.
      + eapply other_key_row; eauto. apply H, I0.
  Qed.

  (* (b), general: an operation on k1 leaves what get / contains report for k2 alone -- unless the lazy cull
     of that write removed k2's item (expired, or evicted by the policy), and then k2 is absent *)
  Theorem no_shadowing_cull s v rd e tag now pg :
    Sinv s ->
    let s' := fst (op_set c s k1 v rd e tag now pg) in
    (forall rd' now', snd (op_get c s' k2 rd' now') = snd (op_get c s k2 rd' now') /\
                      snd (op_contains c s' k2 now') = snd (op_contains c s k2 now')) \/
    (forall rd' now', snd (op_get c s' k2 rd' now') = RDefault /\ snd (op_contains c s' k2 now') = RBool false).
  Proof. intros H s'. apply same_or_gone_lookups, set_frame_cull, H. Qed.
End OtherCull.

(* ================================================================== len *)
Theorem len_counts_rows s : Sinv s -> snd (op_len s) = RInt (Z.of_nat (length (rows s))).
Proof. intros [W _]. destruct (w_counters s W) as [C _]. unfold op_len. cbn. rewrite C. reflexivity. Qed.

Print Assumptions no_shadowing.
Print Assumptions no_shadowing_cull.
Print Assumptions get_after_set.
Print Assumptions get_after_set_cull.
Print Assumptions absent_after_delete.
Print Assumptions absent_after_pop.
Print Assumptions add_is_set.
Print Assumptions add_live_noop.
Print Assumptions incr_live_int.
Print Assumptions set_incr_get.
