(* The concurrent clause of C12 on the micro-step machine of model/IndexConc.v:
   "a key that is continuously present is always found".
   For the reader of the code as it is (a lookup whose file is gone looks the row up again) this is a theorem for
   every schedule, any number of replacing writers and any mix of inline and file-backed values: the lookup never
   reports "absent", and what it returns is the initial value or a value some writer wrote.
   For the reader the code had before that repair (`old_reader`: a missing file was reported as KeyError) the
   statement is refuted by a concrete schedule, and holds in the restricted form that was the strongest true one then:
   such a lookup fails only if a writer's file removal ran between its SELECT and its open (never for inline values). *)
From DC Require Import DCPrelude Gen_Sql IndexConc.

(* ------------------------------------------------------------------------------------------------ *)
(* the old reader: the full statement is false                                                       *)

(* reader SELECT; writer store, BEGIN, UPDATE, COMMIT, remove; reader open *)
Definition witness_schedule : list nat := [0; 1; 1; 1; 1; 1; 0]%nat.
Definition witness_init : cfg := init true 7 [(8, true)].

Lemma continuous_presence_old_reader_refuted :
  exists file0 v0 ws sched,
    forallb present (trace old_reader (init file0 v0 ws) sched) = true /\
    lookup_result (run old_reader (init file0 v0 ws) sched) = Some None.
Proof. exists true, 7, [(8, true)], witness_schedule. vm_compute. split; reflexivity. Qed.

(* the same schedule shifted by one step is benign: the lookup returns the old value *)
Example benign_schedule :
  lookup_result (run old_reader witness_init [0; 0; 1; 1; 1; 1; 1]%nat) = Some (Some 7) /\
  lookup_result (run old_reader witness_init [1; 1; 1; 1; 1; 0; 0]%nat) = Some (Some 8).
Proof. vm_compute. split; reflexivity. Qed.

(* the reader of the code as it is, under the schedule that defeated the old one: after the failed open it is still in
   progress (it has not reported anything); its next two steps (SELECT again, open the new file) return the NEW value *)
Example witness_schedule_repaired :
  lookup_result (run repaired witness_init witness_schedule) = None /\
  reader (run repaired witness_init witness_schedule) = RAgain (-1) /\
  lookup_result (run repaired witness_init (witness_schedule ++ [0; 0]%nat)) = Some (Some 8).
Proof. vm_compute. repeat split; reflexivity. Qed.

(* ------------------------------------------------------------------------------------------------ *)
(* helpers                                                                                           *)

Lemma nth_error_upd {A} (l : list A) : forall i x j,
  nth_error (upd i x l) j =
  if Nat.eqb i j then match nth_error l i with Some _ => Some x | None => None end else nth_error l j.
Proof.
  induction l as [|y l IH]; intros [|i] x [|j]; cbn; auto; try (destruct (Nat.eqb i j); reflexivity).
Qed.

Lemma file_get_cons_mono n m v fs : file_get n fs <> None -> file_get n ((m, v) :: fs) <> None.
Proof. cbn. destruct (n =? m); auto. discriminate. Qed.

Lemma file_get_remove_other n m fs : n <> m -> file_get n (file_remove m fs) = file_get n fs.
Proof.
  intros D. unfold file_remove. induction fs as [|[k v] fs IH]; cbn; [reflexivity|].
  destruct (Z.eqb_spec k m) as [->|E]; cbn.
  - destruct (Z.eqb_spec n m); [contradiction|]. exact IH.
  - rewrite IH. reflexivity.
Qed.

Definition retired_pc (p : wpc) : bool := match p with WCommitted _ | WDone => true | _ => false end.
Definition pending_pc (p : wpc) : bool := match p with WStored | WLocked | WUpdated _ => true | _ => false end.

(* a file name that no writer still has to publish: the initial file, or the file of a writer that has
   committed *)
Definition settled (ws : list writer) (n : Z) : Prop :=
  n = -1 \/ exists i w, n = Z.of_nat i /\ nth_error ws i = Some w /\ retired_pc (w_pc w) = true.

Lemma settled_not_unretired ws n j wj :
  settled ws n -> nth_error ws j = Some wj -> retired_pc (w_pc wj) = false -> n <> Z.of_nat j.
Proof.
  intros [->|[i [w [-> [E R]]]]] Ej Rj; [lia|].
  intros H. apply Nat2Z.inj in H. subst. rewrite E in Ej. inversion Ej; subst. congruence.
Qed.

Lemma settled_upd ws i w p n :
  nth_error ws i = Some w -> (retired_pc (w_pc w) = true -> retired_pc p = true) ->
  settled ws n -> settled (upd i (set_pc w p) ws) n.
Proof.
  intros E Hp [->|[k [wk [-> [Ek Rk]]]]]; [left; reflexivity|]. right.
  destruct (Nat.eqb_spec i k) as [->|D].
  - exists k, (set_pc w p). split; [reflexivity|]. split.
    + rewrite nth_error_upd, Nat.eqb_refl, E. reflexivity.
    + cbn. apply Hp. rewrite E in Ek. inversion Ek; subst. exact Rk.
  - exists k, wk. split; [reflexivity|]. split; [|exact Rk].
    rewrite nth_error_upd. destruct (Nat.eqb_spec i k); [contradiction|]. exact Ek.
Qed.

(* ------------------------------------------------------------------------------------------------ *)
(* the invariant: rows and files agree in every reachable configuration                              *)

Record Inv (c : cfg) : Prop := {
  inv_present : exists r, committed c = Some r;
  inv_committed_file : forall n, committed c = Some (InFile n) ->
                                 file_get n (files c) <> None /\ settled (writers c) n;
  inv_pending_file : forall i w, nth_error (writers c) i = Some w -> w_file w = true ->
                                 pending_pc (w_pc w) = true -> file_get (Z.of_nat i) (files c) <> None;
  inv_lock : forall i w, nth_error (writers c) i = Some w ->
                         match w_pc w with WLocked | WUpdated _ => lock c = Some i | _ => True end;
  inv_updated_old : forall i w old, nth_error (writers c) i = Some w -> w_pc w = WUpdated old ->
                                    old = committed c;
  inv_committed_old : forall i w n, nth_error (writers c) i = Some w -> w_pc w = WCommitted (Some (InFile n)) ->
                                    committed c <> Some (InFile n) /\ settled (writers c) n;
  inv_reader : forall n mo, reader c = RSelected n mo -> removed_during_lookup c = false ->
                            file_get n (files c) <> None
}.

Lemma Inv_init file0 v0 ws : Inv (init file0 v0 ws).
Proof.
  assert (P : forall i w, nth_error (writers (init file0 v0 ws)) i = Some w -> w_pc w = WStart).
  { cbn [init writers]. intros i w H. apply nth_error_In in H. apply in_map_iff in H as [p [<- _]]. reflexivity. }
  constructor; cbn [init committed files reader removed_during_lookup lock].
  - eauto.
  - intros n H. destruct file0; inversion H; subst. split; [cbn; discriminate|left; reflexivity].
  - intros i w H _ Hp. rewrite (P i w H) in Hp. discriminate.
  - intros i w H. rewrite (P i w H). exact I.
  - intros i w old H Hp. rewrite (P i w H) in Hp. discriminate.
  - intros i w n H Hp. rewrite (P i w H) in Hp. discriminate.
  - discriminate.
Qed.

Lemma Inv_reader_select c mo : Inv c -> Inv (reader_select c mo).
Proof.
  intros [I1 I2 I3 I4 I5 I6 I7]. unfold reader_select.
  destruct (committed c) as [[v|n]|] eqn:Ec; constructor; cbn; rewrite ?Ec; auto; try discriminate.
  intros n0 mo0 H _. inversion H; subst. apply I2. reflexivity.
Qed.

Lemma Inv_reader_step again c : Inv c -> Inv (reader_step again c).
Proof.
  intros I. unfold reader_step.
  destruct (reader c) eqn:Er.
  - apply Inv_reader_select, I.
  - destruct I as [I1 I2 I3 I4 I5 I6 I7].
    destruct (file_get name (files c)); [|destruct (again && negb (same_missing missing name))];
      constructor; cbn; auto; discriminate.
  - apply Inv_reader_select, I.
  - exact I.
Qed.

(* what a looked-up writer of the updated list is *)
Ltac upd_cases H i j :=
  rewrite nth_error_upd in H; destruct (Nat.eqb_spec i j); [subst j|].

Lemma Inv_writer_step i c : Inv c -> Inv (writer_step i c).
Proof.
  intros [I1 I2 I3 I4 I5 I6 I7]. unfold writer_step.
  destruct (nth_error (writers c) i) as [w|] eqn:Ew; [|constructor; auto].
  destruct (w_pc w) eqn:Epc.
  - (* store *)
    assert (S : forall n, settled (writers c) n -> settled (upd i (set_pc w WStored) (writers c)) n).
    { intros n. apply settled_upd; auto. rewrite Epc. discriminate. }
    assert (F : forall n, file_get n (files c) <> None ->
                          file_get n (if w_file w then (Z.of_nat i, w_val w) :: files c else files c) <> None).
    { intros n H. destruct (w_file w); auto using file_get_cons_mono. }
    constructor; cbn [committed lock files reader writers removed_during_lookup]; auto.
    + intros n H. destruct (I2 n H). auto.
    + intros j wj H Hf Hp. upd_cases H i j.
      * rewrite Ew in H. inversion H; subst. cbn in Hf. rewrite Hf. cbn. rewrite Z.eqb_refl. discriminate.
      * apply F. eauto.
    + intros j wj H. upd_cases H i j.
      * rewrite Ew in H. inversion H; subst. exact I.
      * apply I4; auto.
    + intros j wj old H Hp. upd_cases H i j.
      * rewrite Ew in H. inversion H; subst. discriminate.
      * eauto.
    + intros j wj n H Hp. upd_cases H i j.
      * rewrite Ew in H. inversion H; subst. discriminate.
      * destruct (I6 j wj n H Hp). auto.
    + intros n mo Hr Hg. apply F. eauto.
  - (* BEGIN *)
    destruct (lock c) as [h|] eqn:El; [constructor; auto; rewrite ?El; auto|].
    assert (S : forall n, settled (writers c) n -> settled (upd i (set_pc w WLocked) (writers c)) n).
    { intros n. apply settled_upd; auto. rewrite Epc. discriminate. }
    constructor; cbn [committed lock files reader writers removed_during_lookup]; auto.
    + intros n H. destruct (I2 n H). auto.
    + intros j wj H Hf Hp. upd_cases H i j.
      * rewrite Ew in H. inversion H; subst. cbn in Hf. apply (I3 i w Ew Hf). rewrite Epc. reflexivity.
      * eauto.
    + intros j wj H. upd_cases H i j.
      * rewrite Ew in H. inversion H; subst. reflexivity.
      * specialize (I4 j wj H). destruct (w_pc wj); auto; discriminate.
    + intros j wj old H Hp. upd_cases H i j.
      * rewrite Ew in H. inversion H; subst. discriminate.
      * eauto.
    + intros j wj n H Hp. upd_cases H i j.
      * rewrite Ew in H. inversion H; subst. discriminate.
      * destruct (I6 j wj n H Hp). auto.
  - (* UPDATE *)
    assert (S : forall n, settled (writers c) n -> settled (upd i (set_pc w (WUpdated (committed c))) (writers c)) n).
    { intros n. apply settled_upd; auto. rewrite Epc. discriminate. }
    constructor; cbn [committed lock files reader writers removed_during_lookup]; auto.
    + intros n H. destruct (I2 n H). auto.
    + intros j wj H Hf Hp. upd_cases H i j.
      * rewrite Ew in H. inversion H; subst. cbn in Hf. apply (I3 i w Ew Hf). rewrite Epc. reflexivity.
      * eauto.
    + intros j wj H. upd_cases H i j.
      * rewrite Ew in H. inversion H; subst. cbn. specialize (I4 i w Ew). rewrite Epc in I4. exact I4.
      * apply I4; auto.
    + intros j wj old H Hp. upd_cases H i j.
      * rewrite Ew in H. inversion H; subst. cbn in Hp. congruence.
      * eauto.
    + intros j wj n H Hp. upd_cases H i j.
      * rewrite Ew in H. inversion H; subst. discriminate.
      * destruct (I6 j wj n H Hp). auto.
  - (* COMMIT *)
    assert (S : forall n, settled (writers c) n -> settled (upd i (set_pc w (WCommitted old)) (writers c)) n).
    { intros n. apply settled_upd; auto. }
    assert (Li : lock c = Some i) by (specialize (I4 i w Ew); rewrite Epc in I4; exact I4).
    assert (Eo : old = committed c) by (eapply I5; eauto).
    assert (Ui : retired_pc (w_pc w) = false) by (rewrite Epc; reflexivity).
    constructor; cbn [committed lock files reader writers removed_during_lookup]; auto.
    + eauto.
    + intros n H. unfold new_rep in H. destruct (w_file w) eqn:Ef; inversion H; subst. split.
      * apply (I3 i w Ew Ef). rewrite Epc. reflexivity.
      * right. exists i, (set_pc w (WCommitted (committed c))). split; [reflexivity|]. split; [|reflexivity].
        rewrite nth_error_upd, Nat.eqb_refl, Ew. reflexivity.
    + intros j wj H Hf Hp. upd_cases H i j.
      * rewrite Ew in H. inversion H; subst. discriminate.
      * eauto.
    + intros j wj H. upd_cases H i j.
      * rewrite Ew in H. inversion H; subst. exact I.
      * specialize (I4 j wj H). rewrite Li in I4. destruct (w_pc wj); auto; congruence.
    + intros j wj old' H Hp. upd_cases H i j.
      * rewrite Ew in H. inversion H; subst. discriminate.
      * specialize (I4 j wj H). rewrite Hp, Li in I4. congruence.
    + intros j wj n H Hp. upd_cases H i j.
      * rewrite Ew in H. inversion H; subst. cbn in Hp. inversion Hp as [Ho].
        destruct (I2 n Ho) as [_ Sn]. split; [|auto]. rewrite Ho.
        unfold new_rep. destruct (w_file w); [|discriminate]. intros X. inversion X as [Y].
        symmetry in Y. revert Y. eapply settled_not_unretired; eauto.
      * destruct (I6 j wj n H Hp) as [D Sn]. split; [|auto].
        unfold new_rep. destruct (w_file w); [|discriminate]. intros X. inversion X as [Y].
        symmetry in Y. revert Y. eapply settled_not_unretired; eauto.
  - (* remove the old file *)
    assert (S : forall n, settled (writers c) n -> settled (upd i (set_pc w WDone) (writers c)) n).
    { intros n. apply settled_upd; auto. }
    destruct old as [[v|m]|].
    + constructor; cbn [committed lock files reader writers removed_during_lookup]; auto.
      * intros n H. destruct (I2 n H). auto.
      * intros j wj H Hf Hp. upd_cases H i j; [rewrite Ew in H; inversion H; subst; discriminate|eauto].
      * intros j wj H. upd_cases H i j; [rewrite Ew in H; inversion H; subst; exact I|apply I4; auto].
      * intros j wj old' H Hp. upd_cases H i j; [rewrite Ew in H; inversion H; subst; discriminate|eauto].
      * intros j wj n H Hp. upd_cases H i j; [rewrite Ew in H; inversion H; subst; discriminate|].
        destruct (I6 j wj n H Hp). auto.
    + destruct (I6 i w m Ew Epc) as [Dm Sm].
      constructor; cbn [committed lock files reader writers removed_during_lookup]; auto.
      * intros n H. destruct (I2 n H) as [Fn Sn]. split; [|auto].
        rewrite file_get_remove_other; auto. intros ->. apply Dm. exact H.
      * intros j wj H Hf Hp. upd_cases H i j; [rewrite Ew in H; inversion H; subst; discriminate|].
        rewrite file_get_remove_other; eauto.
        intros X. symmetry in X. revert X. eapply settled_not_unretired; eauto.
        destruct (w_pc wj); try discriminate; reflexivity.
      * intros j wj H. upd_cases H i j; [rewrite Ew in H; inversion H; subst; exact I|apply I4; auto].
      * intros j wj old' H Hp. upd_cases H i j; [rewrite Ew in H; inversion H; subst; discriminate|eauto].
      * intros j wj n H Hp. upd_cases H i j; [rewrite Ew in H; inversion H; subst; discriminate|].
        destruct (I6 j wj n H Hp). auto.
      * intros n mo Hr Hg. apply orb_false_iff in Hg as [Hg Hs]. rewrite Hr in Hs. discriminate.
    + constructor; cbn [committed lock files reader writers removed_during_lookup]; auto.
      * intros n H. destruct (I2 n H). auto.
      * intros j wj H Hf Hp. upd_cases H i j; [rewrite Ew in H; inversion H; subst; discriminate|eauto].
      * intros j wj H. upd_cases H i j; [rewrite Ew in H; inversion H; subst; exact I|apply I4; auto].
      * intros j wj old' H Hp. upd_cases H i j; [rewrite Ew in H; inversion H; subst; discriminate|eauto].
      * intros j wj n H Hp. upd_cases H i j; [rewrite Ew in H; inversion H; subst; discriminate|].
        destruct (I6 j wj n H Hp). auto.
  - constructor; auto.
Qed.

Lemma Inv_step again c cid : Inv c -> Inv (step again c cid).
Proof. intros I. destruct cid; [apply Inv_reader_step|apply Inv_writer_step]; exact I. Qed.

Lemma Inv_run again sched : forall c, Inv c -> Inv (run again c sched).
Proof.
  unfold run. induction sched as [|cid sched IH]; intros c I; cbn [fold_left]; [exact I|].
  apply IH, Inv_step, I.
Qed.

Lemma present_trace again : forall s c0, Inv c0 -> forallb present (trace again c0 s) = true.
Proof.
  induction s as [|cid s IH]; intros c0 I0; cbn [trace forallb].
  - destruct (inv_present c0 I0) as [r E]. unfold present. rewrite E. reflexivity.
  - destruct (inv_present c0 I0) as [r E]. unfold present at 1. rewrite E. cbn.
    apply IH, Inv_step, I0.
Qed.

(* ------------------------------------------------------------------------------------------------ *)
(* the reader of the code as it is                                                                   *)

(* the file a lookup could not open is gone for good: its name belongs to the initial file or to a writer that has
   committed (such names are never published again), and the committed row names another file; the file a lookup is
   about to open is therefore not the one that was missing before *)
Definition missing_of (r : rpc) : option Z :=
  match r with RSelected _ mo => mo | RAgain m => Some m | _ => None end.

Record RInv (c : cfg) : Prop := {
  rinv_missing : forall m, missing_of (reader c) = Some m -> settled (writers c) m /\ committed c <> Some (InFile m);
  rinv_selected : forall n mo, reader c = RSelected n mo -> settled (writers c) n /\ mo <> Some n
}.

Lemma RInv_init file0 v0 ws : RInv (init file0 v0 ws).
Proof. constructor; cbn; discriminate. Qed.

Lemma RInv_reader_select c mo :
  Inv c -> (forall m, mo = Some m -> settled (writers c) m /\ committed c <> Some (InFile m)) -> RInv (reader_select c mo).
Proof.
  intros I Hm. unfold reader_select.
  destruct (committed c) as [[v|n]|] eqn:Ec; constructor; cbn; try discriminate.
  - intros m E. rewrite Ec. apply Hm, E.
  - intros n0 mo0 E. inversion E; subst. split; [apply (inv_committed_file c I), Ec|].
    intros X. destruct (Hm n0 X) as [_ N]. apply N. reflexivity.
Qed.

Lemma RInv_reader_step again c : Inv c -> RInv c -> RInv (reader_step again c).
Proof.
  intros I R. unfold reader_step. destruct (reader c) eqn:Er; [| | |exact R]; destruct R as [R1 R2]; rewrite Er in *.
  - apply RInv_reader_select; [exact I|discriminate].
  - destruct (file_get name (files c)) eqn:Ef; [constructor; cbn; discriminate|].
    destruct (again && negb (same_missing missing name)); constructor; cbn; try discriminate.
    intros m E. inversion E; subst. destruct (R2 m missing eq_refl) as [Sm _]. split; [exact Sm|].
    intros Ec. destruct (inv_committed_file c I m Ec) as [F _]. contradiction.
  - apply RInv_reader_select; [exact I|]. intros m E. inversion E; subst. apply R1. reflexivity.
Qed.

Lemma RInv_writer_step i c : Inv c -> RInv c -> RInv (writer_step i c).
Proof.
  intros I [R1 R2]. unfold writer_step.
  destruct (nth_error (writers c) i) as [w|] eqn:Ew; [|constructor; auto].
  assert (K : forall p, (retired_pc (w_pc w) = true -> retired_pc p = true) ->
              forall com, (forall m, missing_of (reader c) = Some m -> com <> Some (InFile m)) ->
              forall lk fs g,
              RInv {| committed := com; lock := lk; files := fs; reader := reader c;
                      writers := upd i (set_pc w p) (writers c); removed_during_lookup := g |}).
  { intros p Hp com Hc lk fs g. constructor; cbn.
    - intros m E. split; [apply settled_upd; auto; apply R1, E|apply Hc, E].
    - intros n mo E. destruct (R2 n mo E) as [Sn D]. split; [apply settled_upd; auto|exact D]. }
  assert (C0 : forall m, missing_of (reader c) = Some m -> committed c <> Some (InFile m)) by (intros m E; apply R1, E).
  destruct (w_pc w) eqn:Epc.
  - apply K; [discriminate|exact C0].
  - destruct (lock c); [constructor; auto|]. apply K; [discriminate|exact C0].
  - apply K; [discriminate|exact C0].
  - apply K; [auto|]. intros m E X. unfold new_rep in X. destruct (w_file w); [|discriminate]. inversion X as [Y].
    destruct (R1 m E) as [Sm _]. symmetry in Y. revert Y. eapply settled_not_unretired; eauto. rewrite Epc. reflexivity.
  - destruct old as [[v|m]|]; (apply K; [auto|exact C0]).
  - constructor; auto.
Qed.

Lemma RInv_step again c cid : Inv c -> RInv c -> RInv (step again c cid).
Proof. intros I R. destruct cid; [apply RInv_reader_step|apply RInv_writer_step]; assumption. Qed.

(* the repaired lookup never reports "absent" *)
Definition Never_absent (c : cfg) : Prop := reader c <> RDone None.

Lemma never_absent_step c cid : Inv c -> RInv c -> Never_absent c -> Never_absent (step repaired c cid).
Proof.
  intros I R N. destruct cid as [|i]; cbn [step].
  - unfold Never_absent, reader_step, reader_select. destruct (reader c) eqn:Er.
    + destruct (inv_present c I) as [r Ec]. rewrite Ec. destruct r; cbn; discriminate.
    + destruct (file_get name (files c)); [cbn; discriminate|].
      destruct (rinv_selected c R name missing Er) as [_ D].
      assert (Sm : same_missing missing name = false).
      { destruct missing as [m|]; [|reflexivity]. cbn. apply Z.eqb_neq. intros ->. apply D. reflexivity. }
      rewrite Sm. change repaired with true. cbn. discriminate.
    + destruct (inv_present c I) as [r Ec]. rewrite Ec. destruct r; cbn; discriminate.
    + exact N.
  - unfold Never_absent, writer_step in *.
    destruct (nth_error (writers c) i) as [w|]; [|exact N].
    destruct (w_pc w); cbn; auto.
    + destruct (lock c); cbn; auto.
    + destruct old as [[v|m]|]; cbn; auto.
Qed.

Lemma never_absent_run sched : forall c, Inv c -> RInv c -> Never_absent c -> Never_absent (run repaired c sched).
Proof.
  unfold run. induction sched as [|cid sched IH]; intros c I R N; cbn [fold_left]; [exact N|].
  apply IH; [apply Inv_step, I|apply RInv_step; assumption|apply never_absent_step; assumption].
Qed.

(* what a lookup returns is the initial value or a value some writer wrote (never a partial or mixed one) *)
Record Vals (V : list Z) (c : cfg) : Prop := {
  vals_files : forall n v, file_get n (files c) = Some v -> In v V;
  vals_row : forall v, committed c = Some (Inline v) -> In v V;
  vals_writers : forall w, In w (writers c) -> In (w_val w) V;
  vals_result : forall v, reader c = RDone (Some v) -> In v V
}.

Lemma file_get_remove_some n m fs v : file_get n (file_remove m fs) = Some v -> file_get n fs = Some v.
Proof.
  unfold file_remove. induction fs as [|[k x] fs IH]; cbn; [discriminate|].
  destruct (Z.eqb_spec k m) as [->|E]; cbn.
  - intros H. destruct (Z.eqb_spec n m) as [->|D]; [|auto].
    exfalso. clear IH. induction fs as [|[k y] fs IH]; cbn in H; [discriminate|].
    destruct (Z.eqb_spec k m) as [->|E]; cbn in H; [auto|]. destruct (Z.eqb_spec m k); [congruence|auto].
  - destruct (n =? k); auto.
Qed.

Lemma in_upd {A} (l : list A) : forall i x y, In y (upd i x l) -> y = x \/ In y l.
Proof.
  induction l as [|z l IH]; intros [|i] x y; cbn; auto.
  - intros [<-|H]; auto.
  - intros [<-|H]; auto. destruct (IH i x y H); auto.
Qed.

Lemma Vals_init file0 v0 ws : Vals (v0 :: map fst ws) (init file0 v0 ws).
Proof.
  constructor; cbn [init files committed writers reader].
  - intros n v. destruct file0; cbn; [|discriminate]. destruct (n =? -1); [|discriminate]. intros H; inversion H; auto.
  - intros v. destruct file0; [discriminate|]. intros H; inversion H; subst. left; reflexivity.
  - intros w H. apply in_map_iff in H as [p [<- Hp]]. cbn. right. apply in_map, Hp.
  - discriminate.
Qed.

Lemma Vals_step V again c cid : Vals V c -> Vals V (step again c cid).
Proof.
  intros HV. pose proof HV as [V1 V2 V3 V4]. destruct cid as [|i]; cbn [step].
  - unfold reader_step, reader_select. destruct (reader c) eqn:Er.
    + destruct (committed c) as [[v|n]|] eqn:Ec; constructor; cbn; rewrite ?Ec; auto; try discriminate.
      intros v' H. inversion H; subst. auto.
    + destruct (file_get name (files c)) eqn:Ef; [|destruct (again && negb (same_missing missing name))];
        constructor; cbn; auto; try discriminate.
      intros v' H. inversion H; subst. eauto.
    + destruct (committed c) as [[v|n]|] eqn:Ec; constructor; cbn; rewrite ?Ec; auto; try discriminate.
      intros v' H. inversion H; subst. auto.
    + exact HV.
  - unfold writer_step. destruct (nth_error (writers c) i) as [w|] eqn:Ew; [|constructor; auto].
    assert (Vw : In (w_val w) V) by (apply V3; eapply nth_error_In; eauto).
    assert (U : forall p w', In w' (upd i (set_pc w p) (writers c)) -> In (w_val w') V).
    { intros p w' H. apply in_upd in H as [->|H]; auto. }
    destruct (w_pc w) eqn:Epc.
    + constructor; cbn; eauto. intros n v. destruct (w_file w); [|eauto]. cbn. destruct (n =? Z.of_nat i); [|eauto].
      intros H; inversion H; subst; exact Vw.
    + destruct (lock c); constructor; cbn; eauto.
    + constructor; cbn; eauto.
    + constructor; cbn; eauto. intros v. unfold new_rep. destruct (w_file w); [discriminate|]. intros H; inversion H; subst; exact Vw.
    + destruct old as [[v|m]|]; constructor; cbn; eauto. intros n v H. apply file_get_remove_some in H. eauto.
    + constructor; eauto.
Qed.

Lemma Vals_run V again sched : forall c, Vals V c -> Vals V (run again c sched).
Proof.
  unfold run. induction sched as [|cid sched IH]; intros c H; cbn [fold_left]; [exact H|]. apply IH, Vals_step, H.
Qed.

(* THE FULL STATEMENT, for every schedule, any number of replacing writers, any mix of inline and file-backed values:
   the key is present in every committed state; the lookup never reports "absent" (it may still be in progress:
   lookup_result = None); and when it has returned, the value is the initial one or one some writer wrote *)
Theorem continuous_presence : forall file0 v0 ws sched,
  let c := run repaired (init file0 v0 ws) sched in
  forallb present (trace repaired (init file0 v0 ws) sched) = true /\
  lookup_result c <> Some None /\
  (forall v, lookup_result c = Some (Some v) -> In v (v0 :: map fst ws)).
Proof.
  intros file0 v0 ws sched c. split; [apply present_trace, Inv_init|]. split.
  - unfold lookup_result. intros H.
    apply (never_absent_run sched (init file0 v0 ws) (Inv_init _ _ _) (RInv_init _ _ _)); [cbn; discriminate|].
    fold c. destruct (reader c) as [| | |r]; try discriminate. inversion H. reflexivity.
  - intros v H. apply (vals_result _ c (Vals_run _ repaired sched _ (Vals_init file0 v0 ws))).
    unfold lookup_result in H. destruct (reader c) as [| | |r]; try discriminate. inversion H. reflexivity.
Qed.

(* progress: once the writers are through, the lookup returns within three steps of its own (SELECT, failed open,
   SELECT, open), so "in progress" is not a way of never answering; checked on the witness *)
Example lookup_returns_after_the_writers :
  forallb (fun n => match lookup_result (run repaired witness_init (repeat 0%nat n ++ repeat 1%nat 6 ++ repeat 0%nat 4)) with
                    | Some (Some v) => (v =? 7) || (v =? 8) | _ => false end) (seq 0 4) = true.
Proof. vm_compute. reflexivity. Qed.

(* ------------------------------------------------------------------------------------------------ *)
(* the old reader: the strongest true restriction                                                    *)

(* a finished lookup that raised KeyError had a file removed between its two steps *)
Definition Fail_explained (c : cfg) : Prop :=
  reader c = RDone None -> removed_during_lookup c = true.

Lemma explained_step c cid : Inv c -> Fail_explained c -> Fail_explained (step old_reader c cid).
Proof.
  intros I E. destruct cid as [|i]; cbn [step].
  - unfold reader_step, reader_select, Fail_explained. destruct (reader c) eqn:Er.
    + destruct (inv_present c I) as [r Ec]. rewrite Ec. destruct r; cbn; discriminate.
    + destruct (file_get name (files c)) eqn:Ef; [cbn; discriminate|].
      cbn. intros _. destruct (removed_during_lookup c) eqn:Eg; [reflexivity|].
      exfalso. eapply (inv_reader c I); eauto.
    + destruct (inv_present c I) as [r Ec]. rewrite Ec. destruct r; cbn; discriminate.
    + intros H. apply E. exact H.
  - unfold writer_step, Fail_explained in *.
    destruct (nth_error (writers c) i) as [w|]; [|exact E].
    destruct (w_pc w); cbn; auto.
    + destruct (lock c); cbn; auto.
    + destruct old as [[v|m]|]; cbn; auto. intros H. rewrite (E H). reflexivity.
Qed.

Lemma explained_run sched : forall c, Inv c -> Fail_explained c -> Fail_explained (run old_reader c sched).
Proof.
  unfold run. induction sched as [|cid sched IH]; intros c I E; cbn [fold_left]; [exact E|].
  apply IH; [apply Inv_step, I|apply explained_step; auto].
Qed.

(* for every schedule, any number of writers, any mix of inline and file-backed values *)
Theorem continuous_presence_old_reader_partial : forall file0 v0 ws sched,
  let c := run old_reader (init file0 v0 ws) sched in
  (* the key is present in every committed state *)
  forallb present (trace old_reader (init file0 v0 ws) sched) = true /\
  (* a lookup that finished with KeyError overlapped a writer's removal of a value file *)
  (lookup_result c = Some None -> removed_during_lookup c = true).
Proof.
  intros file0 v0 ws sched c. split; [apply present_trace, Inv_init|].
  unfold lookup_result. intros H. apply (explained_run sched (init file0 v0 ws)).
  - apply Inv_init.
  - unfold Fail_explained. cbn. discriminate.
  - fold c. destruct (reader c) as [| | |r]; try discriminate. inversion H. reflexivity.
Qed.

(* no file is ever removed when every value is inline, so such lookups always succeeded, with the old reader too *)
Definition all_inline (c : cfg) : Prop :=
  (forall n, committed c <> Some (InFile n)) /\
  (forall i w, nth_error (writers c) i = Some w ->
               w_file w = false /\ forall n, w_pc w <> WUpdated (Some (InFile n)) /\ w_pc w <> WCommitted (Some (InFile n))) /\
  removed_during_lookup c = false.

Lemma all_inline_step again c cid : all_inline c -> all_inline (step again c cid).
Proof.
  intros [A1 [A2 A3]]. destruct cid as [|i]; cbn [step].
  - unfold reader_step, reader_select. destruct (reader c).
    + destruct (committed c) as [[v|n]|] eqn:Ec; (split; [|split]); cbn; rewrite ?Ec; auto; try discriminate.
    + destruct (file_get name (files c)); [|destruct (again && negb (same_missing missing name))]; (split; [|split]); cbn; auto.
    + destruct (committed c) as [[v|n]|] eqn:Ec; (split; [|split]); cbn; rewrite ?Ec; auto; try discriminate.
    + (split; [|split]); auto.
  - unfold writer_step. destruct (nth_error (writers c) i) as [w|] eqn:Ew; [|(split; [|split]); auto].
    destruct (A2 i w Ew) as [Wf Wp].
    assert (K : forall p, (forall n, p <> WUpdated (Some (InFile n)) /\ p <> WCommitted (Some (InFile n))) ->
                forall j wj, nth_error (upd i (set_pc w p) (writers c)) j = Some wj ->
                w_file wj = false /\ forall n, w_pc wj <> WUpdated (Some (InFile n)) /\ w_pc wj <> WCommitted (Some (InFile n))).
    { intros p Hp j wj H. rewrite nth_error_upd in H. destruct (Nat.eqb_spec i j); [subst j|eapply A2; eauto].
      rewrite Ew in H. inversion H; subst. cbn. auto. }
    destruct (w_pc w) eqn:Epc.
    + split; [exact A1|]. split; [|exact A3]. cbn [writers]. apply K. intros n; split; discriminate.
    + destruct (lock c); [(split; [|split]); auto|].
      split; [exact A1|]. split; [|exact A3]. cbn [writers]. apply K. intros n; split; discriminate.
    + split; [exact A1|]. split; [|exact A3]. cbn [writers]. apply K. intros n; split; [|discriminate].
      intros X. inversion X as [Y]. apply (A1 n). exact Y.
    + split; [|split; [|exact A3]].
      * cbn [committed]. unfold new_rep. rewrite Wf. discriminate.
      * cbn [writers]. apply K. intros n; split; [discriminate|].
        intros X. inversion X; subst. apply (proj1 (Wp n)). reflexivity.
    + destruct old as [[v|m]|].
      * split; [exact A1|]. split; [|exact A3]. cbn [writers]. apply K. intros n; split; discriminate.
      * exfalso. apply (proj2 (Wp m)). reflexivity.
      * split; [exact A1|]. split; [|exact A3]. cbn [writers]. apply K. intros n; split; discriminate.
    + (split; [|split]); auto.
Qed.

Theorem continuous_presence_old_reader_inline : forall v0 ws sched,
  forallb (fun p => negb (snd p)) ws = true ->
  lookup_result (run old_reader (init false v0 ws) sched) <> Some None.
Proof.
  intros v0 ws sched Hw H.
  assert (A : all_inline (run old_reader (init false v0 ws) sched)).
  { assert (G : forall s c0, all_inline c0 -> all_inline (run old_reader c0 s)).
    { unfold run. induction s as [|cid s IH]; intros c0 A0; cbn [fold_left]; auto using all_inline_step. }
    apply G. repeat split; cbn; try discriminate.
    - apply nth_error_In in H0. apply in_map_iff in H0 as [p [<- Hp]]. cbn.
      rewrite forallb_forall in Hw. specialize (Hw p Hp). destruct (snd p); [discriminate|reflexivity].
    - apply nth_error_In in H0. apply in_map_iff in H0 as [p [<- Hp]]. cbn. discriminate.
    - apply nth_error_In in H0. apply in_map_iff in H0 as [p [<- Hp]]. cbn. discriminate. }
  destruct (continuous_presence_old_reader_partial false v0 ws sched) as [_ P]. specialize (P H).
  destruct A as [_ [_ A3]]. congruence.
Qed.

(* the hypotheses are satisfiable and the conclusion is not vacuous *)
Example inline_lookup_overlapping_replace :
  lookup_result (run old_reader (init false 1 [(2, false)]) [0; 1; 1; 1; 1; 1; 0]%nat) = Some (Some 1) /\
  removed_during_lookup (run old_reader witness_init witness_schedule) = true.
Proof. vm_compute. split; reflexivity. Qed.
