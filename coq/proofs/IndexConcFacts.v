(* The concurrent clause of C12 on the micro-step machine of model/IndexConc.v:
   "a key that is continuously present is always found" -- refuted for file-backed values by a concrete
   schedule, proved for all schedules in the strongest true form: a lookup can only fail if a writer's
   file removal ran between the lookup's SELECT and its open (never for inline values). *)
From DC Require Import DCPrelude IndexConc.

(* ------------------------------------------------------------------------------------------------ *)
(* the full statement is false                                                                       *)

(* reader SELECT; writer store, BEGIN, UPDATE, COMMIT, remove; reader open *)
Definition witness_schedule : list nat := [0; 1; 1; 1; 1; 1; 0]%nat.
Definition witness_init : cfg := init true 7 [(8, true)].

Lemma continuous_presence_refuted :
  exists file0 v0 ws sched,
    forallb present (trace (init file0 v0 ws) sched) = true /\
    lookup_result (run (init file0 v0 ws) sched) = Some None.
Proof. exists true, 7, [(8, true)], witness_schedule. vm_compute. split; reflexivity. Qed.

(* the same schedule shifted by one step is benign: the lookup returns the old value *)
Example benign_schedule :
  lookup_result (run witness_init [0; 0; 1; 1; 1; 1; 1]%nat) = Some (Some 7) /\
  lookup_result (run witness_init [1; 1; 1; 1; 1; 0; 0]%nat) = Some (Some 8).
Proof. vm_compute. split; reflexivity. Qed.

(* ------------------------------------------------------------------------------------------------ *)
(* helpers                                                                                           *)

Lemma nth_error_upd {A} (l : list A) : forall i x j,
  nth_error (upd i x l) j =
  if Nat.eqb i j then match nth_error l i with Some _ => Some x | None => None end else nth_error l j.
Proof.
  induction l as [|y l IH]; intros [|i] x [|j]; cbn; auto; try (destruct (Nat.eqb i j); reflexivity).
Qed.

Lemma file_get_cons_mono n m v fs : file_get n fs <> None -> file_get n ((m, v) :: fs) <> None.
Proof. cbn. destruct (n =? m); auto. discriminate. Qed.

Lemma file_get_remove_other n m fs : n <> m -> file_get n (file_remove m fs) = file_get n fs.
Proof.
  intros D. unfold file_remove. induction fs as [|[k v] fs IH]; cbn; [reflexivity|].
  destruct (Z.eqb_spec k m) as [->|E]; cbn.
  - destruct (Z.eqb_spec n m); [contradiction|]. exact IH.
  - rewrite IH. reflexivity.
Qed.

Definition retired_pc (p : wpc) : bool := match p with WCommitted _ | WDone => true | _ => false end.
Definition pending_pc (p : wpc) : bool := match p with WStored | WLocked | WUpdated _ => true | _ => false end.

(* a file name that no writer still has to publish: the initial file, or the file of a writer that has
   committed *)
Definition settled (ws : list writer) (n : Z) : Prop :=
  n = -1 \/ exists i w, n = Z.of_nat i /\ nth_error ws i = Some w /\ retired_pc (w_pc w) = true.

Lemma settled_not_unretired ws n j wj :
  settled ws n -> nth_error ws j = Some wj -> retired_pc (w_pc wj) = false -> n <> Z.of_nat j.
Proof.
  intros [->|[i [w [-> [E R]]]]] Ej Rj; [lia|].
  intros H. apply Nat2Z.inj in H. subst. rewrite E in Ej. inversion Ej; subst. congruence.
Qed.

Lemma settled_upd ws i w p n :
  nth_error ws i = Some w -> (retired_pc (w_pc w) = true -> retired_pc p = true) ->
  settled ws n -> settled (upd i (set_pc w p) ws) n.
Proof.
  intros E Hp [->|[k [wk [-> [Ek Rk]]]]]; [left; reflexivity|]. right.
  destruct (Nat.eqb_spec i k) as [->|D].
  - exists k, (set_pc w p). split; [reflexivity|]. split.
    + rewrite nth_error_upd, Nat.eqb_refl, E. reflexivity.
    + cbn. apply Hp. rewrite E in Ek. inversion Ek; subst. exact Rk.
  - exists k, wk. split; [reflexivity|]. split; [|exact Rk].
    rewrite nth_error_upd. destruct (Nat.eqb_spec i k); [contradiction|]. exact Ek.
Qed.

(* ------------------------------------------------------------------------------------------------ *)
(* the invariant: rows and files agree in every reachable configuration                              *)

Record Inv (c : cfg) : Prop := {
  inv_present : exists r, committed c = Some r;
  inv_committed_file : forall n, committed c = Some (InFile n) ->
                                 file_get n (files c) <> None /\ settled (writers c) n;
  inv_pending_file : forall i w, nth_error (writers c) i = Some w -> w_file w = true ->
                                 pending_pc (w_pc w) = true -> file_get (Z.of_nat i) (files c) <> None;
  inv_lock : forall i w, nth_error (writers c) i = Some w ->
                         match w_pc w with WLocked | WUpdated _ => lock c = Some i | _ => True end;
  inv_updated_old : forall i w old, nth_error (writers c) i = Some w -> w_pc w = WUpdated old ->
                                    old = committed c;
  inv_committed_old : forall i w n, nth_error (writers c) i = Some w -> w_pc w = WCommitted (Some (InFile n)) ->
                                    committed c <> Some (InFile n) /\ settled (writers c) n;
  inv_reader : forall n, reader c = RSelected n -> removed_during_lookup c = false ->
                         file_get n (files c) <> None
}.

Lemma Inv_init file0 v0 ws : Inv (init file0 v0 ws).
Proof.
  assert (P : forall i w, nth_error (writers (init file0 v0 ws)) i = Some w -> w_pc w = WStart).
  { cbn [init writers]. intros i w H. apply nth_error_In in H. apply in_map_iff in H as [p [<- _]]. reflexivity. }
  constructor; cbn [init committed files reader removed_during_lookup lock].
  - eauto.
  - intros n H. destruct file0; inversion H; subst. split; [cbn; discriminate|left; reflexivity].
  - intros i w H _ Hp. rewrite (P i w H) in Hp. discriminate.
  - intros i w H. rewrite (P i w H). exact I.
  - intros i w old H Hp. rewrite (P i w H) in Hp. discriminate.
  - intros i w n H Hp. rewrite (P i w H) in Hp. discriminate.
  - discriminate.
Qed.

Lemma Inv_reader_step c : Inv c -> Inv (reader_step c).
Proof.
  intros [I1 I2 I3 I4 I5 I6 I7]. unfold reader_step.
  destruct (reader c) eqn:Er.
  - destruct (committed c) as [[v|n]|] eqn:Ec; constructor; cbn; auto; try discriminate.
    intros n0 H _. inversion H; subst. apply I2. reflexivity.
  - constructor; cbn; auto. discriminate.
  - constructor; auto. intros n H. rewrite Er in H. discriminate.
Qed.

(* what a looked-up writer of the updated list is *)
Ltac upd_cases H i j :=
  rewrite nth_error_upd in H; destruct (Nat.eqb_spec i j); [subst j|].

Lemma Inv_writer_step i c : Inv c -> Inv (writer_step i c).
Proof.
  intros [I1 I2 I3 I4 I5 I6 I7]. unfold writer_step.
  destruct (nth_error (writers c) i) as [w|] eqn:Ew; [|constructor; auto].
  destruct (w_pc w) eqn:Epc.
  - (* store *)
    assert (S : forall n, settled (writers c) n -> settled (upd i (set_pc w WStored) (writers c)) n).
    { intros n. apply settled_upd; auto. rewrite Epc. discriminate. }
    assert (F : forall n, file_get n (files c) <> None ->
                          file_get n (if w_file w then (Z.of_nat i, w_val w) :: files c else files c) <> None).
    { intros n H. destruct (w_file w); auto using file_get_cons_mono. }
    constructor; cbn [committed lock files reader writers removed_during_lookup]; auto.
    + intros n H. destruct (I2 n H). auto.
    + intros j wj H Hf Hp. upd_cases H i j.
      * rewrite Ew in H. inversion H; subst. cbn in Hf. rewrite Hf. cbn. rewrite Z.eqb_refl. discriminate.
      * apply F. eauto.
    + intros j wj H. upd_cases H i j.
      * rewrite Ew in H. inversion H; subst. exact I.
      * apply I4; auto.
    + intros j wj old H Hp. upd_cases H i j.
      * rewrite Ew in H. inversion H; subst. discriminate.
      * eauto.
    + intros j wj n H Hp. upd_cases H i j.
      * rewrite Ew in H. inversion H; subst. discriminate.
      * destruct (I6 j wj n H Hp). auto.
  - (* BEGIN *)
    destruct (lock c) as [h|] eqn:El; [constructor; auto; rewrite ?El; auto|].
    assert (S : forall n, settled (writers c) n -> settled (upd i (set_pc w WLocked) (writers c)) n).
    { intros n. apply settled_upd; auto. rewrite Epc. discriminate. }
    constructor; cbn [committed lock files reader writers removed_during_lookup]; auto.
    + intros n H. destruct (I2 n H). auto.
    + intros j wj H Hf Hp. upd_cases H i j.
      * rewrite Ew in H. inversion H; subst. cbn in Hf. apply (I3 i w Ew Hf). rewrite Epc. reflexivity.
      * eauto.
    + intros j wj H. upd_cases H i j.
      * rewrite Ew in H. inversion H; subst. reflexivity.
      * specialize (I4 j wj H). destruct (w_pc wj); auto; discriminate.
    + intros j wj old H Hp. upd_cases H i j.
      * rewrite Ew in H. inversion H; subst. discriminate.
      * eauto.
    + intros j wj n H Hp. upd_cases H i j.
      * rewrite Ew in H. inversion H; subst. discriminate.
      * destruct (I6 j wj n H Hp). auto.
  - (* UPDATE *)
    assert (S : forall n, settled (writers c) n -> settled (upd i (set_pc w (WUpdated (committed c))) (writers c)) n).
    { intros n. apply settled_upd; auto. rewrite Epc. discriminate. }
    constructor; cbn [committed lock files reader writers removed_during_lookup]; auto.
    + intros n H. destruct (I2 n H). auto.
    + intros j wj H Hf Hp. upd_cases H i j.
      * rewrite Ew in H. inversion H; subst. cbn in Hf. apply (I3 i w Ew Hf). rewrite Epc. reflexivity.
      * eauto.
    + intros j wj H. upd_cases H i j.
      * rewrite Ew in H. inversion H; subst. cbn. specialize (I4 i w Ew). rewrite Epc in I4. exact I4.
      * apply I4; auto.
    + intros j wj old H Hp. upd_cases H i j.
      * rewrite Ew in H. inversion H; subst. cbn in Hp. congruence.
      * eauto.
    + intros j wj n H Hp. upd_cases H i j.
      * rewrite Ew in H. inversion H; subst. discriminate.
      * destruct (I6 j wj n H Hp). auto.
  - (* COMMIT *)
    assert (S : forall n, settled (writers c) n -> settled (upd i (set_pc w (WCommitted old)) (writers c)) n).
    { intros n. apply settled_upd; auto. }
    assert (Li : lock c = Some i) by (specialize (I4 i w Ew); rewrite Epc in I4; exact I4).
    assert (Eo : old = committed c) by (eapply I5; eauto).
    assert (Ui : retired_pc (w_pc w) = false) by (rewrite Epc; reflexivity).
    constructor; cbn [committed lock files reader writers removed_during_lookup]; auto.
    + eauto.
    + intros n H. unfold new_rep in H. destruct (w_file w) eqn:Ef; inversion H; subst. split.
      * apply (I3 i w Ew Ef). rewrite Epc. reflexivity.
      * right. exists i, (set_pc w (WCommitted (committed c))). split; [reflexivity|]. split; [|reflexivity].
        rewrite nth_error_upd, Nat.eqb_refl, Ew. reflexivity.
    + intros j wj H Hf Hp. upd_cases H i j.
      * rewrite Ew in H. inversion H; subst. discriminate.
      * eauto.
    + intros j wj H. upd_cases H i j.
      * rewrite Ew in H. inversion H; subst. exact I.
      * specialize (I4 j wj H). rewrite Li in I4. destruct (w_pc wj); auto; congruence.
    + intros j wj old' H Hp. upd_cases H i j.
      * rewrite Ew in H. inversion H; subst. discriminate.
      * specialize (I4 j wj H). rewrite Hp, Li in I4. congruence.
    + intros j wj n H Hp. upd_cases H i j.
      * rewrite Ew in H. inversion H; subst. cbn in Hp. inversion Hp as [Ho].
        destruct (I2 n Ho) as [_ Sn]. split; [|auto]. rewrite Ho.
        unfold new_rep. destruct (w_file w); [|discriminate]. intros X. inversion X as [Y].
        symmetry in Y. revert Y. eapply settled_not_unretired; eauto.
      * destruct (I6 j wj n H Hp) as [D Sn]. split; [|auto].
        unfold new_rep. destruct (w_file w); [|discriminate]. intros X. inversion X as [Y].
        symmetry in Y. revert Y. eapply settled_not_unretired; eauto.
  - (* remove the old file *)
    assert (S : forall n, settled (writers c) n -> settled (upd i (set_pc w WDone) (writers c)) n).
    { intros n. apply settled_upd; auto. }
    destruct old as [[v|m]|].
    + constructor; cbn [committed lock files reader writers removed_during_lookup]; auto.
      * intros n H. destruct (I2 n H). auto.
      * intros j wj H Hf Hp. upd_cases H i j; [rewrite Ew in H; inversion H; subst; discriminate|eauto].
      * intros j wj H. upd_cases H i j; [rewrite Ew in H; inversion H; subst; exact I|apply I4; auto].
      * intros j wj old' H Hp. upd_cases H i j; [rewrite Ew in H; inversion H; subst; discriminate|eauto].
      * intros j wj n H Hp. upd_cases H i j; [rewrite Ew in H; inversion H; subst; discriminate|].
        destruct (I6 j wj n H Hp). auto.
    + destruct (I6 i w m Ew Epc) as [Dm Sm].
      constructor; cbn [committed lock files reader writers removed_during_lookup]; auto.
      * intros n H. destruct (I2 n H) as [Fn Sn]. split; [|auto].
        rewrite file_get_remove_other; auto. intros ->. apply Dm. exact H.
      * intros j wj H Hf Hp. upd_cases H i j; [rewrite Ew in H; inversion H; subst; discriminate|].
        rewrite file_get_remove_other; eauto.
        intros X. symmetry in X. revert X. eapply settled_not_unretired; eauto.
        destruct (w_pc wj); try discriminate; reflexivity.
      * intros j wj H. upd_cases H i j; [rewrite Ew in H; inversion H; subst; exact I|apply I4; auto].
      * intros j wj old' H Hp. upd_cases H i j; [rewrite Ew in H; inversion H; subst; discriminate|eauto].
      * intros j wj n H Hp. upd_cases H i j; [rewrite Ew in H; inversion H; subst; discriminate|].
        destruct (I6 j wj n H Hp). auto.
      * intros n Hr Hg. apply orb_false_iff in Hg as [Hg Hs]. rewrite Hr in Hs. discriminate.
    + constructor; cbn [committed lock files reader writers removed_during_lookup]; auto.
      * intros n H. destruct (I2 n H). auto.
      * intros j wj H Hf Hp. upd_cases H i j; [rewrite Ew in H; inversion H; subst; discriminate|eauto].
      * intros j wj H. upd_cases H i j; [rewrite Ew in H; inversion H; subst; exact I|apply I4; auto].
      * intros j wj old' H Hp. upd_cases H i j; [rewrite Ew in H; inversion H; subst; discriminate|eauto].
      * intros j wj n H Hp. upd_cases H i j; [rewrite Ew in H; inversion H; subst; discriminate|].
        destruct (I6 j wj n H Hp). auto.
  - constructor; auto.
Qed.

Lemma Inv_run sched : forall c, Inv c -> Inv (run c sched).
Proof.
  unfold run. induction sched as [|cid sched IH]; intros c I; cbn [fold_left]; [exact I|].
  apply IH. destruct cid; [apply Inv_reader_step|apply Inv_writer_step]; exact I.
Qed.

(* a finished lookup that raised KeyError had a file removed between its two steps *)
Definition Fail_explained (c : cfg) : Prop :=
  reader c = RDone None -> removed_during_lookup c = true.

Lemma explained_step c cid : Inv c -> Fail_explained c -> Fail_explained (step c cid).
Proof.
  intros I E. destruct cid as [|i]; cbn [step].
  - unfold reader_step, Fail_explained. destruct (reader c) eqn:Er.
    + destruct (inv_present c I) as [r Ec]. rewrite Ec. destruct r; cbn; discriminate.
    + cbn. intros H. inversion H as [G]. destruct (removed_during_lookup c) eqn:Eg; [reflexivity|].
      exfalso. eapply (inv_reader c I); eauto.
    + intros H. apply E. exact H.
  - unfold writer_step, Fail_explained in *.
    destruct (nth_error (writers c) i) as [w|]; [|exact E].
    destruct (w_pc w); cbn; auto.
    + destruct (lock c); cbn; auto.
    + destruct old as [[v|m]|]; cbn; auto. intros H. rewrite (E H). reflexivity.
Qed.

Lemma explained_run sched : forall c, Inv c -> Fail_explained c -> Fail_explained (run c sched).
Proof.
  unfold run. induction sched as [|cid sched IH]; intros c I E; cbn [fold_left]; [exact E|].
  apply IH; [|apply explained_step; auto].
  destruct cid; [apply Inv_reader_step|apply Inv_writer_step]; exact I.
Qed.

(* ------------------------------------------------------------------------------------------------ *)
(* the strongest true restriction, for every schedule, any number of writers, any mix of inline and
   file-backed values                                                                                *)

Theorem continuous_presence_partial : forall file0 v0 ws sched,
  let c := run (init file0 v0 ws) sched in
  (* the key is present in every committed state *)
  forallb present (trace (init file0 v0 ws) sched) = true /\
  (* a lookup that finished with KeyError overlapped a writer's removal of a value file *)
  (lookup_result c = Some None -> removed_during_lookup c = true).
Proof.
  intros file0 v0 ws sched c. split.
  - assert (G : forall s c0, Inv c0 -> forallb present (trace c0 s) = true).
    { induction s as [|cid s IH]; intros c0 I0; cbn [trace forallb].
      - destruct (inv_present c0 I0) as [r E]. unfold present. rewrite E. reflexivity.
      - destruct (inv_present c0 I0) as [r E]. unfold present at 1. rewrite E. cbn.
        apply IH. destruct cid; [apply Inv_reader_step|apply Inv_writer_step]; exact I0. }
    apply G, Inv_init.
  - unfold lookup_result. intros H. apply (explained_run sched (init file0 v0 ws)).
    + apply Inv_init.
    + unfold Fail_explained. cbn. discriminate.
    + fold c. destruct (reader c) as [| |r]; try discriminate. inversion H. reflexivity.
Qed.

(* no file is ever removed when every value is inline, so such lookups always succeed *)
Definition all_inline (c : cfg) : Prop :=
  (forall n, committed c <> Some (InFile n)) /\
  (forall i w, nth_error (writers c) i = Some w ->
               w_file w = false /\ forall n, w_pc w <> WUpdated (Some (InFile n)) /\ w_pc w <> WCommitted (Some (InFile n))) /\
  removed_during_lookup c = false.

Lemma all_inline_step c cid : all_inline c -> all_inline (step c cid).
Proof.
  intros [A1 [A2 A3]]. destruct cid as [|i]; cbn [step].
  - unfold reader_step. destruct (reader c).
    + destruct (committed c) as [[v|n]|] eqn:Ec; (split; [|split]); cbn; auto; try discriminate.
    + (split; [|split]); cbn; auto.
    + (split; [|split]); auto.
  - unfold writer_step. destruct (nth_error (writers c) i) as [w|] eqn:Ew; [|(split; [|split]); auto].
    destruct (A2 i w Ew) as [Wf Wp].
    assert (K : forall p, (forall n, p <> WUpdated (Some (InFile n)) /\ p <> WCommitted (Some (InFile n))) ->
                forall j wj, nth_error (upd i (set_pc w p) (writers c)) j = Some wj ->
                w_file wj = false /\ forall n, w_pc wj <> WUpdated (Some (InFile n)) /\ w_pc wj <> WCommitted (Some (InFile n))).
    { intros p Hp j wj H. rewrite nth_error_upd in H. destruct (Nat.eqb_spec i j); [subst j|eapply A2; eauto].
      rewrite Ew in H. inversion H; subst. cbn. auto. }
    destruct (w_pc w) eqn:Epc.
    + split; [exact A1|]. split; [|exact A3]. cbn [writers]. apply K. intros n; split; discriminate.
    + destruct (lock c); [(split; [|split]); auto|].
      split; [exact A1|]. split; [|exact A3]. cbn [writers]. apply K. intros n; split; discriminate.
    + split; [exact A1|]. split; [|exact A3]. cbn [writers]. apply K. intros n; split; [|discriminate].
      intros X. inversion X as [Y]. apply (A1 n). exact Y.
    + split; [|split; [|exact A3]].
      * cbn [committed]. unfold new_rep. rewrite Wf. discriminate.
      * cbn [writers]. apply K. intros n; split; [discriminate|].
        intros X. inversion X; subst. apply (proj1 (Wp n)). reflexivity.
    + destruct old as [[v|m]|].
      * split; [exact A1|]. split; [|exact A3]. cbn [writers]. apply K. intros n; split; discriminate.
      * exfalso. apply (proj2 (Wp m)). reflexivity.
      * split; [exact A1|]. split; [|exact A3]. cbn [writers]. apply K. intros n; split; discriminate.
    + (split; [|split]); auto.
Qed.

Theorem continuous_presence_inline : forall v0 ws sched,
  forallb (fun p => negb (snd p)) ws = true ->
  lookup_result (run (init false v0 ws) sched) <> Some None.
Proof.
  intros v0 ws sched Hw H.
  assert (A : all_inline (run (init false v0 ws) sched)).
  { assert (G : forall s c0, all_inline c0 -> all_inline (run c0 s)).
    { unfold run. induction s as [|cid s IH]; intros c0 A0; cbn [fold_left]; auto using all_inline_step. }
    apply G. repeat split; cbn; try discriminate.
    - apply nth_error_In in H0. apply in_map_iff in H0 as [p [<- Hp]]. cbn.
      rewrite forallb_forall in Hw. specialize (Hw p Hp). destruct (snd p); [discriminate|reflexivity].
    - apply nth_error_In in H0. apply in_map_iff in H0 as [p [<- Hp]]. cbn. discriminate.
    - apply nth_error_In in H0. apply in_map_iff in H0 as [p [<- Hp]]. cbn. discriminate. }
  destruct (continuous_presence_partial false v0 ws sched) as [_ P]. specialize (P H).
  destruct A as [_ [_ A3]]. congruence.
Qed.

(* the hypotheses are satisfiable and the conclusion is not vacuous *)
Example inline_lookup_overlapping_replace :
  lookup_result (run (init false 1 [(2, false)]) [0; 1; 1; 1; 1; 1; 0]%nat) = Some (Some 1) /\
  removed_during_lookup (run witness_init witness_schedule) = true.
Proof. vm_compute. split; reflexivity. Qed.
