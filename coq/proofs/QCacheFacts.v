(* Facts about the abstract queue cache (model/QCache.v) and list helpers used by the Deque proofs. *)
From DC Require Import DCPrelude DCPreludeFacts PersistentBase QCache.

(* ---- boolean comparisons on Z ---- *)
Ltac zbool :=
  repeat match goal with
         | H : context [?a >? ?b] |- _ => rewrite (Z.gtb_ltb a b) in H
         | H : context [?a >=? ?b] |- _ => rewrite (Z.geb_leb a b) in H
         | |- context [?a >? ?b] => rewrite (Z.gtb_ltb a b)
         | |- context [?a >=? ?b] => rewrite (Z.geb_leb a b)
         end;
  repeat match goal with
         | H : context [?a =? ?b] |- _ => destruct (Z.eqb_spec a b)
         | H : context [?a <? ?b] |- _ => destruct (Z.ltb_spec a b)
         | H : context [?a <=? ?b] |- _ => destruct (Z.leb_spec a b)
         | |- context [?a =? ?b] => destruct (Z.eqb_spec a b)
         | |- context [?a <? ?b] => destruct (Z.ltb_spec a b)
         | |- context [?a <=? ?b] => destruct (Z.leb_spec a b)
         end;
  cbn [negb andb orb] in *; try congruence; try lia.

(* ---- take / drop are firstn / skipn ---- *)
Lemma take_firstn {A} n (l : list A) : take n l = firstn n l.
Proof. revert l; induction n; intros [|x l]; cbn; auto. f_equal; auto. Qed.

Lemma drop_skipn {A} n (l : list A) : drop n l = skipn n l.
Proof. revert l; induction n; intros [|x l]; cbn; auto. Qed.

Lemma drop_0 {A} (l : list A) : drop 0 l = l.
Proof. reflexivity. Qed.

Lemma drop_all {A} n (l : list A) : (length l <= n)%nat -> drop n l = [].
Proof. rewrite drop_skipn. apply skipn_all2. Qed.

Lemma take_all {A} n (l : list A) : (length l <= n)%nat -> take n l = l.
Proof. rewrite take_firstn. apply firstn_all2. Qed.

Lemma drop_app_le {A} n (l1 l2 : list A) : (n <= length l1)%nat -> drop n (l1 ++ l2) = drop n l1 ++ l2.
Proof.
  intros H. rewrite !drop_skipn, skipn_app. replace (n - length l1)%nat with O by lia. reflexivity.
Qed.

Lemma take_app_le {A} n (l1 l2 : list A) : (n <= length l1)%nat -> take n (l1 ++ l2) = take n l1.
Proof.
  intros H. rewrite !take_firstn, firstn_app. replace (n - length l1)%nat with O by lia.
  cbn. apply app_nil_r.
Qed.

Lemma drop_length {A} n (l : list A) : length (drop n l) = (length l - n)%nat.
Proof. rewrite drop_skipn. apply skipn_length. Qed.

Lemma drop_S_tl {A} n (l : list A) : drop (S n) l = drop n (tl l).
Proof. destruct l; cbn; auto. destruct n; reflexivity. Qed.

(* ---- splitting a list at a position ---- *)
Lemma split_at {A} (n : nat) (l : list A) :
  (n < length l)%nat -> exists l1 x l2, l = l1 ++ x :: l2 /\ length l1 = n.
Proof.
  revert l; induction n as [|n IH]; intros [|x l] H; cbn in H; try lia.
  - exists [], x, l. auto.
  - destruct (IH l) as [l1 [y [l2 [E L]]]]; [lia|]. exists (x :: l1), y, l2. subst. auto.
Qed.

Lemma rev_cases {A} (l : list A) : l = [] \/ exists l' x, l = l' ++ [x].
Proof.
  destruct (rev l) as [|x r] eqn:E; apply (f_equal (@rev A)) in E; rewrite rev_involutive in E; cbn in E.
  - auto.
  - right. exists (rev r), x. auto.
Qed.

(* ---- ascending key lists ---- *)
Fixpoint asc (l : list Z) : Prop :=
  match l with [] => True | x :: r => (forall y, In y r -> x < y) /\ asc r end.

Lemma asc_app l1 l2 :
  asc (l1 ++ l2) <-> asc l1 /\ asc l2 /\ (forall x y, In x l1 -> In y l2 -> x < y).
Proof.
  induction l1 as [|a l1 IH]; cbn.
  - intuition.
  - rewrite IH. split.
    + intros [H1 [H2 [H3 H4]]]. repeat split; auto.
      * intros y Hy. apply H1, in_or_app; auto.
      * intros x y [<-|Hx] Hy; auto. apply H1, in_or_app; auto.
    + intros [[H1 H2] [H3 H4]]. repeat split; auto.
      intros y Hy. apply in_app_or in Hy as [Hy|Hy]; auto.
Qed.

Definition qwf (c : qcache) : Prop := asc (qc_keys c).

Lemma qc_keys_app c1 c2 : qc_keys (c1 ++ c2) = qc_keys c1 ++ qc_keys c2.
Proof. apply map_app. Qed.
Lemma qc_view_app c1 c2 : qc_view (c1 ++ c2) = qc_view c1 ++ qc_view c2.
Proof. apply map_app. Qed.
Lemma qc_view_rev c : qc_view (rev c) = rev (qc_view c).
Proof. apply map_rev. Qed.
Lemma qc_keys_rev c : qc_keys (rev c) = rev (qc_keys c).
Proof. apply map_rev. Qed.
Lemma qc_view_length c : length (qc_view c) = length c.
Proof. apply map_length. Qed.
Lemma qc_keys_length c : length (qc_keys c) = length c.
Proof. apply map_length. Qed.

Lemma qwf_nil : qwf [].
Proof. exact I. Qed.

Lemma qwf_app_inv c1 c2 : qwf (c1 ++ c2) -> qwf c1 /\ qwf c2.
Proof. unfold qwf. rewrite qc_keys_app, asc_app. tauto. Qed.

Lemma qwf_mid_lt c1 k v c2 : qwf (c1 ++ (k, v) :: c2) -> forall k', In k' (qc_keys c1) -> k' < k.
Proof.
  unfold qwf. rewrite qc_keys_app, asc_app. cbn. intros [_ [_ H]] k' I. apply H; cbn; auto.
Qed.

Lemma qwf_remove_mid c1 kv c2 : qwf (c1 ++ kv :: c2) -> qwf (c1 ++ c2).
Proof.
  unfold qwf. rewrite !qc_keys_app, !asc_app. cbn. intros [H1 [[H2 H3] H4]]. repeat split; auto.
Qed.

Lemma qwf_replace_mid c1 k v v' c2 : qwf (c1 ++ (k, v) :: c2) -> qwf (c1 ++ (k, v') :: c2).
Proof. unfold qwf. rewrite !qc_keys_app. cbn. auto. Qed.

(* ---- push ---- *)
Lemma qc_push_back_view v c : qc_view (snd (qc_push Back v c)) = qc_view c ++ [v].
Proof. cbn. rewrite qc_view_app. reflexivity. Qed.

Lemma qc_push_front_view v c : qc_view (snd (qc_push Front v c)) = v :: qc_view c.
Proof. reflexivity. Qed.

Lemma qc_push_back_wf v c : qwf c -> qwf (snd (qc_push Back v c)).
Proof.
  intros W. cbn. unfold qwf. rewrite qc_keys_app, asc_app. cbn. repeat split; auto; try tauto.
  intros x y Hx [<-|[]]. unfold qc_max.
  destruct (rev_cases c) as [->|[c' [[k w] ->]]]; [destruct Hx|].
  rewrite rev_app_distr. cbn.
  unfold qwf in W. rewrite qc_keys_app, asc_app in W. cbn in W. destruct W as [_ [_ W]].
  rewrite qc_keys_app in Hx. apply in_app_or in Hx as [Hx|[<-|[]]]; [|cbn; lia].
  assert (x < k) by (apply W; cbn; auto). lia.
Qed.

Lemma qc_push_front_wf v c : qwf c -> qwf (snd (qc_push Front v c)).
Proof.
  intros W. cbn. unfold qwf. cbn. split; auto.
  intros y Hy. destruct c as [|[k w] c]; [destruct Hy|]. cbn in *.
  destruct W as [W _]. destruct Hy as [<-|Hy]; [lia|]. specialize (W y Hy). lia.
Qed.

(* ---- lookup / replace / delete by key, on a cache split around the row ---- *)
Lemma qc_get_mid c1 k v c2 :
  (forall k', In k' (qc_keys c1) -> k' < k) -> qc_get k (c1 ++ (k, v) :: c2) = Some v.
Proof.
  induction c1 as [|[k1 v1] c1 IH]; cbn; intros H.
  - rewrite Z.eqb_refl. reflexivity.
  - assert (k1 < k) by (apply H; auto). replace (k =? k1) with false by zbool. apply IH. auto.
Qed.

Lemma qc_set_mid c1 k v v' c2 :
  (forall k', In k' (qc_keys c1) -> k' < k) -> qc_set k v' (c1 ++ (k, v) :: c2) = c1 ++ (k, v') :: c2.
Proof.
  induction c1 as [|[k1 v1] c1 IH]; cbn; intros H.
  - rewrite Z.eqb_refl. reflexivity.
  - assert (k1 < k) by (apply H; auto). replace (k =? k1) with false by zbool.
    replace (k <? k1) with false by zbool. rewrite IH; auto.
Qed.

Lemma qc_del_mid c1 k v c2 :
  (forall k', In k' (qc_keys c1) -> k' < k) -> qc_del k (c1 ++ (k, v) :: c2) = Some (c1 ++ c2).
Proof.
  induction c1 as [|[k1 v1] c1 IH]; cbn; intros H.
  - rewrite Z.eqb_refl. reflexivity.
  - assert (k1 < k) by (apply H; auto). replace (k =? k1) with false by zbool. rewrite IH; auto.
Qed.

(* ---- iteration: looking every key up again yields the view ---- *)
Definition getd (c : qcache) (k : Z) : val := match qc_get k c with Some v => v | None => 0 end.

Lemma map_getd_suffix c2 : forall c1, qwf (c1 ++ c2) -> map (getd (c1 ++ c2)) (qc_keys c2) = qc_view c2.
Proof.
  induction c2 as [|[k v] c2 IH]; intros c1 W; cbn; [reflexivity|].
  f_equal.
  - unfold getd. rewrite qc_get_mid; auto. eapply qwf_mid_lt; eauto.
  - specialize (IH (c1 ++ [(k, v)])). rewrite <- app_assoc in IH. cbn in IH. apply IH, W.
Qed.

Lemma map_getd c : qwf c -> map (getd c) (qc_keys c) = qc_view c.
Proof. intros W. apply (map_getd_suffix c []). exact W. Qed.

Lemma qc_get_in k c : In k (qc_keys c) -> exists v, qc_get k c = Some v.
Proof.
  induction c as [|[k1 v1] c IH]; cbn; [tauto|]. intros [<-|H].
  - rewrite Z.eqb_refl. eauto.
  - destruct (k =? k1); eauto.
Qed.

Lemma flat_map_lookup c ks :
  (forall k, In k ks -> In k (qc_keys c)) ->
  flat_map (fun key => match qc_get key c with Some v => [v] | None => [] end) ks = map (getd c) ks.
Proof.
  induction ks as [|k ks IH]; cbn; intros H; [reflexivity|].
  destruct (qc_get_in k c) as [v E]; [apply H; auto|]. unfold getd at 1. rewrite E. cbn. f_equal. auto.
Qed.

Lemma lookup_all_fwd c :
  qwf c -> flat_map (fun key => match qc_get key c with Some v => [v] | None => [] end) (qc_keys c) = qc_view c.
Proof. intros W. rewrite flat_map_lookup; auto. apply map_getd, W. Qed.

Lemma lookup_all_bwd c :
  qwf c -> flat_map (fun key => match qc_get key c with Some v => [v] | None => [] end) (rev (qc_keys c))
           = rev (qc_view c).
Proof.
  intros W. rewrite flat_map_lookup.
  - rewrite map_rev, map_getd; auto.
  - intros k H. apply in_rev; auto.
Qed.

(* ---- rotations of lists ---- *)
Definition rotr1 {A} (l : list A) : list A := match rev l with [] => [] | x :: r => x :: rev r end.
Definition rotl1 {A} (l : list A) : list A := match l with [] => [] | x :: r => r ++ [x] end.

Fixpoint iter {A} (n : nat) (f : A -> A) (x : A) : A := match n with O => x | S n' => iter n' f (f x) end.

Lemma rotr1_snoc {A} (l : list A) x : rotr1 (l ++ [x]) = x :: l.
Proof. unfold rotr1. rewrite rev_app_distr. cbn. rewrite rev_involutive. reflexivity. Qed.

Lemma rotr1_length {A} (l : list A) : length (rotr1 l) = length l.
Proof.
  destruct (rev_cases l) as [->|[l' [x ->]]]; [reflexivity|]. rewrite rotr1_snoc, app_length. cbn. lia.
Qed.

Lemma rotl1_length {A} (l : list A) : length (rotl1 l) = length l.
Proof. destruct l; cbn; auto. rewrite app_length. cbn. lia. Qed.

Lemma iter_rotr {A} n : forall (l : list A), (n <= length l)%nat ->
  iter n rotr1 l = drop (length l - n) l ++ take (length l - n) l.
Proof.
  induction n as [|n IH]; intros l H; cbn [iter].
  - rewrite Nat.sub_0_r, drop_all, take_all by lia. reflexivity.
  - destruct (rev_cases l) as [->|[l' [x ->]]]; [cbn in H; lia|].
    rewrite rotr1_snoc. rewrite app_length in *. cbn [length] in *.
    rewrite IH by (cbn; lia). cbn [length].
    replace (S (length l') - n)%nat with (S (length l' - n)) by lia.
    replace (length l' + 1 - S n)%nat with (length l' - n)%nat by lia.
    cbn [drop take]. rewrite drop_app_le, take_app_le by lia. rewrite <- app_assoc. reflexivity.
Qed.

Lemma iter_rotl {A} n : forall (l : list A), (n <= length l)%nat ->
  iter n rotl1 l = drop n l ++ take n l.
Proof.
  induction n as [|n IH]; intros l H; cbn [iter].
  - cbn. rewrite app_nil_r. reflexivity.
  - destruct l as [|x l]; [cbn in H; lia|]. cbn [rotl1 length] in *.
    rewrite IH by (rewrite app_length; cbn; lia).
    rewrite drop_app_le, take_app_le by lia. cbn [drop take]. rewrite <- app_assoc. reflexivity.
Qed.
