(* Bridge lemmas tying the generic machine of model/Conc.v to what _transact says today (gen/Gen_Sql.v),
   and the counterexample for transaction blocks whose inner calls release value files. *)
From DC Require Import DCPrelude Conc Gen_Sql.

(* a call joins an open transaction iff the transaction belongs to the calling thread *)
Lemma bridge_transact_nested tid txn : transact_nested tid txn = true <-> txn = Some tid.
Proof.
  unfold transact_nested. destruct txn as [t|]; [|split; discriminate].
  rewrite Z.eqb_eq. split; [intros ->; reflexivity | intros E; inversion E; reflexivity].
Qed.

Lemma bridge_txn_begin_immediate : txn_begin_immediate = true.
Proof. reflexivity. Qed.

Lemma bridge_transact_failure_removes_file : transact_failure_removes_file = true.
Proof. reflexivity. Qed.

(* ---- a block whose inner call replaces a file-backed value and which then raises ----
   database state = the list of referenced files; the block's body, as the code executes it: the inner
   set's cleanup list is processed when the INNER _transact exits (bo_early), then the block raises. *)
Definition blk : wop (list Z) Z :=
  {| w_store := false; w_retry := false;
     w_body := fun d _ => {| bo_db := d; bo_early := d; bo_cleanup := []; bo_fetch := None; bo_res := 0; bo_ok := false |} |}.

Definition blk_c0 : config (list Z) Z :=
  {| db := [7]; lock := None; files := fun g => if g =? 7 then FDone else FNone; supply := 8;
     cl := fun i => if Nat.eqb i 0 then idle_client [OWrite blk] else idle_client []; commits := [] |}.

Definition blk_final := exec blk_c0 [Step 0; Step 0; Step 0; Step 0; Step 0; Step 0].

Lemma abort_loses_file : db blk_final = [7] /\ files blk_final 7 = FNone /\ lock blk_final = None.
Proof. vm_compute. auto. Qed.
