(* DjangoCache refines the Django cache contract (C19).
   1. bridge lemmas about the generated get_backend_timeout and delegation table (gen/Gen_Django.v);
   2. what each DjangoCache method of the model does, stated without the table (dj_*_eq);
   3. dictionary lemmas; 4. the refinement relation and the per-operation and per-history theorems. *)
From DC Require Import DCPrelude DCPreludeFacts ArgsKeyBase DjangoBase Gen_Django Django DjangoKeyFacts.

(* ------------------------------------------------------------------------------------------------ *)
(* 1. bridge lemmas                                                                                  *)

(* What the refinement needs of the generated get_backend_timeout, and no more: DEFAULT -> the backend
   default; None -> never; a positive number is kept; zero or a negative number becomes SOME relative expiry
   <= 0 (an item whose expire_time <= now is invisible to every lookup, which is all the contract says; the
   source maps 0 to -1 s, ticket 21147, but 0 itself would do). *)
Lemma bridge_gbt dflt t :
  match t with
  | DjDefault => get_backend_timeout dflt t = dflt
  | DjNone => get_backend_timeout dflt t = None
  | DjNum d => exists d', get_backend_timeout dflt t = Some d' /\ (d > 0 -> d' = d) /\ (d <= 0 -> d' <= 0)
  end.
Proof.
  destruct t as [| |d].
  - unfold get_backend_timeout, gbt_assign, dj_of_default. destruct dflt; reflexivity.
  - reflexivity.
  - destruct (Z.eq_dec d 0) as [->|N].
    + eexists. split; [reflexivity | unfold sec; split; intros; lia].
    + assert (E : (d =? 0) = false) by lia.
      unfold get_backend_timeout, gbt_assign. try change (sec 0) with 0. rewrite ?E.
      eexists. split; [reflexivity | split; intros; lia].
Qed.

Lemma bridge_gbt_no_escape dflt t : gbt_sentinel_escapes dflt t = false.
Proof.
  unfold gbt_sentinel_escapes, gbt_assign, dj_of_default. destruct t as [| |d].
  - destruct dflt; reflexivity.
  - reflexivity.
  - change (sec 0) with 0. destruct (d =? 0); reflexivity.
Qed.

(* absolute expiry time given to an item stored at `now` with timeout t *)
Definition expiry (dflt : option Z) (now : Z) (t : dj_timeout) : option Z :=
  abs_exp now (get_backend_timeout dflt t).

Theorem timeout_map dflt now :
  expiry dflt now DjDefault = abs_exp now dflt                               (* the backend default *)
  /\ expiry dflt now DjNone = None                                             (* never *)
  /\ (exists e, expiry dflt now (DjNum 0) = Some e /\ e <= now)                (* already expired *)
  /\ (forall t, t < 0 -> exists e, expiry dflt now (DjNum t) = Some e /\ e <= now)
  /\ (forall t, t > 0 -> expiry dflt now (DjNum t) = Some (now + t)).
Proof.
  unfold expiry. split; [|split; [|split; [|split]]].
  - rewrite (bridge_gbt dflt DjDefault). reflexivity.
  - rewrite (bridge_gbt dflt DjNone). reflexivity.
  - destruct (bridge_gbt dflt (DjNum 0)) as [d' [E [_ L]]]. rewrite E. exists (now + d'). cbn.
    split; [reflexivity | lia].
  - intros t Lt. destruct (bridge_gbt dflt (DjNum t)) as [d' [E [_ L]]]. rewrite E. exists (now + d'). cbn.
    split; [reflexivity | lia].
  - intros t Lt. destruct (bridge_gbt dflt (DjNum t)) as [d' [E [P _]]]. rewrite E, (P Lt). reflexivity.
Qed.

(* The table entries, as far as this property depends on them.  The default of `retry` (d_retry) is left
   open on purpose: with one client it cannot change an answer; it is what C14 reads. *)
Lemma bridge_deleg_add : deleg_add =
  {| d_target := TFan FAdd; d_key := KMade true; d_timeout := TBackend; d_retry := d_retry deleg_add;
     d_bind := [(PKey, AKey); (PValue, AValue); (PExpire, ATimeout); (PRead, ARead); (PTag, ATag); (PRetry, ARetry)];
     d_exc := []; d_returns := true |}.
Proof. reflexivity. Qed.
Lemma bridge_deleg_set : deleg_set =
  {| d_target := TFan FSet; d_key := KMade true; d_timeout := TBackend; d_retry := d_retry deleg_set;
     d_bind := [(PKey, AKey); (PValue, AValue); (PExpire, ATimeout); (PRead, ARead); (PTag, ATag); (PRetry, ARetry)];
     d_exc := []; d_returns := true |}.
Proof. reflexivity. Qed.
Lemma bridge_deleg_get : deleg_get =
  {| d_target := TFan FGet; d_key := KMade true; d_timeout := TNone; d_retry := d_retry deleg_get;
     d_bind := [(PKey, AKey); (PDefault, ADefault); (PRead, ARead); (PExpireTime, AExpireTime); (PTag, ATag); (PRetry, ARetry)];
     d_exc := []; d_returns := true |}.
Proof. reflexivity. Qed.
Lemma bridge_deleg_touch : deleg_touch =
  {| d_target := TFan FTouch; d_key := KMade true; d_timeout := TBackend; d_retry := d_retry deleg_touch;
     d_bind := [(PKey, AKey); (PExpire, ATimeout); (PRetry, ARetry)];
     d_exc := []; d_returns := true |}.
Proof. reflexivity. Qed.
Lemma bridge_deleg_pop : deleg_pop =
  {| d_target := TFan FPop; d_key := KMade true; d_timeout := TNone; d_retry := d_retry deleg_pop;
     d_bind := [(PKey, AKey); (PDefault, ADefault); (PExpireTime, AExpireTime); (PTag, ATag); (PRetry, ARetry)];
     d_exc := []; d_returns := true |}.
Proof. reflexivity. Qed.
Lemma bridge_deleg_delete : deleg_delete =
  {| d_target := TFan FDelete; d_key := KMade true; d_timeout := TNone; d_retry := d_retry deleg_delete;
     d_bind := [(PKey, AKey); (PRetry, ARetry)];
     d_exc := []; d_returns := true |}.
Proof. reflexivity. Qed.
Lemma bridge_deleg_incr : deleg_incr =
  {| d_target := TFan FIncr; d_key := KMade true; d_timeout := TNone; d_retry := d_retry deleg_incr;
     d_bind := [(PKey, AKey); (PDelta, ADelta); (PDefault, ADefault); (PRetry, ARetry)];
     d_exc := [(KeyError, ValueError)]; d_returns := true |}.
Proof. reflexivity. Qed.
Lemma bridge_deleg_decr : deleg_decr =
  {| d_target := TSelf MIncr; d_key := KRaw; d_timeout := TNone; d_retry := d_retry deleg_decr;
     d_bind := [(PKey, AKey); (PDelta, ANegDelta); (PVersion, AVersion); (PDefault, ADefault); (PRetry, ARetry)];
     d_exc := []; d_returns := true |}.
Proof. reflexivity. Qed.
Lemma bridge_deleg_has_key : deleg_has_key =
  {| d_target := TFan FContains; d_key := KMade true; d_timeout := TNone; d_retry := d_retry deleg_has_key;
     d_bind := [(PKey, AKey)];
     d_exc := []; d_returns := true |}.
Proof. reflexivity. Qed.
Lemma bridge_deleg_clear : deleg_clear =
  {| d_target := TFan FClear; d_key := KNone; d_timeout := TNone; d_retry := d_retry deleg_clear;
     d_bind := [];
     d_exc := []; d_returns := true |}.
Proof. reflexivity. Qed.

(* ------------------------------------------------------------------------------------------------ *)
(* 2. the DjangoCache methods of the model without the table                                         *)

Arguments bk_add : simpl never.
Arguments bk_set : simpl never.
Arguments bk_get : simpl never.
Arguments bk_touch : simpl never.
Arguments bk_pop : simpl never.
Arguments bk_delete : simpl never.
Arguments bk_contains : simpl never.
Arguments bk_incr : simpl never.
Arguments bk_clear : simpl never.
Arguments make_key : simpl never.
Arguments get_backend_timeout : simpl never.
Arguments gbt_sentinel_escapes : simpl never.

(* the made key *)
Definition mk (c : cfg) (v : Z) (k : str) : str := make_key (c_prefix c) v k.

Lemma dj_add_eq c bk k v t ver now :
  dj_add c bk k v t ver now = bk_add bk (mk c (ver_of c ver) k) v (get_backend_timeout (c_default c) t) now.
Proof.
  unfold dj_add, dj_call, dj_fan. rewrite bridge_deleg_add. cbn. rewrite bridge_gbt_no_escape.
  unfold bk_add, mk. destruct (blive _ _ _); reflexivity.
Qed.

Lemma dj_set_eq c bk k v t ver now :
  dj_set c bk k v t ver now = bk_set bk (mk c (ver_of c ver) k) v (get_backend_timeout (c_default c) t) now.
Proof.
  unfold dj_set, dj_call, dj_fan. rewrite bridge_deleg_set. cbn. rewrite bridge_gbt_no_escape. reflexivity.
Qed.

Lemma dj_touch_eq c bk k t ver now :
  dj_touch c bk k t ver now = bk_touch bk (mk c (ver_of c ver) k) (get_backend_timeout (c_default c) t) now.
Proof.
  unfold dj_touch, dj_call, dj_fan. rewrite bridge_deleg_touch. cbn. rewrite bridge_gbt_no_escape.
  unfold bk_touch, mk. destruct (blive _ _ _); reflexivity.
Qed.

Lemma dj_get_eq c bk k ver now : dj_get c bk k ver now = bk_get bk (mk c (ver_of c ver) k) now.
Proof.
  unfold dj_get, dj_call, dj_fan. rewrite bridge_deleg_get. cbn.
  unfold bk_get, mk. destruct (blive _ _ _); reflexivity.
Qed.

Lemma dj_pop_eq c bk k ver now : dj_pop c bk k ver now = bk_pop bk (mk c (ver_of c ver) k) now.
Proof.
  unfold dj_pop, dj_call, dj_fan. rewrite bridge_deleg_pop. cbn.
  unfold bk_pop, mk. destruct (blive _ _ _); reflexivity.
Qed.

Lemma dj_delete_eq c bk k ver now : dj_delete c bk k ver now = bk_delete bk (mk c (ver_of c ver) k) now.
Proof.
  unfold dj_delete, dj_call, dj_fan. rewrite bridge_deleg_delete. cbn.
  unfold bk_delete, mk. destruct (blive _ _ _); reflexivity.
Qed.

Lemma dj_has_key_eq c bk k ver now : dj_has_key c bk k ver now = bk_contains bk (mk c (ver_of c ver) k) now.
Proof. unfold dj_has_key, dj_call, dj_fan. rewrite bridge_deleg_has_key. reflexivity. Qed.

Lemma dj_clear_eq c bk now : dj_clear c bk now = ([], RUnit).
Proof. unfold dj_clear, dj_call, dj_fan. rewrite bridge_deleg_clear. reflexivity. Qed.

(* incr: KeyError of FanoutCache.incr becomes ValueError *)
Definition incr_result (bk : bstate) (key : str) (delta now : Z) : bstate * result :=
  match bfind key bk with
  | Some e => if incr_dead now e then (bk, RRaise ValueError)
              else (bupd key (fst e + delta, snd e) bk, RVal (fst e + delta))
  | None => (bk, RRaise ValueError)
  end.

Lemma dj_incr_eq c bk k delta ver now :
  dj_incr c bk k delta ver now = incr_result bk (mk c (ver_of c ver) k) delta now.
Proof.
  unfold dj_incr, dj_call, dj_fan. rewrite bridge_deleg_incr. cbn.
  unfold bk_incr, incr_result, mk. destruct (bfind _ _) as [e|]; [destruct (incr_dead now e)|]; reflexivity.
Qed.

(* decr = incr with -delta *)
Lemma dj_decr_eq c bk k delta ver now :
  dj_decr c bk k delta ver now = incr_result bk (mk c (ver_of c ver) k) (- delta) now.
Proof.
  unfold dj_decr, dj_call. rewrite bridge_deleg_decr. cbn. unfold dj_fan. rewrite bridge_deleg_incr. cbn.
  unfold bk_incr, incr_result, mk. destruct (bfind _ _) as [e|]; [destruct (incr_dead now e)|]; reflexivity.
Qed.

(* ------------------------------------------------------------------------------------------------ *)
(* 3. dictionaries                                                                                   *)

Section DictFacts.
  Context {K : Type} (eqb : K -> K -> bool).
  Hypothesis eqb_spec : forall a b, eqb a b = true <-> a = b.

  Lemma eqb_refl a : eqb a a = true.
  Proof. apply eqb_spec. reflexivity. Qed.

  Lemma eqb_neq a b : a <> b -> eqb a b = false.
  Proof. intros N. destruct (eqb a b) eqn:E; [|reflexivity]. apply eqb_spec in E. contradiction. Qed.

  Lemma find_del_same k d : find eqb k (del eqb k d) = None.
  Proof.
    induction d as [|[k' e] d IH]; cbn; [reflexivity|].
    destruct (eqb k k') eqn:E; cbn; [exact IH|]. rewrite E. exact IH.
  Qed.

  Lemma find_del_other k k' d : k' <> k -> find eqb k' (del eqb k d) = find eqb k' d.
  Proof.
    intros N. induction d as [|[k2 e] d IH]; cbn; [reflexivity|].
    destruct (eqb k k2) eqn:E; cbn.
    - apply eqb_spec in E. subst k2. rewrite (eqb_neq _ _ N). exact IH.
    - destruct (eqb k' k2); [reflexivity | exact IH].
  Qed.

  Lemma find_upd_same k e d : find eqb k (upd eqb k e d) = Some e.
  Proof. unfold upd. cbn. rewrite eqb_refl. reflexivity. Qed.

  Lemma find_upd_other k k' e d : k' <> k -> find eqb k' (upd eqb k e d) = find eqb k' d.
  Proof. intros N. unfold upd. cbn. rewrite (eqb_neq _ _ N). apply find_del_other. exact N. Qed.

  Lemma live_upd_same now k e d : live eqb now k (upd eqb k e d) = if alive now e then Some e else None.
  Proof. unfold live. rewrite find_upd_same. reflexivity. Qed.

  Lemma live_del_same now k d : live eqb now k (del eqb k d) = None.
  Proof. unfold live. rewrite find_del_same. reflexivity. Qed.
End DictFacts.

Definition relive (now : Z) (o : option ent) : option ent :=
  match o with Some e => if alive now e then Some e else None | None => None end.

Lemma live_mono {K} (eqb : K -> K -> bool) f now k d :
  f <= now -> live eqb now k d = relive now (live eqb f k d).
Proof.
  intros L. unfold live, relive. destruct (find eqb k d) as [[x [t|]]|]; cbn; [|reflexivity|reflexivity].
  unfold alive. cbn. destruct (f <? t) eqn:A; cbn; [reflexivity|]. destruct (now <? t) eqn:B; [lia | reflexivity].
Qed.

(* instances *)
Lemma sfind_upd_same vk e d : sfind vk (supd vk e d) = Some e.
Proof. exact (find_upd_same skey_eqb skey_eqb_spec vk e d). Qed.
Lemma sfind_upd_other vk vk' e d : vk' <> vk -> sfind vk' (supd vk e d) = sfind vk' d.
Proof. exact (find_upd_other skey_eqb skey_eqb_spec vk vk' e d). Qed.
Lemma sfind_del_other vk vk' d : vk' <> vk -> sfind vk' (sdel vk d) = sfind vk' d.
Proof. exact (find_del_other skey_eqb skey_eqb_spec vk vk' d). Qed.
Lemma slive_upd_same now vk e d : slive now vk (supd vk e d) = if alive now e then Some e else None.
Proof. exact (live_upd_same skey_eqb skey_eqb_spec now vk e d). Qed.
Lemma slive_del_same now vk d : slive now vk (sdel vk d) = None.
Proof. exact (live_del_same skey_eqb now vk d). Qed.

Lemma bfind_upd_other k k' e d : k' <> k -> bfind k' (bupd k e d) = bfind k' d.
Proof. exact (find_upd_other zlist_eqb zlist_eqb_spec k k' e d). Qed.
Lemma bfind_del_other k k' d : k' <> k -> bfind k' (bdel k d) = bfind k' d.
Proof. exact (find_del_other zlist_eqb zlist_eqb_spec k k' d). Qed.
Lemma blive_upd_same now k e d : blive now k (bupd k e d) = if alive now e then Some e else None.
Proof. exact (live_upd_same zlist_eqb zlist_eqb_spec now k e d). Qed.
Lemma blive_del_same now k d : blive now k (bdel k d) = None.
Proof. exact (live_del_same zlist_eqb now k d). Qed.

(* ------------------------------------------------------------------------------------------------ *)
(* 4. refinement                                                                                     *)

(* Abstraction: what a lookup at time `now` can see under (version, key) in the contract dictionary is
   what it can see under make_key(prefix, version, key) in the backend.  (Entries that are no longer
   live need not correspond: the contract forgets an expired item, the backend keeps the row until it is
   culled or overwritten.) *)
Definition R (c : cfg) (now : Z) (sp : sstate) (bk : bstate) : Prop :=
  forall v k, slive now (v, k) sp = blive now (mk c v k) bk.

Lemma R_empty c now : R c now [] [].
Proof. intros v k. reflexivity. Qed.

(* as time passes the relation is kept *)
Lemma R_mono c f now sp bk : R c f sp bk -> f <= now -> R c now sp bk.
Proof.
  intros H L v k. unfold slive, blive.
  rewrite (live_mono skey_eqb f now), (live_mono zlist_eqb f now) by exact L.
  f_equal. exact (H v k).
Qed.

Definition sframe (vk : skey) (sp sp' : sstate) : Prop := forall vk', vk' <> vk -> sfind vk' sp' = sfind vk' sp.
Definition bframe (key : str) (bk bk' : bstate) : Prop := forall key', key' <> key -> bfind key' bk' = bfind key' bk.

Lemma sframe_refl vk sp : sframe vk sp sp.
Proof. intros vk' _. reflexivity. Qed.
Lemma sframe_upd vk e sp : sframe vk sp (supd vk e sp).
Proof. intros vk' N. apply sfind_upd_other. exact N. Qed.
Lemma sframe_del vk sp : sframe vk sp (sdel vk sp).
Proof. intros vk' N. apply sfind_del_other. exact N. Qed.
Lemma sframe_store vk x l sp : sframe vk sp (store vk x l sp).
Proof. destruct l; cbn [store]; auto using sframe_upd, sframe_del. Qed.
Lemma bframe_refl key bk : bframe key bk bk.
Proof. intros k' _. reflexivity. Qed.
Lemma bframe_upd key e bk : bframe key bk (bupd key e bk).
Proof. intros k' N. apply bfind_upd_other. exact N. Qed.
Lemma bframe_del key bk : bframe key bk (bdel key bk).
Proof. intros k' N. apply bfind_del_other. exact N. Qed.

(* An operation on (v, k) / make_key(prefix, v, k) that leaves every other key alone keeps the relation
   if the two sides agree at that key afterwards.  This is where injectivity of make_key is used. *)
Lemma R_frame c now sp bk sp' bk' v k :
  R c now sp bk -> sframe (v, k) sp sp' -> bframe (mk c v k) bk bk' ->
  slive now (v, k) sp' = blive now (mk c v k) bk' ->
  R c now sp' bk'.
Proof.
  intros H FS FB E v' k'.
  destruct (skey_eqb (v', k') (v, k)) eqn:Q.
  - apply skey_eqb_spec in Q. inversion Q; subst. exact E.
  - assert (N : (v', k') <> (v, k)).
    { intros X. apply skey_eqb_spec in X. congruence. }
    assert (N' : mk c v' k' <> mk c v k).
    { intros X. unfold mk in X. apply make_key_inj in X. destruct X; subst. apply N. reflexivity. }
    unfold slive, blive, live. unfold sframe, sfind in FS. unfold bframe, bfind in FB.
    rewrite (FS _ N), (FB _ N'). exact (H v' k').
Qed.

(* storing: the contract's view of `timeout` and the generated get_backend_timeout agree on what a
   lookup at the same instant sees *)
Lemma store_local dflt now vk key x t sp bk :
  slive now vk (store vk x (spec_ttl dflt now t) sp)
  = blive now key (bupd key (x, abs_exp now (get_backend_timeout dflt t)) bk).
Proof.
  rewrite blive_upd_same.
  (* a relative expiry d' that is d when d > 0 and <= 0 otherwise *)
  assert (A : forall d d', (d > 0 -> d' = d) -> (d <= 0 -> d' <= 0) ->
                           slive now vk (store vk x (after now d) sp)
                           = (if alive now (x, Some (now + d')) then Some (x, Some (now + d')) else None)).
  { intros d d' P N. unfold after. destruct (d <=? 0) eqn:L; cbn [store].
    - rewrite slive_del_same. unfold alive; cbn [snd]. assert (d' <= 0) by (apply N; lia).
      destruct (now <? now + d') eqn:B; [lia | reflexivity].
    - rewrite slive_upd_same. rewrite (P ltac:(lia)). reflexivity. }
  destruct t as [| |d]; cbn [spec_ttl].
  - rewrite (bridge_gbt dflt DjDefault). destruct dflt as [d|]; cbn [store abs_exp].
    + apply A; intros; lia.
    + rewrite slive_upd_same. reflexivity.
  - rewrite (bridge_gbt dflt DjNone). cbn [store abs_exp]. rewrite slive_upd_same. reflexivity.
  - destruct (bridge_gbt dflt (DjNum d)) as [d' [E [P N]]]. rewrite E. cbn [abs_exp]. apply A; assumption.
Qed.

Lemma R_store c now sp bk v k x t :
  R c now sp bk ->
  R c now (store (v, k) x (spec_ttl (c_default c) now t) sp)
          (bupd (mk c v k) (x, abs_exp now (get_backend_timeout (c_default c) t)) bk).
Proof.
  intros H. apply (R_frame c now sp bk _ _ v k H).
  - apply sframe_store.
  - apply bframe_upd.
  - apply store_local.
Qed.

Lemma R_delete c now sp bk v k :
  R c now sp bk -> R c now (sdel (v, k) sp) (fst (bk_delete bk (mk c v k) now)).
Proof.
  intros H. unfold bk_delete. destruct (blive now (mk c v k) bk) as [e|] eqn:L; cbn [fst].
  - apply (R_frame c now sp bk _ _ v k H); [apply sframe_del | apply bframe_del |].
    rewrite slive_del_same, blive_del_same. reflexivity.
  - apply (R_frame c now sp bk _ _ v k H); [apply sframe_del | apply bframe_refl |].
    rewrite slive_del_same, L. reflexivity.
Qed.

Lemma R_del_both c now sp bk v k :
  R c now sp bk -> R c now (sdel (v, k) sp) (bdel (mk c v k) bk).
Proof.
  intros H. apply (R_frame c now sp bk _ _ v k H); [apply sframe_del | apply bframe_del |].
  rewrite slive_del_same, blive_del_same. reflexivity.
Qed.

Lemma R_upd_both c now sp bk v k e :
  R c now sp bk -> R c now (supd (v, k) e sp) (bupd (mk c v k) e bk).
Proof.
  intros H. apply (R_frame c now sp bk _ _ v k H); [apply sframe_upd | apply bframe_upd |].
  rewrite slive_upd_same, blive_upd_same. reflexivity.
Qed.

(* Cache.incr sees exactly what a lookup sees (`expire_time <= now` is the negation of `expire_time > now`) *)
Lemma incr_result_live bk key delta now :
  incr_result bk key delta now =
  match blive now key bk with
  | Some e => (bupd key (fst e + delta, snd e) bk, RVal (fst e + delta))
  | None => (bk, RRaise ValueError)
  end.
Proof.
  unfold incr_result, blive, live, bfind. destruct (find zlist_eqb key bk) as [[x [t|]]|].
  - unfold incr_dead, alive. cbn [snd fst].
    destruct (t <=? now) eqn:A; destruct (now <? t) eqn:B; try reflexivity; lia.
  - reflexivity.
  - reflexivity.
Qed.

Section Step.
  Variables (c : cfg) (now : Z).

  Lemma get_many_refines sp bk ver : R c now sp bk -> forall ks acc,
    dj_get_many c bk ks ver now acc =
    (bk, RMap (rev acc ++ flat_map (fun k => match slive now (ver_of c ver, k) sp with
                                             | Some e => [(k, fst e)] | None => [] end) ks)).
  Proof.
    intros H. induction ks as [|k ks IH]; intros acc; cbn [dj_get_many flat_map].
    - rewrite app_nil_r. reflexivity.
    - rewrite dj_get_eq. unfold bk_get. rewrite <- (H (ver_of c ver) k).
      destruct (slive now (ver_of c ver, k) sp) as [e|].
      + rewrite IH. cbn [rev]. rewrite <- app_assoc. reflexivity.
      + rewrite IH. reflexivity.
  Qed.

  Lemma set_many_refines t ver : forall kvs sp bk, R c now sp bk ->
    snd (dj_set_many c bk kvs t ver now) = RKeys [] /\
    R c now (fold_left (fun s kv => store (ver_of c ver, fst kv) (snd kv) (spec_ttl (c_default c) now t) s) kvs sp)
            (fst (dj_set_many c bk kvs t ver now)).
  Proof.
    induction kvs as [|[k x] kvs IH]; intros sp bk H; cbn [dj_set_many fold_left fst snd].
    - split; [reflexivity | exact H].
    - rewrite dj_set_eq. unfold bk_set. apply IH. apply R_store. exact H.
  Qed.

  Lemma delete_many_refines ver : forall ks sp bk, R c now sp bk ->
    snd (dj_delete_many c bk ks ver now) = RNone /\
    R c now (fold_left (fun s k => sdel (ver_of c ver, k) s) ks sp) (fst (dj_delete_many c bk ks ver now)).
  Proof.
    induction ks as [|k ks IH]; intros sp bk H; cbn [dj_delete_many fold_left fst snd].
    - split; [reflexivity | exact H].
    - rewrite dj_delete_eq. pose proof (R_delete c now sp bk (ver_of c ver) k H) as H'.
      unfold bk_delete in *. destruct (blive now (mk c (ver_of c ver) k) bk); cbn [fst] in H'; apply IH; exact H'.
  Qed.

  Lemma incr_version_refines sp bk k delta ver : R c now sp bk ->
    snd (dj_incr_version c bk k delta ver now)
    = snd (match slive now (ver_of c ver, k) sp with
           | Some e => (sdel (ver_of c ver, k) (store (ver_of c ver + delta, k) (fst e) (spec_ttl (c_default c) now DjDefault) sp),
                        RVal (ver_of c ver + delta))
           | None => (sp, RRaise ValueError) end)
    /\ R c now (fst (match slive now (ver_of c ver, k) sp with
           | Some e => (sdel (ver_of c ver, k) (store (ver_of c ver + delta, k) (fst e) (spec_ttl (c_default c) now DjDefault) sp),
                        RVal (ver_of c ver + delta))
           | None => (sp, RRaise ValueError) end))
         (fst (dj_incr_version c bk k delta ver now)).
  Proof.
    intros H. unfold dj_incr_version. rewrite dj_get_eq. unfold bk_get. cbn [ver_of].
    rewrite <- (H (ver_of c ver) k). destruct (slive now (ver_of c ver, k) sp) as [e|].
    - rewrite dj_set_eq. unfold bk_set. rewrite dj_delete_eq. cbn [ver_of].
      pose proof (R_delete c now _ _ (ver_of c ver) k
                    (R_store c now sp bk (ver_of c ver + delta) k (fst e) DjDefault H)) as H'.
      unfold bk_delete in *.
      destruct (blive now (mk c (ver_of c ver) k) _); cbn [fst snd] in *; split; try reflexivity; exact H'.
    - cbn [fst snd]. split; [reflexivity | exact H].
  Qed.

  (* one call *)
  Theorem step_refines sp bk o :
    R c now sp bk ->
    snd (dj_step c bk o now) = snd (dj_spec c sp o now) /\
    R c now (fst (dj_spec c sp o now)) (fst (dj_step c bk o now)).
  Proof.
    intros H. destruct o as [k x t ver|k ver|k x t ver|k t ver|k ver|k delta ver|k delta ver|k ver|ks ver
                               |kvs t ver|ks ver|k d t ver|k delta ver|k delta ver|k ver|];
      cbn [dj_step dj_spec].
    - (* add *)
      rewrite dj_add_eq. unfold bk_add. rewrite <- (H (ver_of c ver) k).
      destruct (slive now (ver_of c ver, k) sp) as [e|]; cbn [fst snd].
      + split; [reflexivity | exact H].
      + split; [reflexivity | apply R_store; exact H].
    - (* get *)
      rewrite dj_get_eq. unfold bk_get. rewrite <- (H (ver_of c ver) k).
      destruct (slive now (ver_of c ver, k) sp) as [e|]; cbn [fst snd]; split; try reflexivity; exact H.
    - (* set *)
      rewrite dj_set_eq. unfold bk_set. cbn [mask fst snd]. split; [reflexivity | apply R_store; exact H].
    - (* touch *)
      rewrite dj_touch_eq. unfold bk_touch. rewrite <- (H (ver_of c ver) k).
      destruct (slive now (ver_of c ver, k) sp) as [e|]; cbn [fst snd].
      + split; [reflexivity | apply R_store; exact H].
      + split; [reflexivity | exact H].
    - (* delete *)
      rewrite dj_delete_eq. cbn [fst snd]. split; [|apply R_delete; exact H].
      unfold bk_delete. rewrite <- (H (ver_of c ver) k).
      destruct (slive now (ver_of c ver, k) sp); reflexivity.
    - (* incr *)
      rewrite dj_incr_eq. rewrite incr_result_live. rewrite <- (H (ver_of c ver) k).
      destruct (slive now (ver_of c ver, k) sp) as [e|]; cbn [fst snd].
      + split; [reflexivity | apply R_upd_both; exact H].
      + split; [reflexivity | exact H].
    - (* decr *)
      rewrite dj_decr_eq. rewrite incr_result_live. rewrite <- (H (ver_of c ver) k).
      destruct (slive now (ver_of c ver, k) sp) as [e|]; cbn [fst snd].
      + rewrite Z.add_opp_r. split; [reflexivity | apply R_upd_both; exact H].
      + split; [reflexivity | exact H].
    - (* has_key *)
      rewrite dj_has_key_eq. unfold bk_contains. cbn [fst snd]. rewrite <- (H (ver_of c ver) k).
      split; [reflexivity | exact H].
    - (* get_many *)
      rewrite (get_many_refines sp bk ver H). cbn [fst snd rev app]. split; [reflexivity | exact H].
    - (* set_many *)
      cbn [fst snd]. apply set_many_refines. exact H.
    - (* delete_many *)
      cbn [fst snd]. apply delete_many_refines. exact H.
    - (* get_or_set *)
      unfold dj_get_or_set. rewrite dj_get_eq. unfold bk_get. rewrite <- (H (ver_of c ver) k).
      destruct (slive now (ver_of c ver, k) sp) as [e|] eqn:L; cbn [fst snd].
      + split; [reflexivity | exact H].
      + rewrite dj_add_eq. unfold bk_add. rewrite <- (H (ver_of c ver) k), L.
        rewrite dj_get_eq. unfold bk_get. rewrite blive_upd_same.
        split; [|destruct (alive now _); cbn [fst]; apply R_store; exact H].
        destruct (alive now _); reflexivity.
    - (* incr_version *)
      apply incr_version_refines. exact H.
    - (* decr_version *)
      rewrite <- !Z.add_opp_r. apply incr_version_refines. exact H.
    - (* pop *)
      rewrite dj_pop_eq. unfold bk_pop. rewrite <- (H (ver_of c ver) k).
      destruct (slive now (ver_of c ver, k) sp) as [e|]; cbn [fst snd].
      + split; [reflexivity | apply R_del_both; exact H].
      + split; [reflexivity | exact H].
    - (* clear *)
      rewrite dj_clear_eq. cbn [mask fst snd]. split; [reflexivity | apply R_empty].
  Qed.
End Step.

(* every history whose clock does not run backwards: the backend answers every call as the contract does,
   and the final states are related *)
Definition end_time (t0 : Z) (h : list (op * Z)) : Z := fold_left (fun _ p => snd p) h t0.

Theorem run_refines c : forall h t0 sp bk,
  R c t0 sp bk -> clock_ok t0 h = true ->
  snd (run (dj_step c) bk h) = snd (run (dj_spec c) sp h) /\
  R c (end_time t0 h) (fst (run (dj_spec c) sp h)) (fst (run (dj_step c) bk h)).
Proof.
  induction h as [|[o now] h IH]; intros t0 sp bk H CK; cbn [run].
  - split; [reflexivity | exact H].
  - cbn [clock_ok] in CK. apply andb_true_iff in CK. destruct CK as [L CK].
    assert (H' : R c now sp bk) by (apply (R_mono c t0); [exact H | lia]).
    destruct (step_refines c now sp bk o H') as [E HR].
    destruct (dj_step c bk o now) as [bk1 r1]. destruct (dj_spec c sp o now) as [sp1 r1'].
    cbn [fst snd] in *. subst r1'.
    specialize (IH now sp1 bk1 HR CK). unfold end_time in *. cbn [fold_left snd].
    destruct (run (dj_step c) bk1 h) as [bk2 rs]. destruct (run (dj_spec c) sp1 h) as [sp2 rs'].
    cbn [fst snd] in *. destruct IH as [IH1 IH2]. subst rs'. split; [reflexivity | exact IH2].
Qed.

Theorem refines c t0 h :
  clock_ok t0 h = true -> snd (run (dj_step c) [] h) = snd (run (dj_spec c) [] h).
Proof. intros CK. exact (proj1 (run_refines c h t0 [] [] (R_empty c t0) CK)). Qed.

(* witnesses *)
Definition wit_cfg : cfg := {| c_prefix := []; c_version := 1; c_default := Some (sec 300) |}.
Definition wit_key : str := [107].

(* Regression witness of the former finding C19-F1 (D6, fixed): set('k', 5, timeout=5) at t = 0; at t = 5 s
   exactly get sees nothing and incr raises ValueError, one tick earlier it still increments. *)
Example refines_at_expiry_instant :
  let h := [(OSet wit_key 5 (DjNum (sec 5)) None, 0); (OIncr wit_key 1 None, sec 5 - 1);
            (OGet wit_key None, sec 5); (OIncr wit_key 1 None, sec 5); (OIncr wit_key 1 None, sec 5 + 1);
            (OIncrVersion wit_key 1 None, sec 6)] in
  clock_ok 0 h = true /\
  snd (run (dj_step wit_cfg) [] h) = [RUnit; RVal 6; RNone; RRaise ValueError; RRaise ValueError; RRaise ValueError].
Proof. split; vm_compute; reflexivity. Qed.

(* The clock hypothesis is needed: an item stored with timeout 0 is a row with expire_time = now - 1 s in the
   backend and nothing in the contract; a clock that jumps back by more than a second revives the row. *)
Theorem refines_needs_clock :
  exists c h, clock_ok 0 h = false /\ snd (run (dj_step c) [] h) <> snd (run (dj_spec c) [] h).
Proof.
  exists wit_cfg, [(OSet wit_key 5 (DjNum 0) None, sec 10); (OGet wit_key None, 0)].
  split; [reflexivity | vm_compute; discriminate].
Qed.

(* incr/decr on a key that no lookup can see (missing or expired) raise ValueError *)
Lemma incr_missing_raises c now sp bk k delta ver :
  R c now sp bk -> slive now (ver_of c ver, k) sp = None ->
  snd (dj_step c bk (OIncr k delta ver) now) = RRaise ValueError /\
  snd (dj_step c bk (ODecr k delta ver) now) = RRaise ValueError.
Proof.
  intros H L. split.
  - rewrite (proj1 (step_refines c now sp bk _ H)). cbn [dj_spec]. rewrite L. reflexivity.
  - rewrite (proj1 (step_refines c now sp bk _ H)). cbn [dj_spec]. rewrite L. reflexivity.
Qed.

Example incr_missing_raises_nonvacuous :
  R wit_cfg 7 [] [] /\ slive 7 (ver_of wit_cfg None, wit_key) [] = None.
Proof. split; [apply R_empty | reflexivity]. Qed.

(* the relation is not vacuous: the states reached by a history (one entry with a deadline, one without,
   one stored already expired, which the contract forgets and the backend keeps as a dead row) *)
Example R_nonvacuous :
  let h := [(OSet wit_key 5 (DjNum (sec 5)) None, 0); (OSet [97] 1 DjNone (Some 2), 1); (OSet [98] 1 (DjNum 0) None, 2)] in
  R wit_cfg 2 (fst (run (dj_spec wit_cfg) [] h)) (fst (run (dj_step wit_cfg) [] h)) /\
  length (fst (run (dj_step wit_cfg) [] h)) = 3%nat /\ length (fst (run (dj_spec wit_cfg) [] h)) = 2%nat.
Proof.
  intros h. split; [|split; vm_compute; reflexivity].
  refine (proj2 (run_refines wit_cfg h 0 [] [] (R_empty wit_cfg 0) _)); vm_compute; reflexivity.
Qed.

(* Culling (Cache._cull, run inside set/add/incr) deletes rows with expire_time < now.  The model has no
   culling step; this is why that is sound: deleting a row that no lookup can see (expire_time <= now),
   under whatever key, keeps the relation, so no later call of a history whose clock does not run
   backwards can tell the difference. *)
Definition cull_key (now : Z) (key : str) (bk : bstate) : bstate :=
  match bfind key bk with
  | Some e => if alive now e then bk else bdel key bk
  | None => bk
  end.

Lemma cull_unobservable c now sp bk key : R c now sp bk -> R c now sp (cull_key now key bk).
Proof.
  intros H v k. rewrite (H v k). unfold cull_key.
  destruct (bfind key bk) as [e|] eqn:F; [|reflexivity].
  destruct (alive now e) eqn:D; [reflexivity|].
  destruct (zlist_eqb (mk c v k) key) eqn:Q.
  - apply zlist_eqb_spec in Q. rewrite Q. rewrite blive_del_same. unfold blive, live. fold bfind. rewrite F, D.
    reflexivity.
  - assert (N : mk c v k <> key) by (intros X; apply zlist_eqb_spec in X; congruence).
    unfold blive, live. fold bfind. rewrite (bfind_del_other _ _ _ N). reflexivity.
Qed.
