(* default_key_func ('%s:%s:%s' % (prefix, version, key)) is injective in (version, key) (C19). *)
From Coq Require Import DecimalZ.
From DC Require Import DCPrelude DCPreludeFacts ArgsKeyBase DjangoBase Gen_Django Django.

Lemma uint_cp_inj u : forall u', uint_cp u = uint_cp u' -> u = u'.
Proof.
  induction u as [|u IH|u IH|u IH|u IH|u IH|u IH|u IH|u IH|u IH|u IH]; intros [|w|w|w|w|w|w|w|w|w|w];
    cbn [uint_cp]; intros H; try discriminate H; try reflexivity; inversion H as [H1]; f_equal; exact (IH _ H1).
Qed.

(* every printed digit is one of '0'..'9' *)
Lemma uint_cp_range u x : In x (uint_cp u) -> 48 <= x <= 57.
Proof.
  induction u as [|u IH|u IH|u IH|u IH|u IH|u IH|u IH|u IH|u IH|u IH]; cbn [uint_cp In]; intros H;
    try (destruct H as [H|H]; [lia | exact (IH H)]). destruct H.
Qed.

Lemma digits_chars z x : In x (digits z) -> x = 45 \/ 48 <= x <= 57.
Proof.
  unfold digits. destruct (Z.to_int z) as [u|u]; cbn [In]; intros H.
  - right. exact (uint_cp_range _ _ H).
  - destruct H as [H|H]; [left; lia | right; exact (uint_cp_range _ _ H)].
Qed.

Lemma digits_no_colon z : ~ In colon (digits z).
Proof. intros H. apply digits_chars in H. unfold colon in H. lia. Qed.

Lemma digits_inj z z' : digits z = digits z' -> z = z'.
Proof.
  unfold digits. intros H.
  assert (E : Z.to_int z = Z.to_int z').
  { destruct (Z.to_int z) as [u|u], (Z.to_int z') as [w|w].
    - f_equal. exact (uint_cp_inj _ _ H).
    - exfalso. assert (I : In 45 (uint_cp u)) by (rewrite H; left; reflexivity).
      apply uint_cp_range in I. lia.
    - exfalso. assert (I : In 45 (uint_cp w)) by (rewrite <- H; left; reflexivity).
      apply uint_cp_range in I. lia.
    - inversion H as [H1]. f_equal. exact (uint_cp_inj _ _ H1). }
  rewrite <- (DecimalZ.of_to z), <- (DecimalZ.of_to z'), E. reflexivity.
Qed.

(* the first occurrence of a separator splits a string uniquely *)
Lemma split_at_sep (c : Z) (a : list Z) : forall b x y,
  ~ In c a -> ~ In c b -> a ++ c :: x = b ++ c :: y -> a = b /\ x = y.
Proof.
  induction a as [|h a IH]; intros [|g b] x y Na Nb E; cbn in E.
  - inversion E. auto.
  - inversion E; subst. exfalso. apply Nb. left. reflexivity.
  - inversion E; subst. exfalso. apply Na. left. reflexivity.
  - inversion E; subst. destruct (IH b x y) as [-> ->]; auto.
    + intros I. apply Na. right. exact I.
    + intros I. apply Nb. right. exact I.
Qed.

(* Strongest statement for one cache: for a FIXED prefix (any string, colons allowed) and arbitrary keys
   (colons allowed) the made key determines version and key. *)
Theorem make_key_inj prefix v k v' k' :
  make_key prefix v k = make_key prefix v' k' -> v = v' /\ k = k'.
Proof.
  unfold make_key. intros E. apply app_inv_head in E. inversion E as [E1].
  apply split_at_sep in E1; try apply digits_no_colon.
  destruct E1 as [D K]. split; [exact (digits_inj _ _ D) | exact K].
Qed.

(* Across caches: prefixes without ':' are recovered too ... *)
Theorem make_key_inj_prefix p v k p' v' k' :
  ~ In colon p -> ~ In colon p' ->
  make_key p v k = make_key p' v' k' -> p = p' /\ v = v' /\ k = k'.
Proof.
  unfold make_key. intros Np Np' E. apply split_at_sep in E; auto.
  destruct E as [-> E]. split; [reflexivity|].
  apply split_at_sep in E; try apply digits_no_colon.
  destruct E as [D K]. split; [exact (digits_inj _ _ D) | exact K].
Qed.

Example make_key_inj_prefix_nonvacuous :
  ~ In colon [112; 113] /\ make_key [112; 113] 12 [97; 58; 98] = [112; 113; 58; 49; 50; 58; 97; 58; 98].
Proof. split; [cbn; unfold colon; intuition lia | reflexivity]. Qed.

(* ... and a prefix containing ':' can make two caches that share one directory collide:
   'a:1' + version 2 + 'k'  =  'a' + version 1 + '2:k'  =  'a:1:2:k'. *)
Example make_key_colon_prefix_collides :
  make_key [97; 58; 49] 2 [107] = make_key [97] 1 [50; 58; 107].
Proof. reflexivity. Qed.

Lemma skey_eqb_spec a b : skey_eqb a b = true <-> a = b.
Proof.
  destruct a as [v k], b as [v' k']. unfold skey_eqb. cbn [fst snd].
  rewrite andb_true_iff, Z.eqb_eq, zlist_eqb_spec. split; [intros [-> ->]; reflexivity | intros E; inversion E; auto].
Qed.
