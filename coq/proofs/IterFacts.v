(* Iteration (C03, iteration clause): Cache.__iter__ / __reversed__ page through the table by rowid,
   100 rows at a time.  For a table of ANY size the paging loop yields every row exactly once, in
   insertion (rowid) order, resp. the reverse.  Needs only: rowids strictly ascending and positive
   (both part of the state invariant Sinv). *)
From Coq Require Import ZArith List Bool Lia Sorted Permutation.
From DC Require Import DCPrelude DCPreludeFacts Val DiskBase SqlBase Gen_Disk Disk Gen_Sql Cache Refs
  TableFacts TableRows SqlBridge ExpiryFacts SortFacts SqlOrderFacts SinvFacts.

(* ---------------- bridge lemmas ---------------- *)
Lemma bridge_iter_select_asc pos bound n t :
  iter_select_asc pos bound n t =
  sql_limit n (sql_order false [ord_z rowid] (filter (fun r => (pos <? rowid r) && (rowid r <? bound)) t)).
Proof.
  unfold iter_select_asc. do 2 f_equal. apply filter_ext. intros r.
  rewrite truthy_and. unfold tvz_gt, tvz_lt. rewrite !truthy_some, Z.gtb_ltb. reflexivity.
Qed.
Lemma bridge_iter_select_desc lo pos n t :
  iter_select_desc lo pos n t =
  sql_limit n (sql_order true [ord_z rowid] (filter (fun r => (lo <? rowid r) && (rowid r <? pos)) t)).
Proof.
  unfold iter_select_desc. do 2 f_equal. apply filter_ext. intros r.
  rewrite truthy_and. unfold tvz_gt, tvz_lt. rewrite !truthy_some, Z.gtb_ltb. reflexivity.
Qed.
Lemma bridge_iter_page_pos : 0 < iter_page.
Proof. reflexivity. Qed.
Lemma bridge_iter_max t : iter_max t = max_opt (map rowid t).
Proof. reflexivity. Qed.

Definition page_n : nat := Z.to_nat iter_page.
Lemma page_n_pos : (0 < page_n)%nat.
Proof. unfold page_n. pose proof bridge_iter_page_pos. lia. Qed.

(* ---------------- sorted lists ---------------- *)
Lemma asc_last_max l x d : asc l -> In x l -> rowid x <= rowid (last l d).
Proof.
  intros S I. destruct (list_snoc_cases l) as [->|[l' [y ->]]]; [destruct I|].
  rewrite last_snoc. apply in_app_or in I as [I|[<-|[]]]; [|lia].
  apply asc_app_inv in S as [_ [_ L]]. specialize (L x y I (or_introl eq_refl)). lia.
Qed.

Lemma asc_rev_last_min l x d : asc (rev l) -> In x l -> rowid (last l d) <= rowid x.
Proof.
  intros S I. destruct (list_snoc_cases l) as [->|[l' [y ->]]]; [destruct I|].
  rewrite last_snoc. rewrite rev_app_distr in S. cbn in S.
  apply in_app_or in I as [I|[<-|[]]]; [|lia].
  change (y :: rev l') with ([y] ++ rev l') in S. apply asc_app_inv in S as [_ [_ L]].
  specialize (L y x (or_introl eq_refl)). rewrite <- in_rev in L. specialize (L I). lia.
Qed.

Lemma filter_window_asc pos bound done rest :
  (forall x, In x done -> rowid x <= pos) -> (forall x, In x rest -> pos < rowid x) -> (forall x, In x rest -> rowid x < bound) ->
  filter (fun r => (pos <? rowid r) && (rowid r <? bound)) (done ++ rest) = rest.
Proof.
  intros Hd Hr Hb. rewrite filter_app, (filter_none _ done), (filter_all _ rest); [reflexivity| |].
  - intros x I. apply andb_true_iff. split; [apply Z.ltb_lt, Hr, I|apply Z.ltb_lt, Hb, I].
  - intros x I. apply andb_false_iff. left. apply Z.ltb_ge, Hd, I.
Qed.

Lemma filter_window_desc lo pos rest done :
  (forall x, In x done -> pos <= rowid x) -> (forall x, In x rest -> rowid x < pos) -> (forall x, In x rest -> lo < rowid x) ->
  filter (fun r => (lo <? rowid r) && (rowid r <? pos)) (rest ++ done) = rest.
Proof.
  intros Hd Hr Hb. rewrite filter_app, (filter_none _ done), (filter_all _ rest); [apply app_nil_r| |].
  - intros x I. apply andb_true_iff. split; [apply Z.ltb_lt, Hb, I|apply Z.ltb_lt, Hr, I].
  - intros x I. apply andb_false_iff. right. apply Z.ltb_ge, Hd, I.
Qed.

(* ---------------- the paging loop, ascending ---------------- *)
Lemma iter_loop_asc bound fuel : forall done rest pos,
  asc (done ++ rest) ->
  (forall x, In x done -> rowid x <= pos) -> (forall x, In x rest -> pos < rowid x) ->
  (forall x, In x rest -> rowid x < bound) -> (length rest < fuel)%nat ->
  iter_loop fuel true pos bound (done ++ rest) = rest.
Proof.
  induction fuel as [|f IH]; intros done rest pos S Hd Hr Hb Hf; [lia|].
  cbn [iter_loop]. rewrite bridge_iter_select_asc, (filter_window_asc pos bound done rest Hd Hr Hb).
  destruct (asc_app_inv _ _ S) as [_ [Sr _]].
  rewrite (sql_order_rowid_asc rest Sr), sql_limit_take by (pose proof bridge_iter_page_pos; lia). fold page_n.
  destruct rest as [|r0 rest0]; [destruct page_n; reflexivity|].
  set (rest := r0 :: rest0) in *.
  assert (Ne : take page_n rest <> []) by (apply take_nonempty; [apply page_n_pos|discriminate]).
  destruct (take page_n rest) as [|p0 pg0] eqn:Epg; [congruence|]. rewrite <- Epg in *. clear Ne.
  set (pg := take page_n rest) in *.
  assert (Esplit : rest = pg ++ drop page_n rest) by apply take_app_drop.
  assert (Spd : asc (pg ++ drop page_n rest)) by (rewrite <- Esplit; exact Sr).
  destruct (asc_app_inv _ _ Spd) as [Spg [_ Lpd]].
  assert (Ilast : In (last pg dummy_row) pg) by (apply last_in; rewrite Epg; discriminate).
  assert (Ipg : forall x, In x pg -> In x rest) by (intros x I; rewrite Esplit; apply in_or_app; auto).
  assert (Idr : forall x, In x (drop page_n rest) -> In x rest) by (intros x I; rewrite Esplit; apply in_or_app; auto).
  replace (done ++ rest) with ((done ++ pg) ++ drop page_n rest) by (rewrite <- app_assoc, <- Esplit; reflexivity).
  rewrite IH.
  - symmetry. exact Esplit.
  - rewrite <- app_assoc, <- Esplit. exact S.
  - intros x I. apply in_app_or in I as [I|I].
    + specialize (Hd x I). specialize (Hr _ (Ipg _ Ilast)). lia.
    + apply asc_last_max; assumption.
  - intros x I. apply Lpd; assumption.
  - intros x I. apply Hb, Idr, I.
  - rewrite drop_length. pose proof page_n_pos. unfold rest in *. cbn [length] in *. lia.
Qed.

(* ---------------- the paging loop, descending ---------------- *)
Lemma iter_loop_desc bound fuel : forall rest done pos,
  asc (rest ++ done) ->
  (forall x, In x done -> pos <= rowid x) -> (forall x, In x rest -> rowid x < pos) ->
  (forall x, In x rest -> 0 < rowid x) -> (length rest < fuel)%nat ->
  iter_loop fuel false pos bound (rest ++ done) = rev rest.
Proof.
  induction fuel as [|f IH]; intros rest done pos S Hd Hr Hb Hf; [lia|].
  cbn [iter_loop]. rewrite bridge_iter_select_desc, (filter_window_desc 0 pos rest done Hd Hr Hb).
  destruct (asc_app_inv _ _ S) as [Sr _].
  rewrite (sql_order_rowid_desc rest Sr), sql_limit_take by (pose proof bridge_iter_page_pos; lia). fold page_n.
  destruct (list_snoc_cases rest) as [->|[rest0 [rl Erest]]]; [destruct page_n; reflexivity|].
  assert (Nr : rev rest <> []) by (rewrite Erest, rev_app_distr; discriminate).
  assert (Ne : take page_n (rev rest) <> []) by (apply take_nonempty; [apply page_n_pos|exact Nr]).
  destruct (take page_n (rev rest)) as [|p0 pg0] eqn:Epg; [congruence|]. rewrite <- Epg in *. clear Ne.
  set (pg := take page_n (rev rest)) in *. set (dr := drop page_n (rev rest)) in *.
  assert (Esplit : rev rest = pg ++ dr) by apply take_app_drop.
  assert (Erest' : rest = rev dr ++ rev pg) by (rewrite <- rev_app_distr, <- Esplit, rev_involutive; reflexivity).
  assert (Sdp : asc (rev dr ++ rev pg)) by (rewrite <- Erest'; exact Sr).
  destruct (asc_app_inv _ _ Sdp) as [_ [Spg Ldp]].
  assert (Ilast : In (last pg dummy_row) pg) by (apply last_in; rewrite Epg; discriminate).
  assert (Ipg : forall x, In x pg -> In x rest) by (intros x I; rewrite Erest'; apply in_or_app; right; apply in_rev in I; exact I).
  assert (Idr : forall x, In x (rev dr) -> In x rest) by (intros x I; rewrite Erest'; apply in_or_app; auto).
  replace (rest ++ done) with (rev dr ++ (rev pg ++ done)) by (rewrite app_assoc, <- Erest'; reflexivity).
  rewrite IH.
  - rewrite rev_involutive. symmetry. exact Esplit.
  - rewrite app_assoc, <- Erest'. exact S.
  - intros x I. apply in_app_or in I as [I|I].
    + apply asc_rev_last_min; [exact Spg|apply in_rev, I].
    + specialize (Hd x I). specialize (Hr _ (Ipg _ Ilast)). lia.
  - intros x I. apply Ldp; [exact I|apply in_rev in Ilast; exact Ilast].
  - intros x I. apply Hb, Idr, I.
  - rewrite rev_length. unfold dr. rewrite drop_length, rev_length. pose proof page_n_pos.
    rewrite Erest, app_length in *. cbn [length] in *. lia.
Qed.

(* ---------------- Cache.__iter__ / __reversed__ ---------------- *)
Lemma max_opt_none l : max_opt l = None -> l = [].
Proof. destruct l as [|x l]; [reflexivity|]. cbn. destruct (max_opt l); discriminate. Qed.

Theorem iter_all_rows s :
  rowids_ok s -> (forall r, In r (rows s) -> 0 < rowid r) ->
  op_iter s true = (s, RKeys (keys_of (rows s))) /\ op_iter s false = (s, RKeys (rev (keys_of (rows s)))).
Proof.
  intros Srt Pos. unfold op_iter. rewrite bridge_iter_max.
  destruct (max_opt (map rowid (rows s))) as [m|] eqn:M.
  - assert (Le : forall x, In x (rows s) -> rowid x < m + 1).
    { intros x I. pose proof (max_opt_ge (map rowid (rows s)) (rowid x) (in_map rowid _ _ I)) as G. rewrite M in G. lia. }
    split; do 2 f_equal.
    + f_equal. apply (iter_loop_asc (m + 1) (S (length (rows s))) [] (rows s) 0);
        [exact Srt | intros x [] | exact Pos | exact Le | lia].
    + unfold keys_of. rewrite <- map_rev. f_equal.
      rewrite <- (app_nil_r (rows s)) at 2.
      apply (iter_loop_desc (m + 1) (S (length (rows s))) (rows s) [] (m + 1));
        [rewrite app_nil_r; exact Srt | intros x [] | exact Le | exact Pos | lia].
  - apply max_opt_none, map_eq_nil in M. rewrite M. split; reflexivity.
Qed.

(* for every state satisfying the invariant: iteration lists all keys in insertion order, every page,
   any number of rows; and len() is their number *)
Corollary iter_sinv s : Sinv s ->
  snd (op_iter s true) = RKeys (keys_of (rows s)) /\ snd (op_iter s false) = RKeys (rev (keys_of (rows s))) /\
  snd (op_len s) = RInt (Z.of_nat (length (keys_of (rows s)))).
Proof.
  intros [W O]. destruct (iter_all_rows s (w_rowids s W) (w_pos s W)) as [A B]. rewrite A, B. repeat split.
  unfold op_len, keys_of. cbn. rewrite map_length. destruct (w_counters s W) as [C _]. rewrite C. reflexivity.
Qed.

(* the hypothesis on the sign of rowids is needed: the loop starts above rowid 0 *)
Example iter_needs_positive_rowids :
  let r := {| rowid := 0; rkey := SInt 1; rraw := true; store_time := 0; expire_time := None; access_time := 0;
              access_count := 0; rtag := SNull; rsize := 0; rmode := 1; rfile := None; rvalue := SInt 5 |} in
  let s := set_rows init_st [r] 1 0 in
  rowids_ok s /\ snd (op_iter s true) = RKeys [].
Proof. split; [repeat constructor|vm_compute; reflexivity]. Qed.

Print Assumptions iter_all_rows.
Print Assumptions iter_sinv.
