(* Generic facts about the stable insertion sort of DCPrelude (insert_stable / sort_stable), take and rev,
   used by the queue proofs (C10).  Two groups: facts for an arbitrary comparison, and facts for a
   comparison induced by an integer key (ltb_of f a b := f a <? f b), for which the sort is a sorted,
   stable permutation that commutes with filter. *)
From Coq Require Import Sorted Permutation.
From DC Require Import DCPrelude DCPreludeFacts.

(* ------------------------------------------------------------------ list helpers *)
Lemma take_1 {A} (l : list A) : take 1 l = match l with [] => [] | x :: _ => [x] end.
Proof. destruct l; reflexivity. Qed.

Lemma take_nil {A} n : @take A n [] = [].
Proof. destruct n; reflexivity. Qed.

Lemma filter_comm {A} (p q : A -> bool) l : filter p (filter q l) = filter q (filter p l).
Proof.
  induction l as [|x l IH]; cbn; auto.
  destruct (q x) eqn:Q; destruct (p x) eqn:P; cbn; rewrite ?Q, ?P, IH; reflexivity.
Qed.

Lemma filter_rev' {A} (p : A -> bool) l : filter p (rev l) = rev (filter p l).
Proof.
  induction l as [|x l IH]; cbn; auto.
  rewrite filter_app, IH. cbn. destruct (p x); cbn; [reflexivity|apply app_nil_r].
Qed.

Lemma filter_all {A} (p : A -> bool) l : (forall x, In x l -> p x = true) -> filter p l = l.
Proof.
  induction l as [|x l IH]; cbn; intros H; auto.
  rewrite (H x (or_introl eq_refl)), IH; auto.
Qed.

Lemma filter_none {A} (p : A -> bool) l : (forall x, In x l -> p x = false) -> filter p l = [].
Proof.
  induction l as [|x l IH]; cbn; intros H; auto.
  rewrite (H x (or_introl eq_refl)), IH; auto.
Qed.

(* a second filter that keeps everything the first one keeps can be dropped *)
Lemma filter_absorb {A} (q g : A -> bool) l :
  (forall x, In x l -> q x = true -> g x = true) -> filter q (filter g l) = filter q l.
Proof.
  induction l as [|x l IH]; cbn; intros H; auto.
  destruct (g x) eqn:G; cbn.
  - rewrite IH; auto.
  - destruct (q x) eqn:Q; [rewrite (H x (or_introl eq_refl) Q) in G; discriminate|]. apply IH; auto.
Qed.

Lemma filter_length_le {A} (p : A -> bool) l : (length (filter p l) <= length l)%nat.
Proof. induction l as [|x l IH]; cbn; auto. destruct (p x); cbn; lia. Qed.

Lemma map_inj_in {A B} (f : A -> B) l a b :
  NoDup (map f l) -> In a l -> In b l -> f a = f b -> a = b.
Proof.
  induction l as [|x l IH]; cbn; intros N Ha Hb E; [contradiction|].
  inversion N as [|? ? Nx Nl]; subst.
  destruct Ha as [->|Ha]; destruct Hb as [->|Hb]; auto.
  - exfalso. apply Nx. rewrite E. apply in_map; auto.
  - exfalso. apply Nx. rewrite <- E. apply in_map; auto.
Qed.

Lemma NoDup_map_filter {A B} (f : A -> B) (p : A -> bool) l : NoDup (map f l) -> NoDup (map f (filter p l)).
Proof.
  induction l as [|x l IH]; cbn; intros N; auto.
  inversion N as [|? ? Nx Nl]; subst. destruct (p x); cbn; auto.
  constructor; auto. intros H. apply Nx. apply in_map_iff in H as [y [E Hy]].
  apply filter_In in Hy as [Hy _]. rewrite <- E. apply in_map; auto.
Qed.

Lemma NoDup_snoc {A} (l : list A) x : NoDup l -> ~ In x l -> NoDup (l ++ [x]).
Proof. intros N H. eapply Permutation_NoDup; [apply Permutation_cons_append|]. constructor; auto. Qed.

Lemma NoDup_app_disj {A} (l1 l2 : list A) a : NoDup (l1 ++ l2) -> In a l1 -> In a l2 -> False.
Proof.
  induction l1 as [|x l1 IH]; cbn; intros N H1 H2; [contradiction|].
  inversion N as [|? ? Nx Nl]; subst. destruct H1 as [->|H1]; [apply Nx, in_or_app; auto|eauto].
Qed.

Lemma NoDup_app_r {A} (l1 l2 : list A) : NoDup (l1 ++ l2) -> NoDup l2.
Proof. induction l1 as [|x l1 IH]; cbn; intros N; auto. inversion N; subst. auto. Qed.

(* removing, by an injective key, the head of a duplicate-free list *)
Lemma filter_key_head {A} (f : A -> Z) x l :
  NoDup (map f (x :: l)) -> filter (fun y => negb (f y =? f x)) (x :: l) = l.
Proof.
  cbn. intros N. inversion N as [|? ? Nx Nl]; subst. rewrite Z.eqb_refl. cbn.
  apply filter_all. intros y Hy. apply negb_true_iff, Z.eqb_neq. intros E.
  apply Nx. rewrite <- E. apply in_map; auto.
Qed.

(* ------------------------------------------------------------------ any comparison *)
Section AnyLtb.
Context {A : Type}.
Variable ltb : A -> A -> bool.

Lemma sort_stable_nil : sort_stable ltb [] = [].
Proof. reflexivity. Qed.

Lemma sort_stable_snoc l x : sort_stable ltb (l ++ [x]) = insert_stable ltb x (sort_stable ltb l).
Proof. unfold sort_stable. rewrite fold_left_app. reflexivity. Qed.

Lemma insert_stable_last x l : (forall y, In y l -> ltb x y = false) -> insert_stable ltb x l = l ++ [x].
Proof.
  induction l as [|y l IH]; cbn; intros H; auto.
  rewrite (H y (or_introl eq_refl)), IH; auto.
Qed.

Lemma insert_stable_first x l : (forall y, In y l -> ltb x y = true) -> insert_stable ltb x l = x :: l.
Proof. destruct l as [|y l]; cbn; intros H; auto. rewrite (H y (or_introl eq_refl)). reflexivity. Qed.

Lemma insert_stable_perm' x l : Permutation (insert_stable ltb x l) (x :: l).
Proof.
  induction l as [|y l IH]; cbn; auto.
  destruct (ltb x y); auto. rewrite IH. apply perm_swap.
Qed.

Lemma sort_stable_perm l : Permutation (sort_stable ltb l) l.
Proof.
  induction l as [|x l IH] using rev_ind; [reflexivity|].
  rewrite sort_stable_snoc, insert_stable_perm', IH. apply Permutation_cons_append.
Qed.
End AnyLtb.

Lemma insert_stable_ext {A} (l1 l2 : A -> A -> bool) x l :
  (forall y, In y l -> l1 x y = l2 x y) -> insert_stable l1 x l = insert_stable l2 x l.
Proof.
  induction l as [|y l IH]; cbn; intros H; auto.
  rewrite (H y (or_introl eq_refl)), IH; auto.
Qed.

(* the sort only looks at the comparison on elements of the list *)
Lemma sort_stable_ext {A} (l1 l2 : A -> A -> bool) l :
  (forall a b, In a l -> In b l -> l1 a b = l2 a b) -> sort_stable l1 l = sort_stable l2 l.
Proof.
  induction l as [|x l IH] using rev_ind; intros H; [reflexivity|].
  rewrite !sort_stable_snoc, IH.
  - apply insert_stable_ext. intros y Hy. apply sort_stable_in in Hy. apply H; apply in_or_app; cbn; auto.
  - intros a b Ha Hb. apply H; apply in_or_app; auto.
Qed.

Lemma NoDup_map_sort {A B} (f : A -> B) ltb l : NoDup (map f l) -> NoDup (map f (sort_stable ltb l)).
Proof.
  intros N. eapply Permutation_NoDup; [|exact N]. apply Permutation_map, Permutation_sym, sort_stable_perm.
Qed.

(* ------------------------------------------------------------------ comparison by an integer key *)
Section Keyed.
Context {A : Type}.
Variable f : A -> Z.

Definition ltb_of (a b : A) : bool := f a <? f b.
Definition le_of (a b : A) : Prop := f a <= f b.

Lemma insert_stable_sorted x l :
  StronglySorted le_of l -> StronglySorted le_of (insert_stable ltb_of x l).
Proof.
  induction l as [|y l IH]; cbn; intros S.
  - constructor; constructor.
  - inversion S as [|? ? Sl Fy]; subst. unfold ltb_of at 1. destruct (Z.ltb_spec (f x) (f y)) as [L|G].
    + constructor; auto. constructor.
      * unfold le_of; lia.
      * eapply Forall_impl; [|exact Fy]. unfold le_of. intros; lia.
    + constructor; auto. apply Forall_forall. intros z Hz.
      apply insert_stable_perm in Hz as [->|Hz]; [exact G|].
      rewrite Forall_forall in Fy. auto.
Qed.

Lemma sort_stable_sorted l : StronglySorted le_of (sort_stable ltb_of l).
Proof.
  induction l as [|x l IH] using rev_ind; [constructor|].
  rewrite sort_stable_snoc. apply insert_stable_sorted, IH.
Qed.

Lemma filter_sorted q l : StronglySorted le_of l -> StronglySorted le_of (filter q l).
Proof.
  induction l as [|y l IH]; cbn; intros S; auto.
  inversion S as [|? ? Sl Fy]; subst. destruct (q y); auto.
  constructor; auto. rewrite Forall_forall in *. intros z Hz. apply filter_In in Hz as [Hz _]. auto.
Qed.

(* inserting into a sorted list commutes with filtering *)
Lemma filter_insert_stable q x l :
  StronglySorted le_of l ->
  filter q (insert_stable ltb_of x l) = if q x then insert_stable ltb_of x (filter q l) else filter q l.
Proof.
  induction l as [|y l IH]; intros S.
  - cbn. destruct (q x); reflexivity.
  - inversion S as [|? ? Sl Fy]; subst. cbn [insert_stable]. unfold ltb_of at 1.
    destruct (Z.ltb_spec (f x) (f y)) as [L|G].
    + cbn [filter]. destruct (q x) eqn:Qx; auto.
      symmetry. apply insert_stable_first. intros z Hz.
      assert (Hz' : In z (y :: l)).
      { destruct (q y); [|apply filter_In in Hz as [Hz _]; right; exact Hz].
        destruct Hz as [->|Hz]; [left; reflexivity|apply filter_In in Hz as [Hz _]; right; exact Hz]. }
      unfold ltb_of. apply Z.ltb_lt. destruct Hz' as [->|Hz']; [exact L|].
      rewrite Forall_forall in Fy. specialize (Fy z Hz'). unfold le_of in Fy. lia.
    + assert (E : ltb_of x y = false) by (unfold ltb_of; apply Z.ltb_ge; exact G).
      cbn [filter]. rewrite (IH Sl). destruct (q x) eqn:Qx; destruct (q y) eqn:Qy; cbn [insert_stable]; auto.
      rewrite E. reflexivity.
Qed.

(* sorting commutes with filtering: the sorted view of a sub-table is the sub-list of the sorted view *)
Lemma sort_stable_filter q l : sort_stable ltb_of (filter q l) = filter q (sort_stable ltb_of l).
Proof.
  induction l as [|x l IH] using rev_ind; [reflexivity|].
  rewrite filter_app, sort_stable_snoc, filter_insert_stable by apply sort_stable_sorted.
  cbn [filter]. destruct (q x).
  - rewrite sort_stable_snoc, IH. reflexivity.
  - rewrite app_nil_r. exact IH.
Qed.

Lemma sorted_app_le l1 l2 : StronglySorted le_of (l1 ++ l2) -> forall x y, In x l1 -> In y l2 -> f x <= f y.
Proof.
  induction l1 as [|a l1 IH]; cbn; intros S x y Hx Hy; [contradiction|].
  inversion S as [|? ? Sl Fa]; subst. destruct Hx as [->|Hx].
  - rewrite Forall_forall in Fa. apply Fa. apply in_or_app; auto.
  - eapply IH; eauto.
Qed.

(* the last element of a sorted list is a maximum, the first a minimum *)
Lemma sorted_last_max l m t : StronglySorted le_of l -> rev l = m :: t -> forall y, In y l -> f y <= f m.
Proof.
  intros S R y Hy. assert (E : l = rev t ++ [m]) by (rewrite <- (rev_involutive l), R; reflexivity).
  subst l. apply in_app_or in Hy as [Hy|[->|[]]]; [|lia].
  eapply sorted_app_le; eauto. left; reflexivity.
Qed.

Lemma sorted_head_min m t : StronglySorted le_of (m :: t) -> forall y, In y (m :: t) -> f m <= f y.
Proof.
  intros S y [->|Hy]; [lia|]. inversion S as [|? ? _ Fm]; subst. rewrite Forall_forall in Fm. apply Fm; auto.
Qed.
End Keyed.
