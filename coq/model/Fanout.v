(* FanoutCache (fanout.py) as a vector of abstract single caches.  Executable definitions only.

   1. routing: `hash` interprets the generated hash_plan_of (gen/Gen_Disk.v) over the database key that Disk.put
      produces; the shard is the generated index expression of the method (gen/Gen_Fanout.v) applied to it.
      UTF-8 encoding and struct.pack('!d') are codec functions (record hcodec); the harness supplies the real bytes.
   2. the abstract single cache: a dictionary with expiry, the simplest one that can be written from the
      documentation -- an association list in insertion order with at most one item per key class.
   3. the sharded cache: a list of such dictionaries; every FanoutCache method is interpreted from its generated
      delegation record / aggregate descriptor. *)
From Coq Require Import QArith.
From DC Require Import DCPrelude Val DiskBase Gen_Disk Disk FanoutBase Gen_Fanout.
Local Open Scope Z_scope.

(* ------------------------------------------------------------------------------------------------ *)
(* 1. routing *)

Record hcodec := { utf8 : list Z -> list Z; pack_d : fl -> list Z }.

(* Disk.hash on what Disk.put returned *)
Definition hash_key (h : hcodec) (k : sqlval) : Z :=
  match hash_plan_of k, k with
  | HashAdlerBlob, SBlob b => Z.land (adler32 b) hash_mask
  | HashAdlerUtf8, SText s => Z.land (adler32 (utf8 h s)) hash_mask
  | HashIntMod, SInt z => z mod hash_mask
  | HashAdlerDouble, SReal f => Z.land (adler32 (pack_d h f)) hash_mask
  | HashAdlerDouble, SNull => Z.land (adler32 (pack_d h FNaN)) hash_mask      (* released code: a NaN key; put no longer yields NULL *)
  | _, _ => -1                                                                 (* plan does not fit the value: the
                                                                                  Python code would raise *)
  end.

Definition hash_of (h : hcodec) (p : put_res) : option Z :=
  match p with PutOk k _ => Some (hash_key h k) | PutRaise => None end.

(* the shard of a database key, by the index expression of one method *)
Definition shard_of (idx : Z -> Z -> Z) (h : hcodec) (p : put_res) (n : Z) : option Z :=
  option_map (fun x => idx x n) (hash_of h p).

Definition hash (c : codec) (h : hcodec) (key : pyval) : option Z := hash_of h (put c key).
(* `self._hash(key) % self._count` as FanoutCache.set computes it *)
Definition shard (c : codec) (h : hcodec) (key : pyval) (n : Z) : option Z := shard_of idx_set h (put c key) n.

(* shard directory name: '%0<w>d' % num *)
Fixpoint digits_go (fuel : nat) (z : Z) (acc : list Z) : list Z :=
  match fuel with
  | O => acc
  | S f => let acc' := (48 + z mod 10) :: acc in if z <? 10 then acc' else digits_go f (z / 10) acc'
  end.
Definition decimal (z : Z) : list Z := digits_go (S (Z.to_nat z)) z [].
Definition shard_dir (num : Z) : list Z :=
  let d := decimal num in repeat 48 (Z.to_nat shard_dir_width - length d) ++ d.

(* the share of each of the `shards` shards when the caller gave `given` (None: the default total) *)
Definition shard_limit (given : option Z) (shards : Z) : Q :=
  shard_size_limit (match given with Some l => l | None => default_size_limit end) shards.
(* what a shard is handed by FanoutCache.__init__: its share under the generated condition, otherwise nothing (None: the
   shard keeps the limit stored in it).  `shard_exists`: the shard's database file is there before the open. *)
Definition shard_limit_handed (given : option Z) (shard_exists : bool) (shards : Z) : option Q :=
  if shard_limit_passed (is_some given) shard_exists then Some (shard_limit given shards) else None.

(* ------------------------------------------------------------------------------------------------ *)
(* 2. the abstract single cache *)

Record item := { i_key : pyval; i_val : pyval; i_exp : option Z; i_tag : option pyval }.
Definition dict := list item.

Inductive res :=
| RBool (b : bool)
| RVal (v : pyval)
| RDefault            (* the caller's `default` object *)
| RNone               (* Python None *)
| REnoval
| RCount (z : Z)
| RKeys (l : list pyval)
| RKeyError
| RTypeError
| RRaise (e : exn)    (* Timeout / OperationalError propagated to the caller *)
| RIndexError         (* self._shards[index] out of range *)
| RBadCall.           (* the delegation record binds a parameter to something the callee cannot take *)

Section Dict.
  Variable C : Type.
  Variable ceqb : C -> C -> bool.
  Variable cls : pyval -> C.          (* key identity: two keys address one entry iff they have one class *)

  Definition matches (k : pyval) (it : item) : bool := ceqb (cls k) (cls (i_key it)).
  Definition live (now : Z) (it : item) : bool := match i_exp it with None => true | Some t => now <? t end.
  Definition expiry (now : Z) (e : option Z) : option Z := option_map (fun d => now + d) e.
  Definition tagged (tg : pyval) (it : item) : bool := match i_tag it with Some t => pv_same t tg | None => false end.

  (* replace the first item satisfying m by the items f gives ([] deletes it) *)
  Fixpoint alter (m : item -> bool) (f : item -> list item) (d : dict) : dict :=
    match d with [] => [] | x :: r => if m x then f x ++ r else x :: alter m f r end.

  Definition restore (v : pyval) (e : option Z) (tg : option pyval) (it : item) : list item :=
    [{| i_key := i_key it; i_val := v; i_exp := e; i_tag := tg |}].      (* the row keeps its key and position *)
  Definition fresh (k v : pyval) (e : option Z) (tg : option pyval) : item :=
    {| i_key := k; i_val := v; i_exp := e; i_tag := tg |}.

  Definition d_set (k v : pyval) (e : option Z) (tg : option pyval) (now : Z) (d : dict) : dict * res :=
    match find (matches k) d with
    | Some _ => (alter (matches k) (restore v (expiry now e) tg) d, RBool true)
    | None => (d ++ [fresh k v (expiry now e) tg], RBool true)
    end.

  Definition d_add (k v : pyval) (e : option Z) (tg : option pyval) (now : Z) (d : dict) : dict * res :=
    match find (matches k) d with
    | Some it => if live now it then (d, RBool false)
                 else (alter (matches k) (restore v (expiry now e) tg) d, RBool true)
    | None => (d ++ [fresh k v (expiry now e) tg], RBool true)
    end.

  Definition d_lookup (k : pyval) (now : Z) (d : dict) : option item :=
    match find (matches k) d with
    | Some it => if live now it then Some it else None
    | None => None
    end.

  Definition d_touch (k : pyval) (e : option Z) (now : Z) (d : dict) : dict * res :=
    match d_lookup k now d with
    | Some it => (alter (matches k) (restore (i_val it) (expiry now e) (i_tag it)) d, RBool true)
    | None => (d, RBool false)
    end.

  Definition d_incr (k : pyval) (delta : Z) (default : option Z) (now : Z) (d : dict) : dict * res :=
    match find (matches k) d with
    | Some it =>
        if live now it then
          match i_val it with
          | VInt z => (alter (matches k) (restore (VInt (z + delta)) (i_exp it) (i_tag it)) d, RVal (VInt (z + delta)))
          | _ => (d, RTypeError)
          end
        else
          match default with
          | Some dv => (alter (matches k) (restore (VInt (dv + delta)) None None) d, RVal (VInt (dv + delta)))
          | None => (d, RKeyError)
          end
    | None =>
        match default with
        | Some dv => (d ++ [fresh k (VInt (dv + delta)) None None], RVal (VInt (dv + delta)))
        | None => (d, RKeyError)
        end
    end.

  (* get / pop / [] hand back the value or `missing` *)
  Definition d_get (k : pyval) (missing : res) (now : Z) (d : dict) : dict * res :=
    match d_lookup k now d with Some it => (d, RVal (i_val it)) | None => (d, missing) end.
  Definition d_pop (k : pyval) (missing : res) (now : Z) (d : dict) : dict * res :=
    match d_lookup k now d with
    | Some it => (alter (matches k) (fun _ => []) d, RVal (i_val it))
    | None => (d, missing)
    end.
  Definition d_remove (k : pyval) (found missing : res) (now : Z) (d : dict) : dict * res :=
    match d_lookup k now d with
    | Some _ => (alter (matches k) (fun _ => []) d, found)
    | None => (d, missing)
    end.
  Definition d_contains (k : pyval) (now : Z) (d : dict) : dict * res :=
    (d, RBool (is_some (d_lookup k now d))).

  Definition d_len (d : dict) : Z := Z.of_nat (length d).
  Definition d_keys (d : dict) : list pyval := map i_key d.
  (* bulk removals: the surviving items and the number removed *)
  Definition d_clear (d : dict) : dict * Z := ([], d_len d).
  Definition d_expire (now : Z) (d : dict) : dict * Z :=
    (filter (live now) d, d_len (filter (fun it => negb (live now it)) d)).
  Definition d_evict (tg : pyval) (d : dict) : dict * Z :=
    (filter (fun it => negb (tagged tg it)) d, d_len (filter (tagged tg) d)).

  (* ---------------------------------------------------------------------------------------------- *)
  (* 3. the sharded cache *)

  (* the caller's arguments (fields a method does not have are ignored by its record) *)
  Record cargs := {
    a_key : pyval; a_value : pyval; a_expire : option Z; a_tag : option pyval;
    a_delta : Z; a_idefault : option Z;      (* incr/decr: default=None raises KeyError *)
    a_now : Z                                (* what time.time() returns during the call *)
  }.

  (* value of an argument expression *)
  Inductive aval :=
  | XKey (k : pyval) | XVal (v : pyval) | XExp (e : option Z) | XTag (t : option pyval) | XDelta (z : Z)
  | XDef           (* the caller's `default` *)
  | XFlag | XTrue | XFalse | XNone | XEnoval | XNow.

  Definition eval_arg (env : cargs) (a : farg) : aval :=
    match a with
    | AKey => XKey (a_key env) | AValue => XVal (a_value env) | AExpire => XExp (a_expire env)
    | ATag => XTag (a_tag env) | ADelta => XDelta (a_delta env) | ADefault => XDef
    | ARead | ARetry | AExpireTime | AFix | AEnable | AReset => XFlag
    | ATrue => XTrue | AFalse => XFalse | APyNone => XNone | AEnoval => XEnoval | ANowCall => XNow
    end.

  Definition pget (d : fdeleg) (env : cargs) (p : cparam) : option aval :=
    option_map (eval_arg env) (bound p (fd_bind d)).

  (* coercions to what the callee's parameter means; None = cannot be taken *)
  Definition as_key (o : option aval) : option pyval := match o with Some (XKey k) => Some k | _ => None end.
  Definition as_val (o : option aval) : option pyval := match o with Some (XVal v) => Some v | _ => None end.
  Definition as_exp (o : option aval) : option (option Z) :=
    match o with None | Some XNone => Some None | Some (XExp e) => Some e | _ => None end.      (* expire=None *)
  Definition as_tag (o : option aval) : option (option pyval) :=
    match o with None | Some XNone => Some None | Some (XTag t) => Some t | _ => None end.      (* tag=None *)
  Definition as_delta (o : option aval) : option Z :=
    match o with None => Some 1 | Some (XDelta z) => Some z | _ => None end.                    (* delta=1 *)
  Definition as_idefault (env : cargs) (o : option aval) : option (option Z) :=
    match o with None => Some (Some 0) | Some XDef => Some (a_idefault env) | Some XNone => Some None | _ => None end.
  Definition as_missing (o : option aval) : option res :=
    match o with None | Some XNone => Some RNone | Some XDef => Some RDefault | Some XEnoval => Some REnoval | _ => None end.

  (* the Cache method named by the record, run on one shard *)
  Definition call_shard (d : fdeleg) (env : cargs) (s : dict) : dict * res :=
    let g := pget d env in
    let now := a_now env in
    match fd_callee d with
    | CSet =>
        match as_key (g PKey), as_val (g PValue), as_exp (g PExpire), as_tag (g PTag) with
        | Some k, Some v, Some e, Some tg => d_set k v e tg now s
        | _, _, _, _ => (s, RBadCall)
        end
    | CSetItem =>                      (* Cache.__setitem__: self.set(key, value, retry=True) *)
        match as_key (g PKey), as_val (g PValue) with
        | Some k, Some v => let '(s', _) := d_set k v None None now s in (s', RNone)
        | _, _ => (s, RBadCall)
        end
    | CAdd =>
        match as_key (g PKey), as_val (g PValue), as_exp (g PExpire), as_tag (g PTag) with
        | Some k, Some v, Some e, Some tg => d_add k v e tg now s
        | _, _, _, _ => (s, RBadCall)
        end
    | CTouch =>
        match as_key (g PKey), as_exp (g PExpire) with
        | Some k, Some e => d_touch k e now s
        | _, _ => (s, RBadCall)
        end
    | CIncr =>
        match as_key (g PKey), as_delta (g PDelta), as_idefault env (g PDefault) with
        | Some k, Some dl, Some df => d_incr k dl df now s
        | _, _, _ => (s, RBadCall)
        end
    | CDecr =>                         (* Cache.decr: self.incr(key, -delta, default, retry) *)
        match as_key (g PKey), as_delta (g PDelta), as_idefault env (g PDefault) with
        | Some k, Some dl, Some df => d_incr k (- dl) df now s
        | _, _, _ => (s, RBadCall)
        end
    | CGet =>
        match as_key (g PKey), as_missing (g PDefault) with
        | Some k, Some m => d_get k m now s
        | _, _ => (s, RBadCall)
        end
    | CGetItem =>                      (* Cache.__getitem__: get(key, default=ENOVAL, retry=True), ENOVAL -> KeyError *)
        match as_key (g PKey) with Some k => d_get k RKeyError now s | None => (s, RBadCall) end
    | CContains =>
        match as_key (g PKey) with Some k => d_contains k now s | None => (s, RBadCall) end
    | CPop =>
        match as_key (g PKey), as_missing (g PDefault) with
        | Some k, Some m => d_pop k m now s
        | _, _ => (s, RBadCall)
        end
    | CDelete =>                       (* Cache.delete: __delitem__ with KeyError -> False *)
        match as_key (g PKey) with Some k => d_remove k (RBool true) (RBool false) now s | None => (s, RBadCall) end
    | CDelItem =>
        match as_key (g PKey) with Some k => d_remove k RNone RKeyError now s | None => (s, RBadCall) end
    | _ => (s, RBadCall)
    end.

  Fixpoint upd_at (j : nat) (g : dict -> dict) (st : list dict) : list dict :=
    match st, j with
    | [], _ => []
    | s :: r, O => g s :: r
    | s :: r, S j' => s :: upd_at j' g r
    end.

  (* what the delegated call did: ran, or raised e before changing anything (database timeout) *)
  Inductive outcome := Ran | Raised (e : exn).

  Definition on_exc_res (o : option onexc) : res :=
    match o with
    | Some RetFalse => RBool false | Some RetTrue => RBool true | Some RetNone => RNone
    | Some RetZero => RCount 0 | Some RetDefault => RDefault | None => RBadCall
    end.

  (* the result the caller of FanoutCache sees when the delegated call raises e *)
  Definition raised_res (d : fdeleg) (e : exn) : res :=
    if catches e d then on_exc_res (fd_on_exc d) else RRaise e.

  Variable hashf : pyval -> Z.         (* self._hash *)

  (* one key-addressed method: index, shard, delegated call, handler *)
  Definition fan_keyed (d : fdeleg) (n : Z) (env : cargs) (o : outcome) (st : list dict) : list dict * res :=
    let index := fd_index d (hashf (a_key env)) n in
    if (index <? 0) || (Z.of_nat (length st) <=? index) then (st, RIndexError)
    else
      match o with
      | Raised e => (st, raised_res d e)
      | Ran =>
          let j := Z.to_nat index in
          let '(s', r) := call_shard d env (nth j st []) in
          (upd_at j (fun _ => s') st, r)
      end.

  Definition deleg_of (m : fmeth) : option fdeleg :=
    match m with
    | MSet => Some deleg_set | MSetItem => Some deleg_setitem | MTouch => Some deleg_touch | MAdd => Some deleg_add
    | MIncr => Some deleg_incr | MDecr => Some deleg_decr | MGet => Some deleg_get | MGetItem => Some deleg_getitem
    | MContains => Some deleg_contains | MPop => Some deleg_pop | MDelete => Some deleg_delete
    | MDelItem => Some deleg_delitem
    | _ => None
    end.

  (* aggregates *)
  Definition range {A} (r : shard_range) (l : list A) : list A :=
    match r with AllForward => l | AllBackward => rev l end.

  Definition fan_sum (a : agg_sum) (measure : cmeth -> dict -> Z) (st : list dict) : Z :=
    sumZ (map (measure (as_meth a)) (range (as_shards a) st)).

  (* len(shard); volume is a per-shard observation the dictionary does not determine (database pages) *)
  Definition measure (vol : dict -> Z) (m : cmeth) (s : dict) : Z :=
    match m with CLen => d_len s | CVolume => vol s | _ => 0 end.
  Definition fan_len (st : list dict) : Z := fan_sum agg_len (measure (fun _ => 0)) st.
  Definition fan_volume (vol : dict -> Z) (st : list dict) : Z := fan_sum agg_volume (measure vol) st.

  Definition pick {A} (p : proj) (x : A * A) : A := match p with PFst => fst x | PSnd => snd x end.
  (* stats: each shard reports its own (hits, misses) *)
  Definition fan_stats (shard_stats : dict -> Z * Z) (st : list dict) : Z * Z :=
    let results := map shard_stats (range (st_shards agg_stats_t) st) in
    (sumZ (map (pick (st_hits agg_stats_t)) results), sumZ (map (pick (st_misses agg_stats_t)) results)).

  (* check: the warnings of every shard, concatenated *)
  Definition fan_check {W} (shard_check : dict -> list W) (st : list dict) : list W :=
    concat (map shard_check (range (ck_shards agg_check_t) st)).

  (* _remove without timeouts: `for shard in ...: total += method(<args>, retry=retry)`;
     the loop with timeouts is model `remove_attempts` below *)
  Definition remove_visit (f : dict -> dict * Z) (l : list dict) : list dict * Z :=
    fold_left (fun acc s => let '(s', c) := f s in (fst acc ++ [s'], snd acc + c)) l ([], 0).
  Definition fan_remove (f : dict -> dict * Z) (st : list dict) : list dict * Z :=
    let '(l, total) := remove_visit f (range (rm_shards remove_loop) st) in
    (range (rm_shards remove_loop) l, total).

  (* the shard method behind expire/evict/cull/clear; cull's effect on a shard is not determined by the
     dictionary (it depends on volume and policy): parameter *)
  Definition shard_removal (cullf : dict -> dict * Z) (a : agg_remove) (env : cargs) : dict -> dict * Z :=
    match ar_meth a with
    | CExpire => match option_map (eval_arg env) (bound PNow (ar_bind a)) with
                 | Some XNow => d_expire (a_now env)
                 | _ => fun s => (s, 0)
                 end
    | CEvict => match option_map (eval_arg env) (bound PTag (ar_bind a)) with
                | Some (XTag (Some tg)) => d_evict tg
                | _ => fun s => (s, 0)
                end
    | CClear => d_clear
    | CCull => cullf
    | _ => fun s => (s, 0)
    end.

  (* one shard's calls inside _remove: a list of attempts, each (items removed, timed out?); the loop repeats
     while the attempt timed out; what it adds to the total *)
  Fixpoint remove_attempts (l : list (Z * bool)) : Z * bool :=
    match l with
    | [] => (0, false)                                        (* attempts exhausted: still looping *)
    | (c, timed_out) :: r =>
        if timed_out then
          if rm_resumes remove_loop
          then let '(t, fin) := remove_attempts r in
               ((match rm_partial remove_loop with PartialArg0 => c | PartialNothing => 0 end) + t, fin)
          else ((match rm_partial remove_loop with PartialArg0 => c | PartialNothing => 0 end), true)
        else (c, true)
    end.

  Definition each (e : each_dir) (s : dict) : list pyval :=
    match e with EachForward => d_keys s | EachBackward => rev (d_keys s) end.
  Definition fan_iter (a : agg_iter) (st : list dict) : list pyval :=
    concat (map (each (it_each a)) (range (it_shards a) st)).

  (* transact: the shards whose write lock is taken, in order, before the block runs *)
  Definition fan_transact_order (n : nat) : list nat := range (tx_shards agg_transact_t) (seq 0 n).

  (* ---- operations of the sharded cache and of the single dictionary it must be indistinguishable from *)
  Inductive fop :=
  | FKeyed (m : fmeth) (env : cargs)
  | FLen
  | FClear
  | FExpire (now : Z)
  | FEvict (tg : pyval)
  | FIter
  | FReversed.

  Definition env_of_now (now : Z) : cargs :=
    {| a_key := VInt 0; a_value := VInt 0; a_expire := None; a_tag := None; a_delta := 0; a_idefault := None; a_now := now |}.
  Definition env_of_tag (tg : pyval) : cargs :=
    {| a_key := VInt 0; a_value := VInt 0; a_expire := None; a_tag := Some tg; a_delta := 0; a_idefault := None; a_now := 0 |}.

  Definition nocull (s : dict) : dict * Z := (s, 0).

  Definition fan_step (n : Z) (op : fop) (st : list dict) : list dict * res :=
    match op with
    | FKeyed m env => match deleg_of m with Some d => fan_keyed d n env Ran st | None => (st, RBadCall) end
    | FLen => (st, RCount (fan_len st))
    | FClear => let '(st', c) := fan_remove (shard_removal nocull agg_clear (env_of_now 0)) st in (st', RCount c)
    | FExpire now => let '(st', c) := fan_remove (shard_removal nocull agg_expire (env_of_now now)) st in (st', RCount c)
    | FEvict tg => let '(st', c) := fan_remove (shard_removal nocull agg_evict (env_of_tag tg)) st in (st', RCount c)
    | FIter => (st, RKeys (fan_iter agg_iter_t st))
    | FReversed => (st, RKeys (fan_iter agg_reversed_t st))
    end.

  (* the same call on ONE dictionary (written from the documentation of Cache, not from the table) *)
  Definition dict_keyed (m : fmeth) (env : cargs) (d : dict) : dict * res :=
    let k := a_key env in
    let now := a_now env in
    match m with
    | MSet => d_set k (a_value env) (a_expire env) (a_tag env) now d
    | MSetItem => let '(d', _) := d_set k (a_value env) None None now d in (d', RNone)
    | MAdd => d_add k (a_value env) (a_expire env) (a_tag env) now d
    | MTouch => d_touch k (a_expire env) now d
    | MIncr => d_incr k (a_delta env) (a_idefault env) now d
    | MDecr => d_incr k (- a_delta env) (a_idefault env) now d
    | MGet => d_get k RDefault now d
    | MGetItem => d_get k RKeyError now d
    | MContains => d_contains k now d
    | MPop => d_pop k RDefault now d
    | MDelete => d_remove k (RBool true) (RBool false) now d
    | MDelItem => d_remove k RNone RKeyError now d
    | _ => (d, RBadCall)
    end.

  Definition dict_step (op : fop) (d : dict) : dict * res :=
    match op with
    | FKeyed m env => dict_keyed m env d
    | FLen => (d, RCount (d_len d))
    | FClear => let '(d', c) := d_clear d in (d', RCount c)
    | FExpire now => let '(d', c) := d_expire now d in (d', RCount c)
    | FEvict tg => let '(d', c) := d_evict tg d in (d', RCount c)
    | FIter => (d, RKeys (d_keys d))
    | FReversed => (d, RKeys (rev (d_keys d)))
    end.

  Fixpoint fan_run (n : Z) (ops : list fop) (st : list dict) : list dict * list res :=
    match ops with
    | [] => (st, [])
    | op :: r => let '(st', x) := fan_step n op st in let '(st'', xs) := fan_run n r st' in (st'', x :: xs)
    end.

  Fixpoint dict_run (ops : list fop) (d : dict) : dict * list res :=
    match ops with
    | [] => (d, [])
    | op :: r => let '(d', x) := dict_step op d in let '(d'', xs) := dict_run r d' in (d'', x :: xs)
    end.

  (* the shard an item lives in, and the sharded state that holds exactly the items of d *)
  Definition route (n : Z) (it : item) : nat := Z.to_nat (hashf (i_key it) mod n).
  Definition split (n : Z) (d : dict) : list dict :=
    map (fun i => filter (fun it => Nat.eqb (route n it) i) d) (seq 0 (Z.to_nat n)).
  (* the abstraction: all items of all shards *)
  Definition merge (st : list dict) : dict := concat st.

  Definition op_key (op : fop) : option pyval :=
    match op with FKeyed _ env => Some (a_key env) | _ => None end.
End Dict.

