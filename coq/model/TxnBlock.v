(* Transaction blocks over the real transaction bodies (model/Txn.v, model/TxnQueue.v).
   `with cache.transact(): call_1; ...; call_n` is ONE writing call of the machine of model/Conc.v: BEGIN when the
   block is entered, then the bodies of the inner calls applied one after the other to the working copy, then COMMIT --
   or ROLLBACK when the block raises.  The files the inner calls release (the old file of a replaced or deleted value,
   the file of a popped value after it has been read) are handed to the block's transaction and removed after ITS
   commit (Gen_Sql.transact_defers_removals, read off _transact / _remove_after_transaction): they are the block's
   `bo_cleanup`; nothing is removed while the transaction is open (`bo_early = []`) and nothing at all when the block
   is rolled back.  (Before the repair recorded in known_findings.txt under C06-F1 the inner calls removed these
   files when THEY returned; proofs/TxnBlockFacts.v keeps that body as `body_block_early` and replays the old defect
   on it.)
   An inner call that raises (KeyError of __delitem__, incr without default) leaves the working copy as it was and
   the block goes on (the program caught the exception), exactly like `raise_out`.
   Outside this instance: inner calls that store a NEW value file (the file would be created inside the open
   transaction; the machine creates files only before BEGIN).  Executable definitions only. *)
From DC Require Import DCPrelude Val DiskBase SqlBase Gen_Disk Disk Gen_Sql Cache Conc Txn.

(* working copy after the inner calls, the files they released (in order), the result of the last inner call *)
Fixpoint block_fold (ws : list cwop) (d : st) (last : result) : st * list Z * result :=
  match ws with
  | [] => (d, [], last)
  | w :: r =>
      let o := w_body w d None in
      let '(d', e, res) := block_fold r (bo_db o) (bo_res o) in
      (d', bo_cleanup o ++ ofile (bo_fetch o) ++ e, res)
  end.

(* raises: the block's body raises after its last inner call (the exception leaves the outermost block) *)
Definition body_block (ws : list cwop) (raises : bool) (d : st) (f : option Z) : bout :=
  let '(d', e, res) := block_fold ws d (RBool true) in
  {| bo_db := d'; bo_early := []; bo_cleanup := e; bo_fetch := None; bo_res := res; bo_ok := negb raises |}.

(* what the code did before the repair: every inner call removed the files it released when it returned *)
Definition body_block_early (ws : list cwop) (raises : bool) (d : st) (f : option Z) : bout :=
  let '(d', e, res) := block_fold ws d (RBool true) in
  {| bo_db := d'; bo_early := e; bo_cleanup := []; bo_fetch := None; bo_res := res; bo_ok := negb raises |}.
Definition w_block_early (retry : bool) (ws : list cwop) (raises : bool) : cwop :=
  {| w_store := false; w_retry := retry; w_body := body_block_early ws raises |}.

Definition w_block (retry : bool) (ws : list cwop) (raises : bool) : cwop :=
  {| w_store := false; w_retry := retry; w_body := body_block ws raises |}.

(* the inner calls of a block must not store a value file of their own *)
Definition inline_ops (ws : list cwop) : bool := forallb (fun w => negb (w_store w)) ws.
