(* What the other clients, and a process that opens the directory after a kill, can find while a FanoutCache transaction block ends.
   FanoutCache.transact (fanout.py, read off by tools/emit_fanout.py: Gen_Fanout.agg_transact_t) enters shard.transact(retry=True) for
   every shard in `fan_transact_order` inside ONE contextlib.ExitStack and yields; when the block is left the stack unwinds last-in
   first-out, so the shard transactions COMMIT (or all ROLL BACK) one after the other in the reverse order.  Each shard transaction is
   atomic and isolated by itself (the machine of model/Conc.v, theorems of props/C06.v); there is no commit across the shard databases.
   `k` = number of shard COMMITs that have executed (k = 0: none, k = number of shards: all).  Executable definitions only. *)
From DC Require Import DCPrelude FanoutBase Gen_Fanout Fanout.

Definition fan_commit_order (n : nat) : list nat := rev (fan_transact_order n).

Section Block.
  Variable S : Type.                       (* the committed state of one shard *)
  Variable eqb : S -> S -> bool.

  Definition committed (order : list nat) (k i : nat) : bool := existsb (Nat.eqb i) (firstn k order).

  (* shard i as everybody else sees it after k shard COMMITs: `old` before the block, `new` what the block wrote *)
  Definition shard_view (order : list nat) (k : nat) (old new : nat -> S) (i : nat) : S :=
    if committed order k i then new i else old i.

  (* the whole cache over shards 0 .. n-1 *)
  Definition cache_view (n : nat) (k : nat) (old new : nat -> S) : list S :=
    map (shard_view (fan_commit_order n) k old new) (seq 0 n).
  Definition all_of (n : nat) (f : nat -> S) : list S := map f (seq 0 n).

  Fixpoint list_eqb (a b : list S) : bool :=
    match a, b with
    | [], [] => true
    | x :: a', y :: b' => eqb x y && list_eqb a' b'
    | _, _ => false
    end.

  (* the view is the state before the block or the state after it *)
  Definition all_or_nothing (n k : nat) (old new : nat -> S) : bool :=
    list_eqb (cache_view n k old new) (all_of n old) || list_eqb (cache_view n k old new) (all_of n new).

  (* number of shards the block changes *)
  Definition changed (n : nat) (old new : nat -> S) : list nat := filter (fun i => negb (eqb (old i) (new i))) (seq 0 n).
End Block.
