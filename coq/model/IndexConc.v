(* Micro-step machine for "a lock-free lookup overlapping replacements of the value" (C12, concurrent
   clause).  One key.  Executable definitions only.

   reader  (Index.__getitem__ -> Cache.get fast path):  SELECT the row;  open the file named by the row;  when the
                                                        file is gone SELECT again, unless the SAME file was already
                                                        missing the time before (then: KeyError)
           (`again = false` is the reader the code had before that repair: SELECT; open; a missing file -> KeyError)
   writer  (Index.__setitem__ -> Cache.set):            write the new file;  BEGIN IMMEDIATE;  UPDATE the row
                                                        (new file name);  COMMIT;  remove the old file
   Inline values travel in the row itself: the reader needs no second step, the writer writes/removes no file.
   SQLite: one writer between BEGIN and COMMIT; a reader sees the last committed row.
   Writer number i names its file i; the initial file is -1 (file names are never reused). *)
From DC Require Import DCPrelude Gen_Sql.

Inductive vrep := Inline (v : Z) | InFile (name : Z).

Inductive rpc :=
| RStart
| RSelected (name : Z) (missing : option Z)   (* the SELECT returned a row naming this file; missing = the file the
                                                 open before could not find *)
| RAgain (missing : Z)                        (* the open failed: SELECT again *)
| RDone (result : option Z).                  (* Some v = value returned, None = KeyError *)

Inductive wpc :=
| WStart
| WStored                        (* Disk.store done *)
| WLocked                        (* BEGIN IMMEDIATE succeeded *)
| WUpdated (old : option vrep)   (* SELECT + UPDATE done inside the transaction; old row kept for cleanup *)
| WCommitted (old : option vrep) (* COMMIT done *)
| WDone.                         (* old file removed *)

Record writer := { w_val : Z; w_file : bool; w_pc : wpc }.

Record cfg := {
  committed : option vrep;        (* the row as every reader sees it; None = key absent *)
  lock : option nat;              (* writer holding the write lock *)
  files : list (Z * Z);           (* file name -> content *)
  reader : rpc;
  writers : list writer;
  removed_during_lookup : bool    (* ghost: a file was removed while the reader sat between its two steps *)
}.

Definition new_rep (i : nat) (w : writer) : vrep :=
  if w_file w then InFile (Z.of_nat i) else Inline (w_val w).

Fixpoint file_get (n : Z) (fs : list (Z * Z)) : option Z :=
  match fs with [] => None | (m, v) :: r => if n =? m then Some v else file_get n r end.

Definition file_remove (n : Z) (fs : list (Z * Z)) : list (Z * Z) :=
  filter (fun p => negb (fst p =? n)) fs.

Fixpoint upd {A} (i : nat) (x : A) (l : list A) : list A :=
  match l, i with
  | [], _ => []
  | _ :: r, O => x :: r
  | y :: r, S i' => y :: upd i' x r
  end.

Definition set_pc (w : writer) (p : wpc) : writer := {| w_val := w_val w; w_file := w_file w; w_pc := p |}.

Definition with_reader (c : cfg) (r : rpc) (removed : bool) : cfg :=
  {| committed := committed c; lock := lock c; files := files c; reader := r; writers := writers c;
     removed_during_lookup := removed |}.

(* the SELECT of the lookup: the committed row *)
Definition reader_select (c : cfg) (missing : option Z) : cfg :=
  match committed c with
  | None => with_reader c (RDone None) false
  | Some (Inline v) => with_reader c (RDone (Some v)) false
  | Some (InFile n) => with_reader c (RSelected n missing) false
  end.

Definition same_missing (missing : option Z) (n : Z) : bool :=
  match missing with Some m => m =? n | None => false end.

(* again: the reader looks the row up again when the file is gone (the code as it is); false: the reader before the repair *)
Definition reader_step (again : bool) (c : cfg) : cfg :=
  match reader c with
  | RStart => reader_select c None
  | RSelected n missing =>
      match file_get n (files c) with
      | Some v => with_reader c (RDone (Some v)) (removed_during_lookup c)
      | None => if again && negb (same_missing missing n)
                then with_reader c (RAgain n) (removed_during_lookup c)
                else with_reader c (RDone None) (removed_during_lookup c)
      end
  | RAgain m => reader_select c (Some m)
  | RDone _ => c
  end.

Definition is_selected (r : rpc) : bool := match r with RSelected _ _ => true | _ => false end.

Definition writer_step (i : nat) (c : cfg) : cfg :=
  match nth_error (writers c) i with
  | None => c
  | Some w =>
      match w_pc w with
      | WStart =>
          {| committed := committed c; lock := lock c;
             files := if w_file w then (Z.of_nat i, w_val w) :: files c else files c;
             reader := reader c; writers := upd i (set_pc w WStored) (writers c);
             removed_during_lookup := removed_during_lookup c |}
      | WStored =>
          match lock c with
          | Some _ => c                                   (* BEGIN fails (timeout 0); retried later *)
          | None => {| committed := committed c; lock := Some i; files := files c; reader := reader c;
                       writers := upd i (set_pc w WLocked) (writers c);
                       removed_during_lookup := removed_during_lookup c |}
          end
      | WLocked =>
          {| committed := committed c; lock := lock c; files := files c; reader := reader c;
             writers := upd i (set_pc w (WUpdated (committed c))) (writers c);
             removed_during_lookup := removed_during_lookup c |}
      | WUpdated old =>
          {| committed := Some (new_rep i w); lock := None; files := files c; reader := reader c;
             writers := upd i (set_pc w (WCommitted old)) (writers c);
             removed_during_lookup := removed_during_lookup c |}
      | WCommitted old =>
          match old with
          | Some (InFile n) =>
              {| committed := committed c; lock := lock c; files := file_remove n (files c); reader := reader c;
                 writers := upd i (set_pc w WDone) (writers c);
                 removed_during_lookup := removed_during_lookup c || is_selected (reader c) |}
          | _ => {| committed := committed c; lock := lock c; files := files c; reader := reader c;
                    writers := upd i (set_pc w WDone) (writers c);
                    removed_during_lookup := removed_during_lookup c |}
          end
      | WDone => c
      end
  end.

(* client 0 is the reader, client S i is writer i *)
Definition step (again : bool) (c : cfg) (cid : nat) : cfg :=
  match cid with O => reader_step again c | S i => writer_step i c end.

Definition run (again : bool) (c : cfg) (sched : list nat) : cfg := fold_left (step again) sched c.

(* every configuration passed through, the first included *)
Fixpoint trace (again : bool) (c : cfg) (sched : list nat) : list cfg :=
  match sched with [] => [c] | cid :: r => c :: trace again (step again c cid) r end.

Definition present (c : cfg) : bool := is_some (committed c).

(* initial configurations: the key is present (inline value v0, or file -1 holding v0), nobody has started *)
Definition init (file0 : bool) (v0 : Z) (ws : list (Z * bool)) : cfg :=
  {| committed := Some (if file0 then InFile (-1) else Inline v0);
     lock := None;
     files := if file0 then [(-1, v0)] else [];
     reader := RStart;
     writers := map (fun p => {| w_val := fst p; w_file := snd p; w_pc := WStart |}) ws;
     removed_during_lookup := false |}.

(* None: the lookup has not returned yet; Some None: it raised KeyError ("absent"); Some (Some v): it returned v *)
Definition lookup_result (c : cfg) : option (option Z) :=
  match reader c with RDone r => Some r | _ => None end.

(* the reader of the code as it is (tools/emit_sql.py pins the loop of Cache.get; Gen_Sql.get_retries_after_missing_file)
   and the reader of the code before the repair *)
Definition repaired : bool := get_retries_after_missing_file.
Definition old_reader : bool := false.
