(* Cache._sql_retry (core.py): the statement-level retry used by Cache.__init__ and reset outside transactions.
   Executable definitions only.  The attempts and the clock are oracles: `out i` is what the i-th execution of the
   statement does, `clk i` the reading of time.time() after the i-th failure (microseconds); `start` is the reading
   taken before the first attempt.  The give-up test, the pause and the message are the generated ones. *)
From DC Require Import DCPrelude Gen_Retry.

Inductive attempt :=
| AOk                       (* the statement returns its cursor *)
| AOpErr (msg : list Z)     (* sqlite3.OperationalError(msg) *)
| AOther.                   (* any other exception *)

Inductive retry_result :=
| Returned (i : nat)        (* result of attempt i handed back *)
| Reraised (i : nat)        (* the exception of attempt i propagates although the time limit has not passed *)
| GaveUp (i : nat)          (* 'database is locked' of attempt i propagates because the time limit has passed *)
| OutOfFuel.

Definition is_locked (a : attempt) : bool :=
  match a with
  | AOpErr m => if list_eq_dec Z.eq_dec m retry_locked_msg then true else false
  | _ => false
  end.

Fixpoint retry_from (out : nat -> attempt) (clk : nat -> Z) (start : Z) (fuel i : nat) : retry_result :=
  match fuel with
  | O => OutOfFuel
  | S fuel' =>
    match out i with
    | AOk => Returned i
    | a => if is_locked a
           then if retry_gives_up (clk i - start) then GaveUp i
                else retry_from out clk start fuel' (S i)
           else Reraised i
    end
  end.

Definition sql_retry (out : nat -> attempt) (clk : nat -> Z) (start : Z) (fuel : nat) : retry_result :=
  retry_from out clk start fuel O.

(* number of attempts after which the loop has certainly ended when every pause lasts at least retry_sleep_us *)
Definition retry_attempt_bound : Z := retry_limit_us / retry_sleep_us + 2.

(* scripted oracles for the correspondence run *)
Definition script_out (l : list attempt) (i : nat) : attempt := nth i l AOther.
Definition script_clk (l : list Z) (i : nat) : Z := nth i l 0.

Definition retry_result_eqb (a b : retry_result) : bool :=
  match a, b with
  | Returned i, Returned j | Reraised i, Reraised j | GaveUp i, GaveUp j => Nat.eqb i j
  | OutOfFuel, OutOfFuel => true
  | _, _ => false
  end.
