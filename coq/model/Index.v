(* Index (persistent.py) over the abstract insertion-ordered cache, and the collections.OrderedDict
   specification.  Executable definitions only.  The model is structured like the Python and CALLS the
   definitions of Gen_Persistent.v; proofs/PersistentBridge.v pins those down.
   Keys and values are integers standing for Python objects (equal objects, equal ids): the model covers
   keys on which the cache's key identity coincides with Python equality. *)
From DC Require Import DCPrelude PersistentBase Gen_Persistent QCache.

Definition items := list (Z * val).

Inductive ix_op :=
| ISet (k : Z) (v : val) | IGet (k : Z) | IDel (k : Z)
| IPop (k : Z) | IPopDefault (k : Z) (dflt : val)
| IPopItem (last : bool) | IPeekItem (last : bool)
| ISetDefault (k : Z) (dflt : val)
| IUpdate (l : items)
| IKeys | IValues | IItems
| IEq (kind : mapkind) (other : items) | INe (kind : mapkind) (other : items)
| IIter | IReversed | IClear | ILen
| IGetDefault (k : Z) (dflt : val) | IContains (k : Z).

(* ================================================================================================ *)
(* Specification: an insertion-ordered dictionary as a list of (key, value) with distinct keys       *)

Definition od_mem (k : Z) (l : items) : bool := existsb (fun kv => fst kv =? k) l.
Definition od_find (k : Z) (l : items) : option val :=
  match find (fun kv => fst kv =? k) l with Some kv => Some (snd kv) | None => None end.

(* assignment: an existing key keeps its position, a new key goes last *)
Definition od_set (k : Z) (v : val) (l : items) : items :=
  if od_mem k l then map (fun kv => if fst kv =? k then (k, v) else kv) l else l ++ [(k, v)].

Definition od_remove (k : Z) (l : items) : items := filter (fun kv => negb (fst kv =? k)) l.

Definition subset (a b : items) : bool := forallb (fun kv => existsb (pair_eqb kv) b) a.

(* == against an ordered mapping: same items in the same order; against a plain dict: same set of items *)
Definition od_eq (kind : mapkind) (l other : items) : bool :=
  match kind with
  | MK_dict => subset l other && subset other l
  | _ => list_eqb pair_eqb l other
  end.

Definition od_step (l : items) (o : ix_op) : items * res :=
  match o with
  | ISet k v => (od_set k v l, RNone)
  | IGet k => (l, match od_find k l with Some v => RVal v | None => RRaise KeyError end)
  | IDel k => if od_mem k l then (od_remove k l, RNone) else (l, RRaise KeyError)
  | IPop k => match od_find k l with Some v => (od_remove k l, RVal v) | None => (l, RRaise KeyError) end
  | IPopDefault k d => match od_find k l with Some v => (od_remove k l, RVal v) | None => (l, RVal d) end
  | IPopItem true => match rev l with [] => (l, RRaise KeyError) | (k, v) :: r => (rev r, RPair k v) end
  | IPopItem false => match l with [] => (l, RRaise KeyError) | (k, v) :: r => (r, RPair k v) end
  | IPeekItem true => (l, match rev l with [] => RRaise KeyError | (k, v) :: _ => RPair k v end)
  | IPeekItem false => (l, match l with [] => RRaise KeyError | (k, v) :: _ => RPair k v end)
  | ISetDefault k d => match od_find k l with Some v => (l, RVal v) | None => (l ++ [(k, d)], RVal d) end
  | IUpdate ps => (fold_left (fun acc kv => od_set (fst kv) (snd kv) acc) ps l, RNone)
  | IKeys | IIter => (l, RList (map fst l))
  | IValues => (l, RList (map snd l))
  | IItems => (l, RPairs l)
  | IEq kind other => (l, RBool (od_eq kind l other))
  | INe kind other => (l, RBool (negb (od_eq kind l other)))
  | IReversed => (l, RList (rev (map fst l)))
  | IClear => ([], RNone)
  | ILen => (l, RInt (Z.of_nat (length l)))
  | IGetDefault k d => (l, RVal (match od_find k l with Some v => v | None => d end))
  | IContains k => (l, RBool (od_mem k l))
  end.

(* ================================================================================================ *)
(* Model                                                                                             *)

(* ---- interpretation of the delegated calls ---- *)

Definition i_exec_pop (call : qcall) (k : Z) (default : comp) (c : icache) : comp * icache :=
  match qc_meth call with
  | CM_pop => match ic_pop k c with Some (v, c') => (CVal v, c') | None => (default, c) end
  | _ => (default, c)
  end.

Definition i_exec_add (call : qcall) (k : Z) (v : val) (c : icache) : icache :=
  match qc_meth call with CM_add => snd (ic_add k v c) | _ => c end.

Definition i_exec_peekitem (call : qcall) (last : bool) (c : icache) : option (Z * val) :=
  match qc_meth call with CM_peekitem => ic_peekitem last c | _ => None end.

Definition i_exec_clear (call : qcall) (c : icache) : icache :=
  match qc_meth call with CM_clear => ic_clear c | _ => c end.

(* ---- the methods ---- *)

(* self._cache[key] *)
Definition ix_getitem (k : Z) (c : icache) : res :=
  match ic_get k c with Some v => RVal v | None => RRaise KeyError end.

Definition ix_delitem (k : Z) (c : icache) : icache * res :=
  match ic_del k c with Some c' => (c', RNone) | None => (c, RRaise KeyError) end.

(* value = _cache.pop(key, default=default, retry=True); if value is ENOVAL: raise KeyError(key) *)
Definition ix_pop (k : Z) (default : comp) (c : icache) : icache * res :=
  let '(value, c') := i_exec_pop index_pop_call k default c in
  (c', if index_pop_miss value then RRaise index_pop_exn else res_of_comp value).

(* with _cache.transact(retry=True): key, value = _cache.peekitem(last=last); del _cache[key] *)
Definition ix_popitem (last : bool) (c : icache) : icache * res :=
  match ic_peekitem (index_popitem_last last) c with
  | None => (c, RRaise KeyError)
  | Some (key, value) =>
      match ic_del key c with
      | Some c' => (c', RPair key value)
      | None => (c, RRaise KeyError)
      end
  end.

Definition ix_peekitem (last : bool) (c : icache) : res :=
  match i_exec_peekitem index_peekitem_call (index_peekitem_last last) c with
  | Some (k, v) => RPair k v
  | None => RRaise KeyError
  end.

(* while True: try: return _cache[key]  except KeyError: _cache.add(key, default, retry=True) *)
Fixpoint setdefault_loop (fuel : nat) (k : Z) (default : val) (c : icache) : icache * res :=
  match fuel with
  | O => (c, ROutOfFuel)
  | S f =>
      match ic_get k c with
      | Some v => (c, RVal (if index_setdefault_returns_stored then v else default))
      | None => setdefault_loop f k default (i_exec_add index_setdefault_add k default c)
      end
  end.

Definition ix_setdefault (k : Z) (default : val) (c : icache) : icache * res := setdefault_loop 2 k default c.

(* MutableMapping.update: self[key] = value for every pair *)
Definition ix_update (ps : items) (c : icache) : icache :=
  fold_left (fun acc kv => ic_set (fst kv) (snd kv) acc) ps c.

(* KeysView / ValuesView / ItemsView iterate the keys and look each one up again *)
Definition ix_keys (c : icache) : list Z := ic_iter false c.
Definition ix_values (c : icache) : list val :=
  flat_map (fun key => match ic_get key c with Some v => [v] | None => [] end) (ic_iter false c).
Definition ix_items (c : icache) : items :=
  flat_map (fun key => match ic_get key c with Some v => [(key, v)] | None => [] end) (ic_iter false c).

Definition ix_eq (kind : mapkind) (other : items) (c : icache) : bool :=
  if index_eq_len_differs (ic_len c) (Z.of_nat (length other)) then false
  else if existsb (mapkind_eqb kind) index_eq_ordered_kinds
  then (* pairs = zip(alpha, beta); not any(a != x or b != y for (a, b), (x, y) in pairs) *)
       negb (existsb (fun p => index_eq_pair_differs (fst (fst p)) (snd (fst p)) (fst (snd p)) (snd (snd p)))
                     (combine (ix_items c) other))
  else (* all(self[key] == other.get(key, ENOVAL) for key in self) *)
       forallb (fun key => match ic_get key c, ic_get key other with
                           | Some a, Some b => a =? b
                           | _, _ => false
                           end) (ic_iter false c).

Definition ix_step (c : icache) (o : ix_op) : icache * res :=
  match o with
  | ISet k v => (ic_set k v c, RNone)
  | IGet k => (c, ix_getitem k c)
  | IDel k => ix_delitem k c
  | IPop k => ix_pop k index_pop_default c
  | IPopDefault k d => ix_pop k (CVal d) c
  | IPopItem last => ix_popitem last c
  | IPeekItem last => (c, ix_peekitem last c)
  | ISetDefault k d => ix_setdefault k d c
  | IUpdate ps => (ix_update ps c, RNone)
  | IKeys => (c, RList (ix_keys c))
  | IValues => (c, RList (ix_values c))
  | IItems => (c, RPairs (ix_items c))
  | IEq kind other => (c, RBool (ix_eq kind other c))
  | INe kind other => (c, RBool (negb (ix_eq kind other c)))          (* return not self == other *)
  | IIter => (c, RList (ic_iter false c))
  | IReversed => (c, RList (ic_iter true c))
  | IClear => (i_exec_clear index_clear_call c, RNone)
  | ILen => (c, RInt (ic_len c))
  | IGetDefault k d => (c, match ix_getitem k c with RVal v => RVal v | _ => RVal d end)   (* Mapping.get *)
  | IContains k => (c, match ix_getitem k c with RVal _ => RBool true | _ => RBool false end) (* Mapping.__contains__ *)
  end.

(* ---- handles ---- *)

Definition ix_carry (fields : list state_field) (c : icache) : icache :=
  if existsb (fun f => match f with SF_directory => true | _ => false end) fields then c else [].
Definition ix_unpickle_pickle := ix_carry index_getstate.
Definition ix_reopen (c : icache) : icache := c.

Inductive ix_event := XOp (o : ix_op) | XReopen | XPickle.

Definition ix_event_step (c : icache) (e : ix_event) : icache * res :=
  match e with
  | XOp o => ix_step c o
  | XReopen => (ix_reopen c, RNone)
  | XPickle => (ix_unpickle_pickle c, RNone)
  end.

(* ---- traces, for the correspondence with the implementation ---- *)

Definition ix_obs := (res * items)%type.

Fixpoint ix_trace (c : icache) (es : list ix_event) : list ix_obs :=
  match es with
  | [] => []
  | e :: r => let '(c', x) := ix_event_step c e in (x, c') :: ix_trace c' r
  end.

Fixpoint od_trace (l : items) (es : list ix_event) : list ix_obs :=
  match es with
  | [] => []
  | XOp o :: r => let '(l', x) := od_step l o in (x, l') :: od_trace l' r
  | _ :: r => (RNone, l) :: od_trace l r
  end.

Definition ix_obs_eqb (a b : ix_obs) : bool := res_eqb (fst a) (fst b) && list_eqb pair_eqb (snd a) (snd b).

(* Index(dir, pairs): update on an empty cache *)
Definition ix_new (init : items) : icache := ix_update init [].

Definition ix_check (init : items) (es : list ix_event) (expected : list ix_obs) : bool :=
  list_eqb ix_obs_eqb (ix_trace (ix_new init) es) expected
  && list_eqb ix_obs_eqb (od_trace (fst (od_step [] (IUpdate init))) es) expected.
