(* Concurrency / crash layer (LA of DESIGN.md): a micro-step machine over any number of clients.
   Every writing API call is an instance of ONE stage machine

      [create file ; close file] ; BEGIN ; body ; [early removals] ; COMMIT | ROLLBACK ; removals ;
      [read fetched file ; remove it] ; return

   every lock-free lookup an instance of  SELECT ; [open file ; [SELECT again ; [open file ; ...]]] ; return
   (a lookup whose file is gone looks the row up again and gives up only when the row is gone or the SAME file
   is missing twice; `r_again = false` is the reader the code had before that repair: it gave up at the first
   missing file),  and killing a client is a step available in every configuration.  The machine is generic in the database state D and in the
   transaction bodies: a call only chooses the parameters (does it write a value file, does it retry,
   what its body does to the working copy, which files it hands to cleanup, which file it fetches after
   commit).  model/Txn.v instantiates it with the bodies of model/Cache.v.
   Executable definitions only. *)
From DC Require Import DCPrelude.

Set Implicit Arguments.

Section Conc.
  Variable D : Type.                 (* committed database state: rows + counters *)
  Variable R : Type.                 (* results of calls *)

  (* what the transaction body of a call computes from the working copy and the name of the file the
     call stored before BEGIN (if any) *)
  Record body_out := {
    bo_db : D;                       (* working copy after the body *)
    bo_early : list Z;               (* files removed while the transaction is still open (calls nested
                                        in a transact block run their cleanup at their own exit) *)
    bo_cleanup : list Z;             (* files removed after COMMIT *)
    bo_fetch : option Z;             (* pop/pull: file read and removed after COMMIT *)
    bo_res : R;
    bo_ok : bool                     (* false: the body raised -> ROLLBACK *)
  }.

  Record wop := {
    w_store : bool;                  (* writes a value file before BEGIN *)
    w_retry : bool;                  (* retry=True: spin on a busy lock instead of raising Timeout *)
    w_body : D -> option Z -> body_out
  }.

  (* a lock-free lookup: a SELECT on the committed state yields a miss, an inline hit, or a file-backed hit
     that still has to open the file.  r_again: when the open fails the lookup SELECTs again (unless the file
     it could not open is the one that was already missing the time before); false = the OLD reader, which
     reported `miss` at the first failed open *)
  Inductive sel := SelMiss (r : R) | SelHit (r : R) | SelFile (f : Z) (hit miss : R).
  Record rop := { r_select : D -> sel; r_again : bool }.

  Inductive op := OWrite (w : wop) | ORead (r : rop).

  Inductive outcome := ORes (r : R) | OTimeout | OFetchMiss (r : R).

  Inductive fstate := FNone | FPartial | FDone.

  Inductive pc :=
  | Idle
  | Storing (w : wop) (f : Z)                         (* file created, partially written *)
  | AtBegin (w : wop) (f : option Z)
  | InTxn (w : wop) (f : option Z)                    (* holds the write lock; next: body *)
  | Early (w : wop) (f : option Z) (o : body_out) (l : list Z)   (* removing files before the commit decision *)
  | AtCommit (w : wop) (f : option Z) (o : body_out)
  | Cleaning (l : list Z) (fetch : option Z) (res : outcome)
  | Fetching (f : Z) (r : R)                          (* next: read the fetched file *)
  | FetchRm (f : Z) (res : outcome)                   (* next: remove it *)
  | TimeoutRm (f : option Z)                          (* lock not obtained: remove the stored file *)
  | ReadOpen (r : rop) (missing : option Z) (f : Z) (hit miss : R)
                                                      (* lookup after a SELECT: open the file; missing = the file the
                                                         open before could not find *)
  | ReadAgain (r : rop) (missing : Z)                 (* the open failed: SELECT again *)
  | Dead.                                             (* killed *)

  Record client := { c_pc : pc; c_todo : list op; c_done : list outcome }.

  Record config := {
    db : D;                                  (* last committed state: what every other connection reads *)
    lock : option (nat * D);                 (* holder of the write lock and its working copy *)
    files : Z -> fstate;
    supply : Z;                              (* fresh-name supply *)
    cl : nat -> client;
    commits : list (nat * D)                 (* ghost: committed transactions in commit order *)
  }.

  Definition upd_cl (c : config) (i : nat) (x : client) : nat -> client :=
    fun j => if Nat.eqb j i then x else cl c j.
  Definition upd_file (c : config) (f : Z) (s : fstate) : Z -> fstate :=
    fun g => if g =? f then s else files c g.

  Definition with_cl (c : config) (i : nat) (x : client) : config :=
    {| db := db c; lock := lock c; files := files c; supply := supply c; cl := upd_cl c i x; commits := commits c |}.
  Definition set_pc (x : client) (p : pc) : client := {| c_pc := p; c_todo := c_todo x; c_done := c_done x |}.
  Definition finish (x : client) (o : outcome) : client :=
    {| c_pc := Idle; c_todo := c_todo x; c_done := c_done x ++ [o] |}.

  Definition holds (c : config) (i : nat) : bool :=
    match lock c with Some (j, _) => Nat.eqb j i | None => false end.

  Definition same_file (m : option Z) (f : Z) : bool := match m with Some g => g =? f | None => false end.

  (* what a lookup does with the answer of a SELECT (x: the client with the call already taken off its program) *)
  Definition after_select (c : config) (i : nat) (x : client) (r : rop) (missing : option Z) : config :=
    match r_select r (db c) with
    | SelMiss res => with_cl c i (finish x (ORes res))
    | SelHit res => with_cl c i (finish x (ORes res))
    | SelFile f hit miss => with_cl c i (set_pc x (ReadOpen r missing f hit miss))
    end.

  (* one micro-step of client i; None = the client has nothing to do (finished or dead) *)
  Definition cstep (c : config) (i : nat) : option config :=
    let x := cl c i in
    match c_pc x with
    | Dead => None
    | Idle =>
        match c_todo x with
        | [] => None
        | OWrite w :: rest =>
            let x' := {| c_pc := Idle; c_todo := rest; c_done := c_done x |} in
            if w_store w
            then Some {| db := db c; lock := lock c; files := upd_file c (supply c) FPartial; supply := supply c + 1;
                         cl := upd_cl c i (set_pc x' (Storing w (supply c))); commits := commits c |}
            else Some (with_cl c i (set_pc x' (AtBegin w None)))
        | ORead r :: rest =>
            let x' := {| c_pc := Idle; c_todo := rest; c_done := c_done x |} in
            Some (after_select c i x' r None)
        end
    | Storing w f =>
        Some {| db := db c; lock := lock c; files := upd_file c f FDone; supply := supply c;
                cl := upd_cl c i (set_pc x (AtBegin w (Some f))); commits := commits c |}
    | AtBegin w f =>
        match lock c with
        | None => Some {| db := db c; lock := Some (i, db c); files := files c; supply := supply c;
                          cl := upd_cl c i (set_pc x (InTxn w f)); commits := commits c |}
        | Some _ => if w_retry w then Some c                       (* spins *)
                    else Some (with_cl c i (set_pc x (TimeoutRm f)))
        end
    | InTxn w f =>
        match lock c with
        | Some (j, wk) =>
            let o := w_body w wk f in
            Some {| db := db c; lock := Some (j, bo_db o); files := files c; supply := supply c;
                    cl := upd_cl c i (set_pc x (Early w f o (bo_early o))); commits := commits c |}
        | None => None
        end
    | Early w f o [] => Some (with_cl c i (set_pc x (AtCommit w f o)))
    | Early w f o (g :: l) =>
        Some {| db := db c; lock := lock c; files := upd_file c g FNone; supply := supply c;
                cl := upd_cl c i (set_pc x (Early w f o l)); commits := commits c |}
    | AtCommit w f o =>
        if bo_ok o
        then Some {| db := bo_db o; lock := None; files := files c; supply := supply c;
                     cl := upd_cl c i (set_pc x (Cleaning (bo_cleanup o) (bo_fetch o) (ORes (bo_res o))));
                     commits := commits c ++ [(i, bo_db o)] |}
        else Some {| db := db c; lock := None; files := files c; supply := supply c;
                     cl := upd_cl c i (set_pc x (Cleaning (match f with Some g => [g] | None => [] end) None (ORes (bo_res o))));
                     commits := commits c |}
    | Cleaning [] None res => Some (with_cl c i (finish x res))
    | Cleaning [] (Some f) res =>
        Some (with_cl c i (set_pc x (match res with ORes r => Fetching f r | _ => FetchRm f res end)))
    | Cleaning (g :: l) fe res =>
        Some {| db := db c; lock := lock c; files := upd_file c g FNone; supply := supply c;
                cl := upd_cl c i (set_pc x (Cleaning l fe res)); commits := commits c |}
    | Fetching f r =>
        Some (with_cl c i (set_pc x (FetchRm f (match files c f with FDone => ORes r | _ => OFetchMiss r end))))
    | FetchRm f res =>
        Some {| db := db c; lock := lock c; files := upd_file c f FNone; supply := supply c;
                cl := upd_cl c i (finish x res); commits := commits c |}
    | TimeoutRm None => Some (with_cl c i (finish x OTimeout))
    | TimeoutRm (Some f) =>
        Some {| db := db c; lock := lock c; files := upd_file c f FNone; supply := supply c;
                cl := upd_cl c i (finish x OTimeout); commits := commits c |}
    | ReadOpen r missing f hit miss =>
        match files c f with
        | FDone => Some (with_cl c i (finish x (ORes hit)))
        | _ => if r_again r && negb (same_file missing f)
               then Some (with_cl c i (set_pc x (ReadAgain r f)))         (* look the row up again *)
               else Some (with_cl c i (finish x (ORes miss)))             (* old reader, or the same file missing twice *)
        end
    | ReadAgain r missing => Some (after_select c i x r (Some missing))
    end.

  (* the process running client i is killed: its locals vanish; SQLite rolls back its open
     transaction and releases its lock; committed state and files are untouched *)
  Definition crash (c : config) (i : nat) : config :=
    {| db := db c; lock := if holds c i then None else lock c; files := files c; supply := supply c;
       cl := upd_cl c i {| c_pc := Dead; c_todo := []; c_done := c_done (cl c i) |}; commits := commits c |}.

  (* a schedule: which client moves, or which client is killed *)
  Inductive ev := Step (i : nat) | Kill (i : nat).

  Definition exec1 (c : config) (e : ev) : config :=
    match e with
    | Step i => match cstep c i with Some c' => c' | None => c end
    | Kill i => crash c i
    end.
  Definition exec (c : config) (s : list ev) : config := fold_left exec1 s c.

  Definition idle_client (todo : list op) : client := {| c_pc := Idle; c_todo := todo; c_done := [] |}.
  Definition init_config (d : D) (progs : nat -> list op) : config :=
    {| db := d; lock := None; files := fun _ => FNone; supply := 0; cl := fun i => idle_client (progs i); commits := [] |}.

  (* the visible trace of micro-steps, for the trace correspondence with the instrumented implementation *)
  Inductive tag := TCreate | TClose | TBegin | TBeginBusy | TBody | TEarlyRm | TCommit | TRollback | TRemove
                 | TFetchRead | TSelect | TOpenRead | TReturn | TNone.
  Definition step_tag (c : config) (i : nat) : tag :=
    match c_pc (cl c i) with
    | Dead => TNone
    | Idle => match c_todo (cl c i) with
              | [] => TNone
              | OWrite w :: _ => if w_store w then TCreate else TNone
              | ORead _ :: _ => TSelect
              end
    | Storing _ _ => TClose
    | AtBegin _ _ => match lock c with None => TBegin | Some _ => TBeginBusy end
    | InTxn _ _ => TBody
    | Early _ _ _ [] => TNone
    | Early _ _ _ (_ :: _) => TEarlyRm
    | AtCommit _ _ o => if bo_ok o then TCommit else TRollback
    | Cleaning [] _ _ => TNone
    | Cleaning (_ :: _) _ _ => TRemove
    | Fetching _ _ => TFetchRead
    | FetchRm _ _ => TRemove
    | TimeoutRm None => TReturn
    | TimeoutRm (Some _) => TRemove
    | ReadOpen _ _ _ _ _ => TOpenRead
    | ReadAgain _ _ => TSelect
    end.
End Conc.

Arguments Idle {D R}.
Arguments Dead {D R}.
Arguments Storing {D R}.
Arguments AtBegin {D R}.
Arguments InTxn {D R}.
Arguments Early {D R}.
Arguments AtCommit {D R}.
Arguments Cleaning {D R}.
Arguments Fetching {D R}.
Arguments FetchRm {D R}.
Arguments TimeoutRm {D R}.
Arguments ReadOpen {D R}.
Arguments ReadAgain {D R}.
