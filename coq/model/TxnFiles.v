(* The file bookkeeping of a transaction block (finding C08-F1).
   Cache._transact (core.py; the template of tools/emit_sql.py fixes its text, Gen_Sql.transact_defers_removals) keeps two lists per
   outermost transaction: `created` (value files written by the calls nested in it: removed if the OUTERMOST transaction rolls back)
   and `filenames` (files handed to cleanup: removed after the outermost COMMIT).  A call nested in the block ends in one of three ways:
     Stored f     it returned and a row of the working copy refers to its file f
     Discarded f  it returned after handing its own file to cleanup (add on a present key)
     Failed f     it raised after its file was written; the exception is caught inside the block (no savepoint: nothing is undone,
                  nothing refers to f, f stays in `created`)
   plus Released g: a nested call handed an old file g (of a replaced / deleted / popped row) to cleanup.
   Executable definitions only. *)
From DC Require Import DCPrelude.

Inductive nested := Stored (f : Z) | Discarded (f : Z) | Failed (f : Z) | Released (g : Z).

Record fs := { present : list Z;       (* value files in the directory *)
               referred : list Z;      (* files some row of the (working copy of the) table refers to *)
               created : list Z; filenames : list Z }.

Definition remove_all (l : list Z) (from : list Z) : list Z := filter (fun x => negb (existsb (Z.eqb x) l)) from.

Definition step (s : fs) (e : nested) : fs :=
  match e with
  | Stored f => {| present := f :: present s; referred := f :: referred s; created := f :: created s; filenames := filenames s |}
  | Discarded f => {| present := f :: present s; referred := referred s; created := f :: created s; filenames := f :: filenames s |}
  | Failed f => {| present := f :: present s; referred := referred s; created := f :: created s; filenames := filenames s |}
  | Released g => {| present := present s; referred := remove_all [g] (referred s); created := created s; filenames := g :: filenames s |}
  end.

Definition begin_block (files rows : list Z) : fs := {| present := files; referred := rows; created := []; filenames := [] |}.

(* the outermost COMMIT: the working copy becomes the table, the files handed to cleanup go *)
Definition commit (s : fs) : list Z * list Z := (remove_all (filenames s) (present s), referred s).
(* the outermost ROLLBACK: the table is as before the block, the files written inside it go *)
Definition rollback (rows0 : list Z) (s : fs) : list Z * list Z := (remove_all (created s) (present s), rows0).

Definition orphans (st : list Z * list Z) : list Z := remove_all (snd st) (fst st).
Definition dangling (st : list Z * list Z) : list Z := remove_all (fst st) (snd st).

Definition failed_files (es : list nested) : list Z := flat_map (fun e => match e with Failed f => [f] | _ => [] end) es.
Definition fresh_names (files : list Z) (es : list nested) : Prop :=
  NoDup (flat_map (fun e => match e with Stored f | Discarded f | Failed f => [f] | Released _ => [] end) es) /\
  forall e f, In e es -> (e = Stored f \/ e = Discarded f \/ e = Failed f) -> ~ In f files.
