(* The abstract cache that Deque and Index sit on.  Executable definitions only.

   ASSUMPTION (what property C10 / C03 establish for the real Cache, with eviction_policy='none' and no
   expiry): seen through push / pull / peek / __getitem__ / __setitem__ / __delitem__ / iterkeys / clear /
   len, a Cache holding only integer queue keys behaves like `qcache` below; seen through
   get / set / del / pop / add / peekitem / iteration / clear / len, a Cache behaves like `icache`.

   Values are integers standing for arbitrary picklable objects (equal objects, equal ids). *)
From DC Require Import DCPrelude PersistentBase.

Definition val := Z.

(* ------------------------------------------------------------------------------------------------ *)
(* queue view: association list from integer queue keys to values, ascending in the key              *)

Definition qcache := list (Z * val).

Definition q_start : Z := 500000000000000.

Definition qc_keys (c : qcache) : list Z := map fst c.
Definition qc_view (c : qcache) : list val := map snd c.
Definition qc_len (c : qcache) : Z := Z.of_nat (length c).

(* key of the last (largest) / first (smallest) row *)
Definition qc_max (c : qcache) : option Z := match rev c with [] => None | (k, _) :: _ => Some k end.
Definition qc_min (c : qcache) : option Z := match c with [] => None | (k, _) :: _ => Some k end.

(* push: neighbour of the extreme key on that side, 500000000000000 when empty; returns the key *)
Definition qc_push (s : side) (v : val) (c : qcache) : Z * qcache :=
  match s with
  | Back => let k := match qc_max c with Some m => m + 1 | None => q_start end in (k, c ++ [(k, v)])
  | Front => let k := match qc_min c with Some m => m - 1 | None => q_start end in (k, (k, v) :: c)
  end.

(* peek: the extreme row of that side *)
Definition qc_peek (s : side) (c : qcache) : option (Z * val) :=
  match s with
  | Front => match c with [] => None | kv :: _ => Some kv end
  | Back => match rev c with [] => None | kv :: _ => Some kv end
  end.

(* pull: peek and delete that row *)
Definition qc_pull (s : side) (c : qcache) : option (Z * val) * qcache :=
  match s with
  | Front => match c with [] => (None, c) | kv :: r => (Some kv, r) end
  | Back => match rev c with [] => (None, c) | kv :: r => (Some kv, rev r) end
  end.

Fixpoint qc_get (k : Z) (c : qcache) : option val :=
  match c with
  | [] => None
  | (k', v) :: r => if k =? k' then Some v else qc_get k r
  end.

(* __setitem__: replace in place; an absent key is inserted at its place in key order *)
Fixpoint qc_set (k : Z) (v : val) (c : qcache) : qcache :=
  match c with
  | [] => [(k, v)]
  | (k', v') :: r => if k =? k' then (k, v) :: r
                     else if k <? k' then (k, v) :: c
                     else (k', v') :: qc_set k v r
  end.

(* __delitem__: None = KeyError *)
Fixpoint qc_del (k : Z) (c : qcache) : option qcache :=
  match c with
  | [] => None
  | (k', v) :: r => if k =? k' then Some r
                    else match qc_del k r with Some r' => Some ((k', v) :: r') | None => None end
  end.

Definition qc_clear (c : qcache) : qcache := [].

(* iterkeys(reverse) *)
Definition qc_iterkeys (reverse : bool) (c : qcache) : list Z :=
  if reverse then rev (qc_keys c) else qc_keys c.

(* ------------------------------------------------------------------------------------------------ *)
(* mapping view: insertion-ordered association list, replace in place                                *)

Definition icache := list (Z * val).

Definition ic_keys (c : icache) : list Z := map fst c.
Definition ic_len (c : icache) : Z := Z.of_nat (length c).

Fixpoint ic_get (k : Z) (c : icache) : option val :=
  match c with
  | [] => None
  | (k', v) :: r => if k =? k' then Some v else ic_get k r
  end.

(* set: present -> the row keeps its place; absent -> new last row *)
Fixpoint ic_set (k : Z) (v : val) (c : icache) : icache :=
  match c with
  | [] => [(k, v)]
  | (k', v') :: r => if k =? k' then (k, v) :: r else (k', v') :: ic_set k v r
  end.

Fixpoint ic_del (k : Z) (c : icache) : option icache :=
  match c with
  | [] => None
  | (k', v) :: r => if k =? k' then Some r
                    else match ic_del k r with Some r' => Some ((k', v) :: r') | None => None end
  end.

(* pop: value and the cache without the row, None when absent *)
Definition ic_pop (k : Z) (c : icache) : option (val * icache) :=
  match ic_get k c, ic_del k c with
  | Some v, Some c' => Some (v, c')
  | _, _ => None
  end.

(* add: insert only if absent; returns whether it stored *)
Definition ic_add (k : Z) (v : val) (c : icache) : bool * icache :=
  match ic_get k c with
  | Some _ => (false, c)
  | None => (true, ic_set k v c)
  end.

(* peekitem(last): None = KeyError('dictionary is empty') *)
Definition ic_peekitem (last : bool) (c : icache) : option (Z * val) :=
  if last then match rev c with [] => None | kv :: _ => Some kv end
  else match c with [] => None | kv :: _ => Some kv end.

Definition ic_clear (c : icache) : icache := [].

(* iter(cache) / reversed(cache) *)
Definition ic_iter (reverse : bool) (c : icache) : list Z :=
  if reverse then rev (ic_keys c) else ic_keys c.
