(* The queue operations of diskcache.Cache (push, pull, peek) as parameters of the concurrency machine
   (model/Conc.v), in the style of model/Txn.v.  ONE call of the machine is ONE transaction:

     push   Disk.store (file created and closed BEFORE BEGIN, like set) ; BEGIN ; SELECT the extreme key of the
            prefix range ; INSERT the neighbouring key ; _cull ; COMMIT ; cleanup.
            A key that is already there makes the INSERT fail (sqlite3.IntegrityError on the unique index
            Cache_key_raw, finding C10-F2): the body raises -> ROLLBACK, the stored file is removed.
     pull   BEGIN ; SELECT the head ; [none -> return default] ; DELETE it ; COMMIT ; read its file ; remove it.
     peek   BEGIN ; SELECT the head ; [none -> return default] ; COMMIT ; (read its file).

   What is outside this instance returns the marker result  RRaise EOutOfFuel  (no call of the implementation
   returns it, so a run that gets there never agrees with the implementation):

     - the selected head is EXPIRED.  pull / peek then delete it, clean its file up and start ANOTHER
       transaction.  body_pull / body_peek perform exactly this one iteration (delete the expired row, hand its
       file to cleanup) and stop with the marker.  The harness (harness/queuecorr.py) generates no expiring
       items for the runs compared with this instance.
     - peek of a live head whose value is in a FILE: the file is read after COMMIT and NOT removed; the machine
       only knows a fetch that removes the file (pop, pull).  The harness only peeks at queues fed with inline
       values.
     - a head row whose file-backed mode has no file (never produced by push).

   Executable definitions only. *)
From DC Require Import DCPrelude Val DiskBase SqlBase Gen_Disk Disk Gen_Sql Cache Conc Txn.

(* the marker *)
Definition outside : result := RRaise EOutOfFuel.

(* ------------------------------------------------------------------ push *)
(* the unique index on (key, raw): a row with this key and raw = 1 exists *)
Definition push_collides (dbk : sqlval) (t : list row) : bool :=
  existsb (fun r => truthy (tv_and (sql_eq (rkey r) dbk) (tvz_eq (b2z (rraw r)) 1))) t.

Definition push_dbk (prefix : option (list Z)) (sd_ : side) (t : list row) : sqlval :=
  let found := match sd_ with
               | Back => push_select_back (qkey_min prefix) (qkey_max prefix) 1 t
               | Front => push_select_front (qkey_min prefix) (qkey_max prefix) 1 t
               end in
  let num := match found with
             | r0 :: _ => match sd_ with Back => qkey_num prefix (rkey r0) + 1 | Front => qkey_num prefix (rkey r0) - 1 end
             | [] => push_start
             end in
  qkey_make prefix num.

Definition body_push (c : cfg) (v : pyval) (rd : bool) (prefix : option (list Z)) (sd_ : side) (expire : option Z)
           (tag : sqlval) (now pg : Z) (d : st) (f : option Z) : bout :=
  match store (c_codec c) (c_min_file_size c) v rd with
  | StRaise => raise_out d (RRaise EStore)
  | StOk sd =>
    match attach d f (s_file sd) with
    | None => raise_out d (RRaise EStore)
    | Some (s1, fid) =>
      let dbk := push_dbk prefix sd_ (rows s1) in
      if push_collides dbk (rows s1)
      then raise_out d (RRaise EStore)                      (* IntegrityError -> ROLLBACK *)
      else
        let s2 := t_insert (columns_insert dbk true now (expire_at now expire) tag sd fid) s1 in
        let '(s3, cl2) := cull c now pg s2 in
        ok_out s3 cl2 None (RKey dbk)
    end
  end.

Definition w_push (retry : bool) (c : cfg) (v : pyval) (rd : bool) (prefix : option (list Z)) (sd_ : side)
           (expire : option Z) (tag : sqlval) (now pg : Z) : cwop :=
  {| w_store := stores_file c v rd; w_retry := retry; w_body := body_push c v rd prefix sd_ expire tag now pg |}.

(* ------------------------------------------------------------------ pull *)
Definition kv_result (r0 : row) (v : fetched) : result :=
  match v with
  | FIOError => outside
  | _ => RKV (rkey r0) (rraw r0) v (expire_time r0) (rtag r0)
  end.

Definition body_pull (c : cfg) (prefix : option (list Z)) (sd_ : side) (now : Z) (d : st) (f : option Z) : bout :=
  match pull_select sd_ prefix (rows d) with
  | [] => ok_out d [] None RDefault
  | r0 :: _ =>
      let s1 := t_delete (pull_delete (rowid r0) (rows d)) d in
      if pull_expired (expire_time r0) now
      then ok_out s1 [rfile r0] None outside                (* one iteration; the next one is another transaction *)
      else
        (* the value is read after COMMIT (the machine reports OFetchMiss when the file is gone) *)
        ok_out s1 [] (rfile r0) (kv_result r0 (fetch_row c s1 r0 false))
  end.

Definition w_pull (retry : bool) (c : cfg) (prefix : option (list Z)) (sd_ : side) (now : Z) : cwop :=
  {| w_store := false; w_retry := retry; w_body := body_pull c prefix sd_ now |}.

(* ------------------------------------------------------------------ peek *)
Definition body_peek (c : cfg) (prefix : option (list Z)) (sd_ : side) (now : Z) (d : st) (f : option Z) : bout :=
  match peek_select sd_ prefix (rows d) with
  | [] => ok_out d [] None RDefault
  | r0 :: _ =>
      if peek_expired (expire_time r0) now
      then ok_out (t_delete (peek_delete (rowid r0) (rows d)) d) [rfile r0] None outside
      else match rfile r0 with
           | Some _ => ok_out d [] None outside              (* file read after COMMIT, not removed *)
           | None => ok_out d [] None (kv_result r0 (fetch_row c d r0 false))
           end
  end.

Definition w_peek (retry : bool) (c : cfg) (prefix : option (list Z)) (sd_ : side) (now : Z) : cwop :=
  {| w_store := false; w_retry := retry; w_body := body_peek c prefix sd_ now |}.
