(* Row-level model of diskcache.core.Cache used by one client (layer L1 of DESIGN.md).
   Executable definitions only.  Every SQL statement, guard and constant comes from gen/Gen_Sql.v;
   the Disk codec from gen/Gen_Disk.v through model/Disk.v.  What is hand-written here is the control
   skeleton of each method (pinned to the source by the translator's templates) and the table
   primitives with their trigger calls.  Times are Z ticks. *)
From DC Require Import DCPrelude Val DiskBase SqlBase Gen_Disk Disk Gen_Sql.

(* ------------------------------------------------------------------ state *)
Record st := {
  rows : list row;                 (* Cache table, ascending rowid *)
  n_count : Z; n_size : Z;         (* Settings.count / Settings.size (trigger maintained) *)
  n_hits : Z; n_misses : Z;        (* Settings.hits / Settings.misses *)
  statistics : bool;               (* Settings.statistics *)
  fs : list (Z * fcontent);        (* value files, by file id *)
  next_file : Z                    (* fresh-name supply *)
}.

Record cfg := {
  c_policy : policy; c_size_limit : Z; c_cull_limit : Z; c_min_file_size : Z; c_codec : codec
}.

Definition set_rows (s : st) (t : list row) (cnt sz : Z) : st :=
  {| rows := t; n_count := cnt; n_size := sz; n_hits := n_hits s; n_misses := n_misses s;
     statistics := statistics s; fs := fs s; next_file := next_file s |}.
Definition set_fs (s : st) (f : list (Z * fcontent)) (nf : Z) : st :=
  {| rows := rows s; n_count := n_count s; n_size := n_size s; n_hits := n_hits s; n_misses := n_misses s;
     statistics := statistics s; fs := f; next_file := nf |}.
Definition set_stats (s : st) (h m : Z) (on : bool) : st :=
  {| rows := rows s; n_count := n_count s; n_size := n_size s; n_hits := h; n_misses := m;
     statistics := on; fs := fs s; next_file := next_file s |}.

Definition init_st : st :=
  {| rows := []; n_count := 0; n_size := 0; n_hits := 0; n_misses := 0; statistics := false; fs := []; next_file := 0 |}.

(* ------------------------------------------------------------------ table primitives (with triggers) *)
Definition t_insert (mk : Z -> row) (s : st) : st :=
  let r := mk (next_rowid (rows s)) in
  set_rows s (rows s ++ [r]) (trig_insert_count (n_count s) r r) (trig_insert_size (n_size s) r r).

Fixpoint upd_rows (wh : row -> bool) (f : row -> row) (t : list row) (sz : Z) : list row * Z :=
  match t with
  | [] => ([], sz)
  | r :: rest =>
      if wh r
      then let r' := f r in let '(t', sz') := upd_rows wh f rest (trig_update_size sz r' r) in (r' :: t', sz')
      else let '(t', sz') := upd_rows wh f rest sz in (r :: t', sz')
  end.
Definition t_update (wh : row -> bool) (f : row -> row) (s : st) : st :=
  let '(t', sz') := upd_rows wh f (rows s) (n_size s) in set_rows s t' (n_count s) sz'.

Fixpoint del_rows (wh : row -> bool) (t : list row) (cnt sz : Z) : list row * Z * Z :=
  match t with
  | [] => ([], cnt, sz)
  | r :: rest =>
      if wh r then del_rows wh rest (trig_delete_count cnt r r) (trig_delete_size sz r r)
      else let '(t', c', s') := del_rows wh rest cnt sz in (r :: t', c', s')
  end.
Definition t_delete (wh : row -> bool) (s : st) : st :=
  let '(t', c', s') := del_rows wh (rows s) (n_count s) (n_size s) in set_rows s t' c' s'.

(* ------------------------------------------------------------------ files *)
Fixpoint fs_get (f : list (Z * fcontent)) (id : Z) : option fcontent :=
  match f with [] => None | (i, c) :: r => if i =? id then Some c else fs_get r id end.
Definition fs_lookup (s : st) (o : option Z) : option fcontent :=
  match o with None => None | Some id => fs_get (fs s) id end.
Definition fs_write (s : st) (c : option fcontent) : st * option Z :=
  match c with
  | None => (s, None)
  | Some content => (set_fs s (fs s ++ [(next_file s, content)]) (next_file s + 1), Some (next_file s))
  end.
Definition fs_remove1 (s : st) (o : option Z) : st :=
  match o with
  | None => s
  | Some id => set_fs s (filter (fun p => negb (fst p =? id)) (fs s)) (next_file s)
  end.
Definition fs_remove (s : st) (l : list (option Z)) : st := fold_left fs_remove1 l s.

(* ------------------------------------------------------------------ results *)
Inductive exn := EKeyError | ETypeError | EOverflow | EBind | EStore | EOutOfFuel | EEmpty.
Inductive result :=
| RBool (b : bool)
| RInt (z : Z)
| RDefault                                            (* the caller's default *)
| RVal (v : fetched) (exp : option Z) (tag : sqlval)   (* value (+ expire_time, tag when asked) *)
| RKey (k : sqlval)                                    (* push *)
| RKV (k : sqlval) (raw : bool) (v : fetched) (exp : option Z) (tag : sqlval)   (* pull / peek / peekitem *)
| RKeys (ks : list (sqlval * bool))                    (* iteration *)
| RStats (h m : Z)
| RRaise (e : exn).

Definition volume (pg : Z) (s : st) : Z := pg + n_size s.
Definition hd_vol (vols : list Z) : Z := match vols with [] => 0 | v :: _ => v end.

(* ------------------------------------------------------------------ _cull *)
Definition cull (c : cfg) (now pg : Z) (s : st) : st * list (option Z) :=
  if cull_disabled (c_cull_limit c) then (s, [])
  else
    let er := cull_expired_select now (c_cull_limit c) (rows s) in
    let '(s1, cl1, lim, stop) :=
      if negb (is_nil er)
      then let lim' := c_cull_limit c - Z.of_nat (length er) in
           (t_delete (cull_expired_delete now (c_cull_limit c) (rows s)) s, map rfile er, lim', cull_exhausted lim')
      else (s, [], c_cull_limit c, false) in
    if stop then (s1, cl1)
    else if cull_skip_policy (if policy_has_cull (c_policy c) then Some tt else None) (volume pg s1) (c_size_limit c)
    then (s1, cl1)
    else
      let pr := policy_cull_select (c_policy c) lim (rows s1) in
      if is_nil pr then (s1, cl1)
      else (t_delete (policy_cull_delete (c_policy c) lim (rows s1)) s1, cl1 ++ map rfile pr).

(* ------------------------------------------------------------------ set / add / touch *)
Definition columns_insert (dbk : sqlval) (raw : bool) (now : Z) (exp : option Z) (tag : sqlval) (sd : stored) (fid : option Z) :=
  row_insert dbk raw now exp now 0 tag (s_size sd) (s_mode sd) fid (s_col sd).
Definition columns_update (rid : Z) (now : Z) (exp : option Z) (tag : sqlval) (sd : stored) (fid : option Z) (s : st) : st :=
  t_update (row_update_where now exp now 0 tag (s_size sd) (s_mode sd) fid (s_col sd) rid)
           (row_update_set now exp now 0 tag (s_size sd) (s_mode sd) fid (s_col sd) rid) s.

Definition expire_at (now : Z) (expire : option Z) : option Z :=
  match expire with None => None | Some d => Some (now + d) end.

Definition op_set (c : cfg) (s : st) (k v : pyval) (read : bool) (expire : option Z) (tag : sqlval) (now pg : Z)
  : st * result :=
  match put (c_codec c) k with
  | PutRaise => (s, RRaise EBind)
  | PutOk dbk raw =>
    match store (c_codec c) (c_min_file_size c) v read with
    | StRaise => (s, RRaise EStore)
    | StOk sd =>
      let '(s1, fid) := fs_write s (s_file sd) in
      let exp := expire_at now expire in
      let '(s2, cl) :=
        match set_select dbk (b2z raw) (rows s1) with
        | r0 :: _ => (columns_update (rowid r0) now exp tag sd fid s1, [rfile r0])
        | [] => (t_insert (columns_insert dbk raw now exp tag sd fid) s1, [])
        end in
      let '(s3, cl2) := cull c now pg s2 in
      (fs_remove s3 (cl ++ cl2), RBool true)
    end
  end.

Definition op_add (c : cfg) (s : st) (k v : pyval) (read : bool) (expire : option Z) (tag : sqlval) (now pg : Z)
  : st * result :=
  match put (c_codec c) k with
  | PutRaise => (s, RRaise EBind)
  | PutOk dbk raw =>
    match store (c_codec c) (c_min_file_size c) v read with
    | StRaise => (s, RRaise EStore)
    | StOk sd =>
      let '(s1, fid) := fs_write s (s_file sd) in
      let exp := expire_at now expire in
      match add_select dbk (b2z raw) (rows s1) with
      | r0 :: _ =>
          if add_live (expire_time r0) now
          then (fs_remove s1 [fid], RBool false)
          else let s2 := columns_update (rowid r0) now exp tag sd fid s1 in
               let '(s3, cl2) := cull c now pg s2 in
               (fs_remove s3 (rfile r0 :: cl2), RBool true)
      | [] =>
          let s2 := t_insert (columns_insert dbk raw now exp tag sd fid) s1 in
          let '(s3, cl2) := cull c now pg s2 in
          (fs_remove s3 cl2, RBool true)
      end
    end
  end.

Definition op_touch (c : cfg) (s : st) (k : pyval) (expire : option Z) (now : Z) : st * result :=
  match put (c_codec c) k with
  | PutRaise => (s, RRaise EBind)
  | PutOk dbk raw =>
    match touch_select dbk (b2z raw) (rows s) with
    | r0 :: _ =>
        if touch_live (expire_time r0) now
        then (t_update (touch_update_where (expire_at now expire) (rowid r0))
                       (touch_update_set (expire_at now expire) (rowid r0)) s, RBool true)
        else (s, RBool false)
    | [] => (s, RBool false)
    end
  end.

(* ------------------------------------------------------------------ incr *)
Definition op_incr (c : cfg) (s : st) (k : pyval) (delta : Z) (default : option Z) (now pg : Z) : st * result :=
  match put (c_codec c) k with
  | PutRaise => (s, RRaise EBind)
  | PutOk dbk raw =>
    let fresh (upd : option row) :=
      match default with
      | None => (s, RRaise EKeyError)
      | Some d =>
        let value := d + delta in
        match store (c_codec c) (c_min_file_size c) (VInt value) false with
        | StRaise => (s, RRaise EStore)
        | StOk sd =>
          let '(s1, fid) := fs_write s (s_file sd) in
          let s2 := match upd with
                    | None => t_insert (columns_insert dbk raw now None SNull sd fid) s1
                    | Some r0 => columns_update (rowid r0) now None SNull sd fid s1
                    end in
          let '(s3, cl2) := cull c now pg s2 in
          (fs_remove s3 (cl2 ++ match upd with Some r0 => [rfile r0] | None => [] end), RVal (FVal (VInt value)) None SNull)
        end
      end in
    match incr_select dbk (b2z raw) (rows s) with
    | [] => fresh None
    | r0 :: _ =>
        if incr_expired (expire_time r0) now then fresh (Some r0)
        else match rvalue r0 with
             | SInt z =>
                 let value := z + delta in
                 if in_int64 value
                 then (t_update (fun r => rowid r =? rowid r0) (incr_update (c_policy c) now (SInt value) (rowid r0)) s,
                       RVal (FVal (VInt value)) None SNull)
                 else (s, RRaise EOverflow)
             | _ => (s, RRaise ETypeError)
             end
    end
  end.

(* ------------------------------------------------------------------ get / contains / pop / delete *)
Definition fetch_row (c : cfg) (s : st) (r : row) (read : bool) : fetched :=
  fetch (c_codec c) (rmode r) (fs_lookup s (rfile r)) (rvalue r) read.

Definition bump (s : st) (hit : bool) : st :=
  if statistics s
  then (if hit then set_stats s (n_hits s + stats_hit_increment) (n_misses s) true
        else set_stats s (n_hits s) (n_misses s + stats_miss_increment) true)
  else s.

Definition op_get (c : cfg) (s : st) (k : pyval) (read : bool) (now : Z) : st * result :=
  match put (c_codec c) k with
  | PutRaise => (s, RRaise EBind)
  | PutOk dbk raw =>
    let upd := if policy_has_get (c_policy c) then Some tt else None in
    if get_fast_path (statistics s) upd
    then match get_select dbk (b2z raw) now (rows s) with
         | [] => (s, RDefault)
         | r0 :: _ => match fetch_row c s r0 read with
                      | FIOError => (s, RDefault)
                      | v => (s, RVal v (expire_time r0) (rtag r0))
                      end
         end
    else match get_select dbk (b2z raw) now (rows s) with
         | [] => (bump s false, RDefault)
         | r0 :: _ => match fetch_row c s r0 read with
                      | FIOError => (bump s false, RDefault)
                      | v =>
                          let s1 := bump s true in
                          let s2 := if policy_has_get (c_policy c)
                                    then t_update (fun r => rowid r =? rowid r0) (policy_get_update (c_policy c) now (rowid r0)) s1
                                    else s1 in
                          (s2, RVal v (expire_time r0) (rtag r0))
                      end
         end
  end.

Definition op_contains (c : cfg) (s : st) (k : pyval) (now : Z) : st * result :=
  match put (c_codec c) k with
  | PutRaise => (s, RRaise EBind)
  | PutOk dbk raw => (s, RBool (negb (is_nil (contains_select dbk (b2z raw) now (rows s)))))
  end.

Definition op_pop (c : cfg) (s : st) (k : pyval) (now : Z) : st * result :=
  match put (c_codec c) k with
  | PutRaise => (s, RRaise EBind)
  | PutOk dbk raw =>
    match pop_select dbk (b2z raw) now (rows s) with
    | [] => (s, RDefault)
    | r0 :: _ =>
        let s1 := t_delete (pop_delete (rowid r0) (rows s)) s in
        let v := fetch_row c s1 r0 false in
        let s2 := fs_remove s1 [rfile r0] in
        match v with
        | FIOError => (s2, RDefault)
        | _ => (s2, RVal v (expire_time r0) (rtag r0))
        end
    end
  end.

(* delitem = true: __delitem__ (KeyError); false: delete (returns False) *)
Definition op_delete (c : cfg) (s : st) (k : pyval) (delitem : bool) (now : Z) : st * result :=
  match put (c_codec c) k with
  | PutRaise => (s, RRaise EBind)
  | PutOk dbk raw =>
    match del_select dbk (b2z raw) now (rows s) with
    | [] => (s, if delitem then RRaise EKeyError else RBool false)
    | r0 :: _ =>
        let s1 := t_delete (del_delete (rowid r0) (rows s)) s in
        (fs_remove s1 [rfile r0], RBool true)
    end
  end.

(* ------------------------------------------------------------------ queues *)
Inductive side := Back | Front.

(* decimal digits, most significant first, zero-padded to n digits (n <= 20 is all we need) *)
Fixpoint digits_pad (n : nat) (z : Z) : list Z :=
  match n with O => [] | S n' => digits_pad n' (z / 10) ++ [48 + z mod 10] end.
Fixpoint parse_digits (acc : Z) (l : list Z) : Z :=
  match l with [] => acc | d :: r => parse_digits (acc * 10 + (d - 48)) r end.
(* the characters after the last '-' *)
Fixpoint after_last_dash (l cur : list Z) : list Z :=
  match l with [] => cur | 45 :: r => after_last_dash r r | _ :: r => after_last_dash r cur end.

Definition qkey_min (prefix : option (list Z)) : sqlval :=
  match prefix with None => SInt push_min_key | Some p => SText (p ++ push_smin) end.
Definition qkey_max (prefix : option (list Z)) : sqlval :=
  match prefix with None => SInt push_max_key | Some p => SText (p ++ push_smax) end.
Definition qkey_num (prefix : option (list Z)) (k : sqlval) : Z :=
  match prefix, k with
  | None, SInt z => z
  | Some _, SText t => parse_digits 0 (after_last_dash t t)
  | _, _ => 0
  end.
Definition qkey_make (prefix : option (list Z)) (num : Z) : sqlval :=
  match prefix with
  | None => SInt num
  | Some p => SText (p ++ [45] ++ digits_pad (Z.to_nat push_key_digits) num)
  end.

Definition op_push (c : cfg) (s : st) (v : pyval) (read : bool) (prefix : option (list Z)) (sd_ : side)
           (expire : option Z) (tag : sqlval) (now pg : Z) : st * result :=
  match store (c_codec c) (c_min_file_size c) v read with
  | StRaise => (s, RRaise EStore)
  | StOk sd =>
    let '(s1, fid) := fs_write s (s_file sd) in
    let found := match sd_ with
                 | Back => push_select_back (qkey_min prefix) (qkey_max prefix) 1 (rows s1)
                 | Front => push_select_front (qkey_min prefix) (qkey_max prefix) 1 (rows s1)
                 end in
    let num := match found with
               | r0 :: _ => match sd_ with Back => qkey_num prefix (rkey r0) + 1 | Front => qkey_num prefix (rkey r0) - 1 end
               | [] => push_start
               end in
    let dbk := qkey_make prefix num in
    let s2 := t_insert (columns_insert dbk true now (expire_at now expire) tag sd fid) s1 in
    let '(s3, cl2) := cull c now pg s2 in
    (fs_remove s3 cl2, RKey dbk)
  end.

Definition pull_select (sd_ : side) (prefix : option (list Z)) (t : list row) : list row :=
  match sd_ with
  | Front => pull_select_front (qkey_min prefix) (qkey_max prefix) t
  | Back => pull_select_back (qkey_min prefix) (qkey_max prefix) t
  end.
Definition peek_select (sd_ : side) (prefix : option (list Z)) (t : list row) : list row :=
  match sd_ with
  | Front => peek_select_front (qkey_min prefix) (qkey_max prefix) t
  | Back => peek_select_back (qkey_min prefix) (qkey_max prefix) t
  end.

Fixpoint op_pull_loop (fuel : nat) (c : cfg) (s : st) (prefix : option (list Z)) (sd_ : side) (now : Z) : st * result :=
  match fuel with
  | O => (s, RRaise EOutOfFuel)
  | S f =>
    match pull_select sd_ prefix (rows s) with
    | [] => (s, RDefault)
    | r0 :: _ =>
        let s1 := t_delete (pull_delete (rowid r0) (rows s)) s in
        if pull_expired (expire_time r0) now
        then op_pull_loop f c (fs_remove s1 [rfile r0]) prefix sd_ now
        else let v := fetch_row c s1 r0 false in
             let s2 := fs_remove s1 [rfile r0] in
             match v with
             | FIOError => op_pull_loop f c s2 prefix sd_ now
             | _ => (s2, RKV (rkey r0) (rraw r0) v (expire_time r0) (rtag r0))
             end
    end
  end.
Definition op_pull (c : cfg) (s : st) prefix sd_ now := op_pull_loop (S (length (rows s))) c s prefix sd_ now.

Fixpoint op_peek_loop (fuel : nat) (c : cfg) (s : st) (prefix : option (list Z)) (sd_ : side) (now : Z) : st * result :=
  match fuel with
  | O => (s, RRaise EOutOfFuel)
  | S f =>
    match peek_select sd_ prefix (rows s) with
    | [] => (s, RDefault)
    | r0 :: _ =>
        if peek_expired (expire_time r0) now
        then op_peek_loop f c (fs_remove (t_delete (peek_delete (rowid r0) (rows s)) s) [rfile r0]) prefix sd_ now
        else match fetch_row c s r0 false with
             | FIOError => (s, RRaise EOutOfFuel)      (* the code would retry forever: row without file *)
             | v => (s, RKV (rkey r0) (rraw r0) v (expire_time r0) (rtag r0))
             end
    end
  end.
Definition op_peek (c : cfg) (s : st) prefix sd_ now := op_peek_loop (S (length (rows s))) c s prefix sd_ now.

Fixpoint op_peekitem_loop (fuel : nat) (c : cfg) (s : st) (last : bool) (now : Z) : st * result :=
  match fuel with
  | O => (s, RRaise EOutOfFuel)
  | S f =>
    match (if last then peekitem_select_last (rows s) else peekitem_select_first (rows s)) with
    | [] => (s, RRaise EEmpty)
    | r0 :: _ =>
        if peekitem_expired (expire_time r0) now
        then op_peekitem_loop f c (fs_remove (t_delete (peekitem_delete (rowid r0) (rows s)) s) [rfile r0]) last now
        else match fetch_row c s r0 false with
             | FIOError => (s, RRaise EOutOfFuel)
             | v => (s, RKV (rkey r0) (rraw r0) v (expire_time r0) (rtag r0))
             end
    end
  end.
Definition op_peekitem (c : cfg) (s : st) last now := op_peekitem_loop (S (length (rows s))) c s last now.

(* ------------------------------------------------------------------ bulk removal (_select_delete) *)
Definition dummy_row : row :=
  {| rowid := 0; rkey := SNull; rraw := false; store_time := 0; expire_time := None; access_time := 0;
     access_count := 0; rtag := SNull; rsize := 0; rmode := 0; rfile := None; rvalue := SNull |}.

(* sel bound t = the page selected with the current lower bound; next r = the new bound taken from the
   last row of the page (args[arg_index] = row[row_index]); each page is its own transaction, its files
   are removed after its commit *)
Fixpoint select_delete (fuel : nat) (sel : Z -> list row -> list row) (next : row -> Z) (bound : Z) (s : st) (count : Z)
  : st * result :=
  match fuel with
  | O => (s, RRaise EOutOfFuel)
  | S f =>
    match sel bound (rows s) with
    | [] => (s, RInt count)
    | pg =>
        let s1 := t_delete (select_delete_delete (map rowid pg) (rows s)) s in
        let s2 := fs_remove s1 (map rfile pg) in
        select_delete f sel next (next (last pg dummy_row)) s2 (count + Z.of_nat (length pg))
    end
  end.

Definition time_or_zero (o : option Z) : Z := match o with Some t => t | None => 0 end.

Definition op_evict (s : st) (tag : sqlval) : st * result :=
  select_delete (S (length (rows s))) (fun b t => evict_select tag b evict_page t) rowid 0 s 0.
Definition op_expire (s : st) (now : Z) : st * result :=
  select_delete (S (length (rows s))) (fun b t => expire_select b now expire_page t)
                (fun r => time_or_zero (expire_time r)) 0 s 0.
Definition op_clear (s : st) : st * result :=
  select_delete (S (length (rows s))) (fun b t => clear_select b clear_page t) rowid 0 s 0.

(* cull(): expire(now), then pages in policy order while volume() > size_limit; vols = the page part of
   volume() at each evaluation of the loop test (oracle recorded from the implementation) *)
Fixpoint cull_loop (fuel : nat) (c : cfg) (vols : list Z) (s : st) (count : Z) : st * result :=
  match fuel with
  | O => (s, RRaise EOutOfFuel)
  | S f =>
    if cull_over_limit (volume (hd_vol vols) s) (c_size_limit c)
    then match policy_cull_select (c_policy c) cull_page (rows s) with
         | [] => (s, RInt count)
         | pg =>
             let s1 := t_delete (policy_cullall_delete (c_policy c) cull_page_delete (rows s)) s in
             cull_loop f c (tl vols) (fs_remove s1 (map rfile pg)) (count + Z.of_nat (length pg))
         end
    else (s, RInt count)
  end.

Definition op_cull (c : cfg) (s : st) (now : Z) (vols : list Z) : st * result :=
  match op_expire s now with
  | (s1, RInt n) =>
      if policy_has_cull (c_policy c)
      then cull_loop (S (length (rows s1))) c vols s1 n
      else (s1, RInt (if cull_none_returns_count then n else 0))
  | (s1, r) => (s1, r)
  end.

(* ------------------------------------------------------------------ iteration *)
Definition keys_of (t : list row) : list (sqlval * bool) := map (fun r => (rkey r, rraw r)) t.

Fixpoint iter_loop (fuel : nat) (asc : bool) (pos bound : Z) (t : list row) : list row :=
  match fuel with
  | O => []
  | S f =>
    let pg := if asc then iter_select_asc pos bound iter_page t else iter_select_desc 0 pos iter_page t in
    match pg with
    | [] => []
    | _ => pg ++ iter_loop f asc (rowid (last pg dummy_row)) bound t
    end
  end.
Definition op_iter (s : st) (asc : bool) : st * result :=
  match iter_max (rows s) with
  | None => (s, RKeys [])
  | Some m => let bound := m + 1 in
              (s, RKeys (keys_of (iter_loop (S (length (rows s))) asc (if asc then 0 else bound) bound (rows s))))
  end.

Fixpoint iterkeys_loop (fuel : nat) (rev : bool) (k : sqlval) (raw : bool) (t : list row) : list row :=
  match fuel with
  | O => []
  | S f =>
    let pg := if rev then iterkeys_iter_desc k (b2z raw) k iterkeys_page t else iterkeys_iter_asc k (b2z raw) k iterkeys_page t in
    match pg with
    | [] => []
    | _ => let l := last pg dummy_row in pg ++ iterkeys_loop f rev (rkey l) (rraw l) t
    end
  end.
Definition op_iterkeys (s : st) (rev : bool) : st * result :=
  match (if rev then iterkeys_first_desc (rows s) else iterkeys_first_asc (rows s)) with
  | [] => (s, RKeys [])
  | r0 :: _ => (s, RKeys (keys_of (r0 :: iterkeys_loop (S (length (rows s))) rev (rkey r0) (rraw r0) (rows s))))
  end.

(* ------------------------------------------------------------------ counters *)
Definition op_len (s : st) : st * result := (s, RInt (n_count s)).
Definition op_stats (s : st) (enable reset : bool) : st * result :=
  let r := RStats (n_hits s) (n_misses s) in
  (set_stats s (if reset then 0 else n_hits s) (if reset then 0 else n_misses s) enable, r).

(* ------------------------------------------------------------------ one API call *)
Inductive op :=
| OSet (k v : pyval) (read : bool) (expire : option Z) (tag : sqlval)
| OAdd (k v : pyval) (read : bool) (expire : option Z) (tag : sqlval)
| OTouch (k : pyval) (expire : option Z)
| OIncr (k : pyval) (delta : Z) (default : option Z)
| OGet (k : pyval) (read : bool)
| OContains (k : pyval)
| OPop (k : pyval)
| ODelete (k : pyval) (delitem : bool)
| OPush (v : pyval) (read : bool) (prefix : option (list Z)) (sd : side) (expire : option Z) (tag : sqlval)
| OPull (prefix : option (list Z)) (sd : side)
| OPeek (prefix : option (list Z)) (sd : side)
| OPeekitem (last : bool)
| OEvict (tag : sqlval)
| OExpire
| OCull
| OClear
| OLen
| OIter (asc : bool)
| OIterkeys (rev : bool)
| OStats (enable reset : bool).

(* now: the clock (frozen during the call); vols: page part of volume() at each call of volume() *)
Definition step (c : cfg) (s : st) (o : op) (now : Z) (vols : list Z) : st * result :=
  match o with
  | OSet k v read e tag => op_set c s k v read e tag now (hd_vol vols)
  | OAdd k v read e tag => op_add c s k v read e tag now (hd_vol vols)
  | OTouch k e => op_touch c s k e now
  | OIncr k d df => op_incr c s k d df now (hd_vol vols)
  | OGet k read => op_get c s k read now
  | OContains k => op_contains c s k now
  | OPop k => op_pop c s k now
  | ODelete k di => op_delete c s k di now
  | OPush v read p sd e tag => op_push c s v read p sd e tag now (hd_vol vols)
  | OPull p sd => op_pull c s p sd now
  | OPeek p sd => op_peek c s p sd now
  | OPeekitem l => op_peekitem c s l now
  | OEvict tag => op_evict s tag
  | OExpire => op_expire s now
  | OCull => op_cull c s now vols
  | OClear => op_clear s
  | OLen => op_len s
  | OIter a => op_iter s a
  | OIterkeys r => op_iterkeys s r
  | OStats e r => op_stats s e r
  end.
