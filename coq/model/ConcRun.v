(* Schedule correspondence (DESIGN.md 4.2, driver 1): the micro-step machine of model/Conc.v, instantiated
   with the real transaction bodies (model/Txn.v), is driven by the SAME schedule the instrumented
   implementation ran under.  The harness hands over, in the global order of the scheduler log, the
   (client, tag) of every visible event of the implementation; `feed` makes the client take its silent
   moves, requires that the machine's next visible step of that client carries the same tag (so the lock
   is free or busy exactly when SQLite said so, a file is removed exactly when the implementation removed
   one, ...) and takes it.  At the end every client must have finished with the outcomes the implementation
   returned, and the committed rows, counters and value files must be the ones observed on disk.
   proofs/ConcRunFacts.v: whatever `feed` reaches is reached by `exec` under some schedule, so every
   theorem about the machine speaks about these states.
   Executable definitions only. *)
From DC Require Import DCPrelude Val DiskBase SqlBase Gen_Disk Disk Gen_Sql Cache CacheRun Conc Txn TxnQueue.

Definition mconfig := config st result.
Definition mop := Conc.op st result.

(* the calls of Cache the instance covers *)
Definition compile (c : cfg) (retry : bool) (o : Cache.op) (now pg : Z) : option mop :=
  match o with
  | OSet k v rd e tag => Some (OWrite (w_set retry c k v rd e tag now pg))
  | OAdd k v rd e tag => Some (OWrite (w_add retry c k v rd e tag now pg))
  | ODelete k di => Some (OWrite (w_delete retry c k di now))
  | OPop k => Some (OWrite (w_pop retry c k now))
  | OTouch k e => Some (OWrite (w_touch retry c k e now))
  | OIncr k d df => if incr_inline c d df then Some (OWrite (w_incr retry c k d df now pg)) else None
  | OGet k rd => Some (ORead (r_get c k rd now))
  | OContains k => Some (ORead (r_contains c k now))
  (* the queue calls (model/TxnQueue.v): one transaction per call; an expired head, or a file-backed head under
     peek, makes the machine return the marker `outside`, which no observed result matches *)
  | OPush v rd p sd e tag => Some (OWrite (w_push retry c v rd p sd e tag now pg))
  | OPull p sd => Some (OWrite (w_pull retry c p sd now))
  | OPeek p sd => Some (OWrite (w_peek retry c p sd now))
  | _ => None
  end.

Record ccall := { cc_op : Cache.op; cc_retry : bool; cc_now : Z; cc_pg : Z }.

Fixpoint compile_all (c : cfg) (l : list ccall) : option (list mop) :=
  match l with
  | [] => Some []
  | x :: r =>
      match compile c (cc_retry x) (cc_op x) (cc_now x) (cc_pg x), compile_all c r with
      | Some o, Some os => Some (o :: os)
      | _, _ => None
      end
  end.

Fixpoint compile_progs (c : cfg) (l : list (list ccall)) : option (list (list mop)) :=
  match l with
  | [] => Some []
  | p :: r => match compile_all c p, compile_progs c r with
              | Some a, Some b => Some (a :: b)
              | _, _ => None
              end
  end.

Definition tag_eqb (a b : tag) : bool :=
  match a, b with
  | TCreate, TCreate | TClose, TClose | TBegin, TBegin | TBeginBusy, TBeginBusy | TBody, TBody
  | TEarlyRm, TEarlyRm | TCommit, TCommit | TRollback, TRollback | TRemove, TRemove | TFetchRead, TFetchRead
  | TSelect, TSelect | TOpenRead, TOpenRead | TReturn, TReturn | TNone, TNone => true
  | _, _ => false
  end.

(* client i takes its silent moves, then the visible step tagged t; None = the machine's next visible
   step of that client is a different one (or there is none) *)
Fixpoint visible (fuel : nat) (c : mconfig) (i : nat) (t : tag) : option mconfig :=
  match fuel with
  | O => None
  | S f =>
      let g := step_tag c i in
      if tag_eqb g t then cstep c i
      else if tag_eqb g TNone
           then match cstep c i with Some c' => visible f c' i t | None => None end
           else None
  end.

(* silent moves only, until the client's next step is visible or it has nothing to do *)
Fixpoint settle (fuel : nat) (c : mconfig) (i : nat) : mconfig :=
  match fuel with
  | O => c
  | S f =>
      if tag_eqb (step_tag c i) TNone
      then match cstep c i with Some c' => settle f c' i | None => c end
      else c
  end.

(* a client alone runs to the end of its program (setup phase) *)
Fixpoint solo (fuel : nat) (c : mconfig) (i : nat) : mconfig :=
  match fuel with
  | O => c
  | S f => match cstep c i with Some c' => solo f c' i | None => c end
  end.

Definition SILENT_FUEL : nat := 8.

(* index of the first event the machine cannot follow, or None with the configuration reached *)
Fixpoint feed (c : mconfig) (n : Z) (l : list (nat * tag)) : mconfig + Z :=
  match l with
  | [] => inl c
  | (i, t) :: r =>
      match visible SILENT_FUEL c i t with
      | Some c' => feed c' (n + 1) r
      | None => inr n
      end
  end.

Fixpoint settle_all (c : mconfig) (n : nat) : mconfig :=
  match n with
  | O => c
  | S k => settle SILENT_FUEL (settle_all c k) k
  end.

(* ------------------------------------------------------------------ what the implementation returned *)
Inductive seen := XRes (r : result) | XTimeout.

(* get / pop return the value only (no expire time, no tag asked for); pull / peek the key and the value *)
Definition res_matches (m got : result) : bool :=
  match m, got with
  | RVal v _ _, RVal v' _ _ => fetched_eqb v v'
  | RKV k _ v _ _, RKV k' _ v' _ _ => sql_same k k' && fetched_eqb v v'
  | _, _ => result_eqb m got
  end.
Definition outcome_matches (o : outcome result) (x : seen) : bool :=
  match o, x with
  | ORes r, XRes r' => res_matches r r'
  | OTimeout _, XTimeout => true
  | OFetchMiss _, XRes RDefault => true
  | _, _ => false
  end.

Fixpoint outcomes_match (l : list (outcome result)) (x : list seen) : bool :=
  match l, x with
  | [], [] => true
  | o :: l', s :: x' => outcome_matches o s && outcomes_match l' x'
  | _, _ => false
  end.

Definition finished (c : mconfig) (i : nat) : bool :=
  match c_pc (cl c i), c_todo (cl c i) with
  | Idle, [] => true
  | _, _ => false
  end.

(* ------------------------------------------------------------------ what is on disk afterwards *)
Definition fstate_done (s : fstate) : bool := match s with FDone => true | _ => false end.
Definition fstate_none (s : fstate) : bool := match s with FNone => true | _ => false end.

Fixpoint count_files (c : mconfig) (n : nat) : Z :=
  match n with
  | O => 0
  | S k => (if fstate_none (files c (Z.of_nat k)) then 0 else 1) + count_files c k
  end.

Definition disk_matches (c : mconfig) (o : obs) : bool :=
  let s := db c in
  rows_obs_eqb s (rows s) (o_rows o)
  && (n_count s =? o_count o) && (n_size s =? o_size o) && (n_hits s =? o_hits o) && (n_misses s =? o_misses o)
  && (count_files c (Z.to_nat (supply c)) =? o_nfiles o)
  && forallb (fun r => match rfile r with Some g => fstate_done (files c g) | None => true end) (rows s)
  && is_none (lock c).

(* ------------------------------------------------------------------ the whole check
   result code: -1 agreement; -2 a call outside the instance; n >= 0: the n-th event cannot be followed;
   -3 - i: client i did not finish with the observed outcomes; -100 the state on disk differs *)
Fixpoint clients_ok (c : mconfig) (seen_by : list (list seen)) (i : nat) : Z :=
  match seen_by with
  | [] => -1
  | x :: r =>
      if finished c i && outcomes_match (c_done (cl c i)) x then clients_ok c r (S i) else -3 - Z.of_nat i
  end.

Definition prog_fun (ps : list (list mop)) (setup : list mop) : nat -> list mop :=
  fun i => if Nat.eqb i (length ps) then setup else nth i ps [].

Definition sched_check (c : cfg) (s0 : st) (setup : list ccall) (progs : list (list ccall))
           (events : list (nat * tag)) (seen_by : list (list seen)) (final : obs) : Z :=
  match compile_all c setup, compile_progs c progs with
  | Some su, Some ps =>
      let n := length ps in
      let c0 := init_config s0 (prog_fun ps su) in
      let c1 := solo (20 * S (length su)) c0 n in
      if negb (finished c1 n) then -2
      else match feed c1 0 events with
           | inr k => k
           | inl c2 =>
               let c3 := settle_all c2 n in
               let r := clients_ok c3 seen_by 0 in
               if r =? -1 then (if disk_matches c3 final then -1 else -100) else r
           end
  | _, _ => -2
  end.

(* ------------------------------------------------------------------ a client killed at an event boundary
   One client (number 0) runs `prog`; `events` are the visible tags of everything it executed before the
   kill.  The machine follows them, takes the client's silent moves (a call whose last event has executed has
   returned), applies `crash`, and must then agree with what the parent process found: the outcomes of the
   calls that had returned, and the rows, counters and files (partial ones included) on disk.
   result: -1 agreement; -2 outside the instance; n >= 0 the n-th event cannot be followed;
   -3 the outcomes of the finished calls differ; -100 the disk differs.
   inflight: a call had started and not returned.  Its last visible step may already have executed (what
   remained were steps invisible to the machine, e.g. pruning an empty directory): the machine then counts it
   as returned, the parent process does not. *)
Definition outcomes_match_upto (l : list (outcome result)) (x : list seen) (inflight : bool) : bool :=
  outcomes_match l x || (inflight && outcomes_match (removelast l) x && negb (is_nil l)).

Definition crash_check (c : cfg) (s0 : st) (setup prog : list ccall) (events : list (nat * tag))
           (seen0 : list seen) (inflight : bool) (final : obs) : Z :=
  match compile_all c setup, compile_all c prog with
  | Some su, Some p =>
      let c0 := init_config s0 (prog_fun [p] su) in
      let c1 := solo (20 * S (length su)) c0 1 in
      if negb (finished c1 1) then -2
      else match feed c1 0 events with
           | inr k => k
           | inl c2 =>
               let c3 := crash (settle SILENT_FUEL c2 0) 0 in
               if outcomes_match_upto (c_done (cl c3 0)) seen0 inflight
               then (if disk_matches c3 final then -1 else -100)
               else -3
           end
  | _, _ => -2
  end.

(* ------------------------------------------------------------------ the harness's reference dictionary
   The verdicts of the linearizability monitors (C05, C06, C07, C11) are computed against a small reference
   dictionary written in Python from the property text (harness/props/c05.py RefCache).  `seq_check` runs the
   same program through the machine with one client (no interleaving) and compares the outcomes with the
   reference's: the reference is tied to the model the theorems are about (and which `call_run_is_step`
   identifies with the sequential model validated against the implementation).
   -1 agreement; -2 outside the instance; -3 the outcomes differ *)
Definition seq_check (c : cfg) (prog : list ccall) (seen0 : list seen) : Z :=
  match compile_all c prog with
  | Some p =>
      let c1 := solo (20 * S (length p)) (init_config init_st (prog_fun [] p)) 0 in
      if finished c1 0 && outcomes_match (c_done (cl c1 0)) seen0 then -1 else -3
  | None => -2
  end.

(* ------------------------------------------------------------------ programs with transaction blocks (one client)
   A block `with cache.transact(): x1; ...; xn; [raise]` is the single machine call w_block of model/TxnBlock.v.  The
   harness hands over the visible events of the whole block as those of one call (BEGIN, the body, the early
   removals of the inner calls, COMMIT / ROLLBACK) and, as its outcome, the result of its last inner call.
   Because inner calls release files before the commit decision, a row may end up referring to a file that is gone
   (findings C06-F1/F2): the comparison with the disk therefore asks, row by row, that the file exists in the
   directory exactly when the machine says so, and compares contents only then. *)
From DC Require Import TxnBlock.

Inductive bitem := BI (x : ccall) | BB (retry : bool) (xs : list ccall) (raises : bool).

Fixpoint inner_wops (c : cfg) (xs : list ccall) : option (list cwop) :=
  match xs with
  | [] => Some []
  | x :: r =>
      match compile c (cc_retry x) (cc_op x) (cc_now x) (cc_pg x), inner_wops c r with
      | Some (OWrite w), Some ws => if w_store w then None else Some (w :: ws)
      | Some (ORead _), Some ws => Some ws
      | _, _ => None
      end
  end.

Definition compile_bitem (c : cfg) (b : bitem) : option mop :=
  match b with
  | BI x => compile c (cc_retry x) (cc_op x) (cc_now x) (cc_pg x)
  | BB retry xs raises => match inner_wops c xs with Some ws => Some (OWrite (w_block retry ws raises)) | None => None end
  end.

Fixpoint compile_bitems (c : cfg) (l : list bitem) : option (list mop) :=
  match l with
  | [] => Some []
  | b :: r => match compile_bitem c b, compile_bitems c r with
              | Some o, Some os => Some (o :: os)
              | _, _ => None
              end
  end.

Definition row_disk_eqb (c : mconfig) (r : row) (o : row * option fcontent) : bool :=
  let '(x, fc) := o in
  (rowid r =? rowid x) && sql_same (rkey r) (rkey x) && Bool.eqb (rraw r) (rraw x)
  && (store_time r =? store_time x) && optz_eqb (expire_time r) (expire_time x)
  && (access_time r =? access_time x) && (access_count r =? access_count x)
  && sql_same (rtag r) (rtag x) && (rsize r =? rsize x) && (rmode r =? rmode x)
  && Bool.eqb (is_some (rfile r)) (is_some (rfile x)) && sql_same (rvalue r) (rvalue x)
  && match rfile r with
     | None => is_none fc
     | Some g => if fstate_done (files c g) then fcontent_eqb (fs_lookup (db c) (rfile r)) fc else is_none fc
     end.
Fixpoint rows_disk_eqb (c : mconfig) (t : list row) (l : list (row * option fcontent)) : bool :=
  match t, l with
  | [], [] => true
  | r :: t', o :: l' => row_disk_eqb c r o && rows_disk_eqb c t' l'
  | _, _ => false
  end.
Definition disk_matches_b (c : mconfig) (o : obs) : bool :=
  let s := db c in
  rows_disk_eqb c (rows s) (o_rows o)
  && (n_count s =? o_count o) && (n_size s =? o_size o) && (n_hits s =? o_hits o) && (n_misses s =? o_misses o)
  && (count_files c (Z.to_nat (supply c)) =? o_nfiles o)
  && is_none (lock c).

(* -1 agreement; -2 outside the instance; n >= 0 the n-th event cannot be followed; -3 outcomes differ; -100 disk differs *)
Definition block_check (c : cfg) (s0 : st) (setup : list ccall) (prog : list bitem) (events : list (nat * tag))
           (seen0 : list seen) (final : obs) : Z :=
  match compile_all c setup, compile_bitems c prog with
  | Some su, Some p =>
      let c0 := init_config s0 (prog_fun [p] su) in
      let c1 := solo (20 * S (length su)) c0 1 in
      if negb (finished c1 1) then -2
      else match feed c1 0 events with
           | inr k => k
           | inl c2 =>
               let c3 := settle SILENT_FUEL c2 0 in
               if finished c3 0 && outcomes_match (c_done (cl c3 0)) seen0
               then (if disk_matches_b c3 final then -1 else -100)
               else -3
           end
  | _, _ => -2
  end.
