(* Atomic-layer model of recipes.py: Lock, RLock, BoundedSemaphore, barrier, Averager, throttle.
   Executable definitions only (no proofs here).

   Shared state = the single cache key of the recipe, `option V`.  One step of a client = one atomic
   Cache operation on that key, or one `with cache.transact(retry=True):` block (ASSUMPTION: each is
   atomic and isolated -- properties C05/C06 -- and nobody else touches the key, it has no ttl and is
   not evicted).  A schedule is a list of client ids; `run` folds the step function over it.  The
   number of clients is the length of a list: theorems quantify over it.

   Every guard, stored value, default and cache-method name is a call into gen/Gen_Recipes.v. *)
From Coq Require Import QArith.
From DC Require Import DCPrelude RecipesBase Gen_Recipes.
Local Open Scope Z_scope.

(* ------------------------------------------------------------------------------------------ *)
(* Contenders of a lock-like recipe                                                            *)

Inductive op := OAcq | ORel | OWork | OProbe.
(* what one atomic step did *)
Inductive ev := EAcqOk | EAcqFail | ERelOk | ERelRefused | EWork | EProbe (b : bool).

(* remaining program; held = successful acquires minus successful releases so far *)
Record client := { prog : list op; held : Z }.

Fixpoint upd {A} (n : nat) (x : A) (l : list A) : list A :=
  match l, n with
  | [], _ => []
  | _ :: r, O => x :: r
  | y :: r, S n' => y :: upd n' x r
  end.

Section Machine.
  Variable St : Type.
  (* one acquire attempt / one release call by the client with identity `me`:
     Some s' = succeeded leaving s';  None = attempt failed (acquire) / refused (release), state unchanged *)
  Variable acq : Z -> St -> option St.
  Variable rel : Z -> St -> option St.
  Variable probe : St -> bool.

  Record config := { shared : St; clients : list client; trace : list (nat * ev) (* newest first *) }.

  Definition step (cfg : config) (c : nat) : config :=
    match nth_error (clients cfg) c with
    | None => cfg
    | Some cl =>
        match prog cl with
        | [] => cfg
        | o :: rest =>
            let me := Z.of_nat c in
            match o with
            | OAcq =>
                match acq me (shared cfg) with
                | Some s' => {| shared := s'; clients := upd c {| prog := rest; held := held cl + 1 |} (clients cfg);
                                trace := (c, EAcqOk) :: trace cfg |}
                | None => {| shared := shared cfg; clients := clients cfg; trace := (c, EAcqFail) :: trace cfg |}
                end       (* spin: the same attempt is made again at the client's next step *)
            | ORel =>
                match rel me (shared cfg) with
                | Some s' => {| shared := s'; clients := upd c {| prog := rest; held := held cl - 1 |} (clients cfg);
                                trace := (c, ERelOk) :: trace cfg |}
                | None => {| shared := shared cfg; clients := upd c {| prog := rest; held := held cl |} (clients cfg);
                             trace := (c, ERelRefused) :: trace cfg |}
                end       (* AssertionError: nothing written (ROLLBACK); the caller goes on *)
            | OWork => {| shared := shared cfg; clients := upd c {| prog := rest; held := held cl |} (clients cfg);
                          trace := (c, EWork) :: trace cfg |}
            | OProbe => {| shared := shared cfg; clients := upd c {| prog := rest; held := held cl |} (clients cfg);
                           trace := (c, EProbe (probe (shared cfg))) :: trace cfg |}
            end
        end
    end.

  Definition run (sched : list nat) (cfg : config) : config := fold_left step sched cfg.

  Definition init (s0 : St) (progs : list (list op)) : config :=
    {| shared := s0; clients := map (fun p => {| prog := p; held := 0 |}) progs; trace := [] |}.
End Machine.

Arguments shared {St}. Arguments clients {St}. Arguments trace {St}.

(* number of clients inside their critical section; total number of acquisitions held *)
Definition in_cs (cl : client) : bool := 0 <? held cl.
Definition holders (l : list client) : Z := Z.of_nat (length (filter in_cs l)).
Definition sum_held (l : list client) : Z := sumZ (map held l).
Definition in_work (cl : client) : bool := match prog cl with OWork :: _ => true | _ => false end.
Definition working (l : list client) : Z := Z.of_nat (length (filter in_work l)).

(* Discipline of a program: release and the protected work only while holding (balance h > 0). *)
Fixpoint bracketed (h : Z) (p : list op) : bool :=
  match p with
  | [] => true
  | OAcq :: r => bracketed (h + 1) r
  | ORel :: r => (0 <? h) && bracketed (h - 1) r
  | OWork :: r => (0 <? h) && bracketed h r
  | OProbe :: r => bracketed h r
  end.
(* release only while holding; work anywhere *)
Fixpoint balanced (h : Z) (p : list op) : bool :=
  match p with
  | [] => true
  | OAcq :: r => balanced (h + 1) r
  | ORel :: r => (0 <? h) && balanced (h - 1) r
  | _ :: r => balanced h r
  end.

(* ---- Lock: key present = held ---- *)
Definition lock_state := option unit.
Definition lock_acq (me : Z) (s : lock_state) : option lock_state :=
  let '(s', added) := k_store lock_acquire_op tt s in if added then Some s' else None.
Definition lock_rel (me : Z) (s : lock_state) : option lock_state := Some (k_remove lock_release_op s).
Definition lock_probe (s : lock_state) : bool :=
  match lock_locked_op with OpContains => k_contains s | _ => false end.

(* ---- RLock: (owner, count) ---- *)
Definition rlock_state := option (option Z * Z).
Definition rlock_acq (me : Z) (s : rlock_state) : option rlock_state :=
  let '(value, count) := k_get rlock_acquire_default s in
  if rlock_acquire_guard me value count then Some (Some (rlock_acquire_store me value count)) else None.
Definition rlock_rel (me : Z) (s : rlock_state) : option rlock_state :=
  let '(value, count) := k_get rlock_release_default s in
  if rlock_release_guard me value count then Some (Some (rlock_release_store me value count)) else None.
Definition rlock_probe (s : rlock_state) : bool := 0 <? snd (k_get rlock_acquire_default s).
Definition rlock_owner (s : rlock_state) : option Z := fst (k_get rlock_acquire_default s).
Definition rlock_count (s : rlock_state) : Z := snd (k_get rlock_acquire_default s).

(* ---- BoundedSemaphore: remaining permits; v0 = the configured value ---- *)
Definition sem_state := option Z.
Definition sem_acq (v0 : Z) (me : Z) (s : sem_state) : option sem_state :=
  let value := k_get (sem_acquire_default v0) s in
  if sem_acquire_guard v0 value then Some (Some (sem_acquire_store v0 value)) else None.
Definition sem_rel (v0 : Z) (me : Z) (s : sem_state) : option sem_state :=
  let value := k_get (sem_release_default v0) s in
  if sem_release_guard v0 value then Some (Some (sem_release_store v0 value)) else None.
Definition sem_permits (v0 : Z) (s : sem_state) : Z := k_get (sem_acquire_default v0) s.
Definition sem_probe (v0 : Z) (s : sem_state) : bool := sem_permits v0 s <? v0.

(* ---- barrier: n calls of the wrapped function ---- *)
Definition bstep_op (b : bstep) : op := match b with BEnter => OAcq | BCall => OWork | BExit => ORel end.
Definition barrier_call : list op := map bstep_op barrier_wrapper.
Fixpoint barrier_calls (n : nat) : list op :=
  match n with O => [] | S n' => barrier_call ++ barrier_calls n' end.

(* ---- comparing a model run with what the implementation did (used by the harness) ---- *)
Definition ev_eqb (a b : ev) : bool :=
  match a, b with
  | EAcqOk, EAcqOk | EAcqFail, EAcqFail | ERelOk, ERelOk | ERelRefused, ERelRefused | EWork, EWork => true
  | EProbe x, EProbe y => Bool.eqb x y
  | _, _ => false
  end.
Definition step_eqb (a b : nat * ev) : bool := Nat.eqb (fst a) (fst b) && ev_eqb (snd a) (snd b).
Definition all_done (l : list client) : bool := forallb (fun cl => is_nil (prog cl)) l.

Definition lock_state_eqb (a b : lock_state) : bool := Bool.eqb (is_some a) (is_some b).
Definition rlock_state_eqb (a b : rlock_state) : bool :=
  option_eqb (fun x y => optZ_eqb (fst x) (fst y) && (snd x =? snd y)) a b.
Definition sem_state_eqb (a b : sem_state) : bool := optZ_eqb a b.

Definition check_run {St} (acq rel : Z -> St -> option St) (probe : St -> bool) (eqb : St -> St -> bool)
           (s0 : St) (progs : list (list op)) (sched : list nat)
           (want_trace : list (nat * ev)) (want_final : St) (want_held : list Z) : bool :=
  let cfg := run St acq rel probe sched (init St s0 progs) in
  list_eqb step_eqb (rev (trace cfg)) want_trace && eqb (shared cfg) want_final
  && list_eqb Z.eqb (map held (clients cfg)) want_held.

Definition check_lock := check_run lock_acq lock_rel lock_probe lock_state_eqb None.
Definition check_rlock := check_run rlock_acq rlock_rel rlock_probe rlock_state_eqb None.
Definition check_sem (v0 : Z) := check_run (sem_acq v0) (sem_rel v0) (sem_probe v0) sem_state_eqb None.

(* maximum over the run of the number of clients in their critical section / of acquisitions held *)
Fixpoint max_over {St} (acq rel : Z -> St -> option St) (probe : St -> bool) (f : list client -> Z)
         (sched : list nat) (cfg : config St) : Z :=
  match sched with
  | [] => f (clients cfg)
  | c :: r => Z.max (f (clients cfg)) (max_over acq rel probe f r (step St acq rel probe cfg c))
  end.

(* ------------------------------------------------------------------------------------------ *)
(* Averager                                                                                     *)

Inductive aop := AAdd (v : Z) | AGet | APop.
(* a mean is reported as the pair (total, count), meaning total/count; None = Python None *)
Inductive aev := AAdded | AGot (r : option (Z * Z)) | APopped (r : option (Z * Z)).

Definition avg_state := option (Z * Z).
Record aconfig := { a_shared : avg_state; a_clients : list (list aop);
                    a_ledger : list Z;   (* GHOST: values of the adds completed since the last pop, newest first *)
                    a_trace : list (nat * aev) }.

Definition avg_report (none : Z -> Z -> bool) (tc : Z * Z) : option (Z * Z) :=
  if none (fst tc) (snd tc) then None else Some tc.

(* add: one transact block *)
Definition avg_add (v : Z) (s : avg_state) : avg_state :=
  let '(total, count) := k_get avg_add_default s in Some (avg_add_store v total count).
Definition avg_get (s : avg_state) : option (Z * Z) * avg_state :=
  let '(tc, s') := k_read avg_get_op avg_get_default s in (avg_report avg_get_none tc, s').
Definition avg_pop (s : avg_state) : option (Z * Z) * avg_state :=
  let '(tc, s') := k_read avg_pop_op avg_pop_default s in (avg_report avg_pop_none tc, s').

Definition astep (cfg : aconfig) (c : nat) : aconfig :=
  match nth_error (a_clients cfg) c with
  | None => cfg
  | Some [] => cfg
  | Some (o :: rest) =>
      let cls := upd c rest (a_clients cfg) in
      match o with
      | AAdd v => {| a_shared := avg_add v (a_shared cfg); a_clients := cls; a_ledger := v :: a_ledger cfg;
                     a_trace := (c, AAdded) :: a_trace cfg |}
      | AGet => let '(r, s') := avg_get (a_shared cfg) in
                {| a_shared := s'; a_clients := cls; a_ledger := a_ledger cfg; a_trace := (c, AGot r) :: a_trace cfg |}
      | APop => let '(r, s') := avg_pop (a_shared cfg) in
                {| a_shared := s'; a_clients := cls; a_ledger := []; a_trace := (c, APopped r) :: a_trace cfg |}
      end
  end.

Definition arun (sched : list nat) (cfg : aconfig) : aconfig := fold_left astep sched cfg.
Definition ainit (progs : list (list aop)) : aconfig :=
  {| a_shared := None; a_clients := progs; a_ledger := []; a_trace := [] |}.

(* the mean of a ledger, as (total, count) *)
Definition ledger_mean (l : list Z) : option (Z * Z) :=
  match l with [] => None | _ => Some (sumZ l, Z.of_nat (length l)) end.

Definition optpair_eqb (a b : option (Z * Z)) : bool :=
  option_eqb (fun x y => (fst x =? fst y) && (snd x =? snd y)) a b.
Definition aev_eqb (a b : aev) : bool :=
  match a, b with
  | AAdded, AAdded => true
  | AGot x, AGot y | APopped x, APopped y => optpair_eqb x y
  | _, _ => false
  end.
Definition astep_eqb (a b : nat * aev) : bool := Nat.eqb (fst a) (fst b) && aev_eqb (snd a) (snd b).

(* the implementation reports the binary64 quotient p/q of total/count: correctly rounded means
   |p/q - t/c| <= 2^-53 |t/c| *)
Definition mean_matches (r : option (Z * Z)) (pq : option (Z * Z)) : bool :=
  match r, pq with
  | None, None => true
  | Some (t, c), Some (p, q) => (0 <? c) && (0 <? q) && (Z.abs (p * c - t * q) * 2 ^ 53 <=? Z.abs t * q)
  | _, _ => false
  end.
Definition aev_matches (a : nat * aev) (b : nat * aev) : bool :=
  Nat.eqb (fst a) (fst b) &&
  match snd a, snd b with
  | AAdded, AAdded => true
  | AGot x, AGot y | APopped x, APopped y => mean_matches x y
  | _, _ => false
  end.
(* want_trace carries, for get/pop, the implementation's float as an exact fraction (p, q) *)
Definition check_avg (progs : list (list aop)) (sched : list nat) (want_trace : list (nat * aev))
           (want_final : avg_state) : bool :=
  let cfg := arun sched (ainit progs) in
  list_eqb aev_matches (rev (a_trace cfg)) want_trace && optpair_eqb (a_shared cfg) want_final
  && forallb (fun p => is_nil p) (a_clients cfg).

(* ------------------------------------------------------------------------------------------ *)
(* throttle: token bucket over exact rationals                                                  *)
Local Open Scope Q_scope.

Definition thr_state := (Q * Q)%type.         (* (last, tally) *)
Inductive tev := TStart (now : Q) | TSleep (delay : Q).

(* one pass through the `with cache.transact(retry=True):` block at clock reading `now` *)
Definition thr_attempt (count rate : Q) (s : thr_state) (now : Q) : thr_state * tev :=
  let '(last, tally0) := s in
  let tally := thr_refill count rate last tally0 now in
  if thr_full_guard count rate last tally now then (thr_full_store count rate last tally now, TStart now)
  else if thr_ok_guard count rate last tally now then (thr_ok_store count rate last tally now, TStart now)
  else (s, TSleep (thr_delay count rate last tally now)).

(* any number of callers, any arrival pattern: a list of (caller, clock reading) in atomic order *)
Fixpoint thr_run (count rate : Q) (s : thr_state) (att : list (nat * Q)) : thr_state * list (nat * tev) :=
  match att with
  | [] => (s, [])
  | (c, now) :: r =>
      let '(s', e) := thr_attempt count rate s now in
      let '(s'', es) := thr_run count rate s' r in (s'', (c, e) :: es)
  end.

Definition is_start (e : nat * tev) : bool := match snd e with TStart _ => true | TSleep _ => false end.
Definition starts (es : list (nat * tev)) : list Q :=
  flat_map (fun e => match snd e with TStart t => [t] | TSleep _ => [] end) es.
(* number of starts with t <= time <= u *)
Definition starts_in (t u : Q) (es : list (nat * tev)) : Z :=
  Z.of_nat (length (filter (fun x => Qle_bool t x && Qle_bool x u) (starts es))).

(* clock readings of successive blocks never go back, and start at or after `from` *)
Fixpoint monotone (from : Q) (att : list (nat * Q)) : Prop :=
  match att with
  | [] => True
  | (_, now) :: r => from <= now /\ monotone now r
  end.

Definition tev_eqb (a b : tev) : bool :=
  match a, b with
  | TStart x, TStart y | TSleep x, TSleep y => Qeq_bool x y
  | _, _ => false
  end.
Definition check_throttle (count seconds t0 : Q) (att : list (nat * Q)) (want : list (nat * tev))
           (want_final : Q * Q) : bool :=
  let rate := thr_rate count seconds in
  let '(s, es) := thr_run count rate (thr_init t0 count) att in
  list_eqb (fun a b => Nat.eqb (fst a) (fst b) && tev_eqb (snd a) (snd b)) es want
  && Qeq_bool (fst s) (fst want_final) && Qeq_bool (snd s) (snd want_final).
