(* The value files referenced by the rows of a state (the `filename` column): vocabulary shared by the
   state invariant (proofs/SinvFacts.v) and the transaction bodies (model/Txn.v).
   Executable definitions only. *)
From DC Require Import DCPrelude Val DiskBase SqlBase Gen_Disk Disk Gen_Sql Cache.

Definition ofile (o : option Z) : list Z := match o with Some g => [g] | None => [] end.
(* the file ids among a list of optional file ids (cleanup lists are lists of `filename` columns) *)
Definition somes (l : list (option Z)) : list Z := flat_map ofile l.
Definition frefs (t : list row) : list Z := somes (map rfile t).
Definition refs (s : st) : list Z := frefs (rows s).

(* membership test for file ids *)
Definition zmem (g : Z) (l : list Z) : bool := existsb (Z.eqb g) l.
