(* The transaction bodies of model/Cache.v as parameters of the concurrency machine (model/Conc.v):
   D := st (rows + counters + the CONTENT of value files), R := result.

   For each writing call the machine needs  w_store (does Disk.store write a file before BEGIN),  w_retry,
   and  w_body : st -> option Z -> body_out  = what the call does between BEGIN and COMMIT (SELECT,
   UPDATE / INSERT / DELETE, _cull), together with the files it hands to cleanup after COMMIT and the
   file pop reads and removes after COMMIT.

   File ids.  The machine tracks only file STATES (absent / partial / complete) under ids drawn from its own
   global supply; the `fs` field of st stays the content store.  A body receives the id g under which its
   file was created and records the content under that id (`fs_put`): any stale binding of g is dropped
   (g is referenced by no row, so nothing is lost) and the fresh-name supply of the working copy is moved
   above g.  In a sequential run the machine hands out g = next_file s, and fs_put is then exactly
   fs_write (proofs/TxnFacts.v, `fs_put_is_fs_write`).

   Executable definitions only. *)
From DC Require Import DCPrelude Val DiskBase SqlBase Gen_Disk Disk Gen_Sql Cache Conc.
From DC Require Export Refs.

Definition bout := body_out st result.
Definition cwop := wop st result.
Definition crop := rop st result.

(* ------------------------------------------------------------------ the stored file joins the working copy *)
Definition fs_put (s : st) (g : Z) (content : fcontent) : st :=
  set_fs s (filter (fun p => negb (fst p =? g)) (fs s) ++ [(g, content)]) (Z.max (next_file s) (g + 1)).

(* f: id of the file created before BEGIN; oc: what Disk.store wanted to write.  They must agree. *)
Definition attach (s : st) (f : option Z) (oc : option fcontent) : option (st * option Z) :=
  match f, oc with
  | Some g, Some content => Some (fs_put s g content, Some g)
  | None, None => Some (s, None)
  | _, _ => None
  end.

(* the body raised: ROLLBACK, nothing to clean but the stored file (the machine does that) *)
Definition raise_out (d : st) (r : result) : bout :=
  {| bo_db := d; bo_early := []; bo_cleanup := []; bo_fetch := None; bo_res := r; bo_ok := false |}.
Definition ok_out (d : st) (cl : list (option Z)) (fe : option Z) (r : result) : bout :=
  {| bo_db := d; bo_early := []; bo_cleanup := somes cl; bo_fetch := fe; bo_res := r; bo_ok := true |}.

Definition stores_file (c : cfg) (v : pyval) (rd : bool) : bool :=
  match store (c_codec c) (c_min_file_size c) v rd with StOk sd => is_some (s_file sd) | StRaise => false end.

(* ------------------------------------------------------------------ set *)
Definition body_set (c : cfg) (k v : pyval) (rd : bool) (expire : option Z) (tag : sqlval) (now pg : Z)
           (d : st) (f : option Z) : bout :=
  match put (c_codec c) k with
  | PutRaise => raise_out d (RRaise EBind)
  | PutOk dbk raw =>
    match store (c_codec c) (c_min_file_size c) v rd with
    | StRaise => raise_out d (RRaise EStore)
    | StOk sd =>
      match attach d f (s_file sd) with
      | None => raise_out d (RRaise EStore)
      | Some (s1, fid) =>
        let exp := expire_at now expire in
        let '(s2, cl) :=
          match set_select dbk (b2z raw) (rows s1) with
          | r0 :: _ => (columns_update (rowid r0) now exp tag sd fid s1, [rfile r0])
          | [] => (t_insert (columns_insert dbk raw now exp tag sd fid) s1, [])
          end in
        let '(s3, cl2) := cull c now pg s2 in
        ok_out s3 (cl ++ cl2) None (RBool true)
      end
    end
  end.

Definition w_set (retry : bool) (c : cfg) (k v : pyval) (rd : bool) (expire : option Z) (tag : sqlval) (now pg : Z) : cwop :=
  {| w_store := stores_file c v rd; w_retry := retry; w_body := body_set c k v rd expire tag now pg |}.

(* ------------------------------------------------------------------ add *)
Definition body_add (c : cfg) (k v : pyval) (rd : bool) (expire : option Z) (tag : sqlval) (now pg : Z)
           (d : st) (f : option Z) : bout :=
  match put (c_codec c) k with
  | PutRaise => raise_out d (RRaise EBind)
  | PutOk dbk raw =>
    match store (c_codec c) (c_min_file_size c) v rd with
    | StRaise => raise_out d (RRaise EStore)
    | StOk sd =>
      match attach d f (s_file sd) with
      | None => raise_out d (RRaise EStore)
      | Some (s1, fid) =>
        let exp := expire_at now expire in
        match add_select dbk (b2z raw) (rows s1) with
        | r0 :: _ =>
            if add_live (expire_time r0) now
            then ok_out s1 [fid] None (RBool false)
            else let s2 := columns_update (rowid r0) now exp tag sd fid s1 in
                 let '(s3, cl2) := cull c now pg s2 in
                 ok_out s3 (rfile r0 :: cl2) None (RBool true)
        | [] =>
            let s2 := t_insert (columns_insert dbk raw now exp tag sd fid) s1 in
            let '(s3, cl2) := cull c now pg s2 in
            ok_out s3 cl2 None (RBool true)
        end
      end
    end
  end.

Definition w_add (retry : bool) (c : cfg) (k v : pyval) (rd : bool) (expire : option Z) (tag : sqlval) (now pg : Z) : cwop :=
  {| w_store := stores_file c v rd; w_retry := retry; w_body := body_add c k v rd expire tag now pg |}.

(* ------------------------------------------------------------------ delete / __delitem__ *)
Definition body_delete (c : cfg) (k : pyval) (delitem : bool) (now : Z) (d : st) (f : option Z) : bout :=
  match put (c_codec c) k with
  | PutRaise => raise_out d (RRaise EBind)
  | PutOk dbk raw =>
    match del_select dbk (b2z raw) now (rows d) with
    (* __delitem__ raises KeyError inside the transaction (ROLLBACK); delete() turns it into False *)
    | [] => raise_out d (if delitem then RRaise EKeyError else RBool false)
    | r0 :: _ => ok_out (t_delete (del_delete (rowid r0) (rows d)) d) [rfile r0] None (RBool true)
    end
  end.

Definition w_delete (retry : bool) (c : cfg) (k : pyval) (delitem : bool) (now : Z) : cwop :=
  {| w_store := false; w_retry := retry; w_body := body_delete c k delitem now |}.

(* ------------------------------------------------------------------ pop *)
Definition body_pop (c : cfg) (k : pyval) (now : Z) (d : st) (f : option Z) : bout :=
  match put (c_codec c) k with
  | PutRaise => raise_out d (RRaise EBind)
  | PutOk dbk raw =>
    match pop_select dbk (b2z raw) now (rows d) with
    | [] => ok_out d [] None RDefault
    | r0 :: _ =>
        let s1 := t_delete (pop_delete (rowid r0) (rows d)) d in
        (* the value is read after COMMIT; the result recorded here is the one for a file that is still
           there (the machine reports OFetchMiss when it is not) *)
        ok_out s1 [] (rfile r0)
               (match fetch_row c s1 r0 false with FIOError => RDefault | v => RVal v (expire_time r0) (rtag r0) end)
    end
  end.

Definition w_pop (retry : bool) (c : cfg) (k : pyval) (now : Z) : cwop :=
  {| w_store := false; w_retry := retry; w_body := body_pop c k now |}.

(* ------------------------------------------------------------------ touch *)
Definition body_touch (c : cfg) (k : pyval) (expire : option Z) (now : Z) (d : st) (f : option Z) : bout :=
  match put (c_codec c) k with
  | PutRaise => raise_out d (RRaise EBind)
  | PutOk dbk raw =>
    match touch_select dbk (b2z raw) (rows d) with
    | r0 :: _ =>
        if touch_live (expire_time r0) now
        then ok_out (t_update (touch_update_where (expire_at now expire) (rowid r0))
                              (touch_update_set (expire_at now expire) (rowid r0)) d) [] None (RBool true)
        else ok_out d [] None (RBool false)
    | [] => ok_out d [] None (RBool false)
    end
  end.

Definition w_touch (retry : bool) (c : cfg) (k : pyval) (expire : option Z) (now : Z) : cwop :=
  {| w_store := false; w_retry := retry; w_body := body_touch c k expire now |}.

(* ------------------------------------------------------------------ incr (the new value is stored inline) *)
(* incr calls Disk.store inside the transaction; an int64 is always stored inline, so no file is involved.
   A value that would need a file (an int outside int64 pickled above min_file_size) is outside this
   instance: the body then raises. *)
Definition body_incr (c : cfg) (k : pyval) (delta : Z) (default : option Z) (now pg : Z) (d : st) (f : option Z) : bout :=
  match put (c_codec c) k with
  | PutRaise => raise_out d (RRaise EBind)
  | PutOk dbk raw =>
    let fresh (upd : option row) :=
      match default with
      | None => raise_out d (RRaise EKeyError)
      | Some d0 =>
        let value := d0 + delta in
        match store (c_codec c) (c_min_file_size c) (VInt value) false with
        | StRaise => raise_out d (RRaise EStore)
        | StOk sd =>
          match s_file sd with
          | Some _ => raise_out d (RRaise EStore)
          | None =>
            let s2 := match upd with
                      | None => t_insert (columns_insert dbk raw now None SNull sd None) d
                      | Some r0 => columns_update (rowid r0) now None SNull sd None d
                      end in
            let '(s3, cl2) := cull c now pg s2 in
            ok_out s3 (cl2 ++ match upd with Some r0 => [rfile r0] | None => [] end) None (RVal (FVal (VInt value)) None SNull)
          end
        end
      end in
    match incr_select dbk (b2z raw) (rows d) with
    | [] => fresh None
    | r0 :: _ =>
        if incr_expired (expire_time r0) now then fresh (Some r0)
        else match rvalue r0 with
             | SInt z =>
                 let value := z + delta in
                 if in_int64 value
                 then ok_out (t_update (fun r => rowid r =? rowid r0) (incr_update (c_policy c) now (SInt value) (rowid r0)) d)
                             [] None (RVal (FVal (VInt value)) None SNull)
                 else raise_out d (RRaise EOverflow)
             | _ => raise_out d (RRaise ETypeError)
             end
    end
  end.

Definition w_incr (retry : bool) (c : cfg) (k : pyval) (delta : Z) (default : option Z) (now pg : Z) : cwop :=
  {| w_store := false; w_retry := retry; w_body := body_incr c k delta default now pg |}.

(* the instance covers incr exactly when the value it may have to store is stored inline *)
Definition incr_inline (c : cfg) (delta : Z) (default : option Z) : bool :=
  match default with
  | None => true
  | Some d0 => match store (c_codec c) (c_min_file_size c) (VInt (d0 + delta)) false with
               | StOk sd => is_none (s_file sd)
               | StRaise => true
               end
  end.

(* ------------------------------------------------------------------ lock-free lookups *)
(* get on its fast path (statistics off, no access bookkeeping): a SELECT on the committed state, then
   the file (if the row has one) is opened outside any transaction; when the file is gone the code SELECTs again
   (Gen_Sql.get_retries_after_missing_file, read off the source) and gives up only when the row is gone or the same
   file is missing twice.  `again = false` is the reader the code had before: a missing file was reported as a miss. *)
Definition r_get_with (again : bool) (c : cfg) (k : pyval) (rd : bool) (now : Z) : crop :=
  {| r_again := again;
     r_select := fun d =>
       match put (c_codec c) k with
       | PutRaise => SelMiss (RRaise EBind)
       | PutOk dbk raw =>
         match get_select dbk (b2z raw) now (rows d) with
         | [] => SelMiss RDefault
         | r0 :: _ =>
             let hit := match fetch_row c d r0 rd with FIOError => RDefault | v => RVal v (expire_time r0) (rtag r0) end in
             match rfile r0 with
             | None => SelHit hit
             | Some g => SelFile g hit RDefault
             end
         end
       end |}.
Definition r_get := r_get_with get_retries_after_missing_file.
Definition r_get_old := r_get_with false.

Definition r_contains (c : cfg) (k : pyval) (now : Z) : crop :=
  {| r_again := false;          (* __contains__ opens no file *)
     r_select := fun d =>
       match put (c_codec c) k with
       | PutRaise => SelMiss (RRaise EBind)
       | PutOk dbk raw =>
         if is_nil (contains_select dbk (b2z raw) now (rows d)) then SelMiss (RBool false) else SelHit (RBool true)
       end |}.

(* ------------------------------------------------------------------ a call run with no interleaving *)
(* store ; BEGIN ; body ; COMMIT ; cleanup ; (fetch + remove)   or   store ; BEGIN ; body ; ROLLBACK ; remove *)
Definition run_seq (w : cwop) (s : st) : st * result :=
  let f := if w_store w then Some (next_file s) else None in
  let o := w_body w s f in
  if bo_ok o
  then (fs_remove (fs_remove (bo_db o) (map Some (bo_cleanup o))) (map Some (ofile (bo_fetch o))), bo_res o)
  else (s, bo_res o).

(* SELECT ; open the file  (alone, a lookup that finds the file missing finds the same file missing again) *)
Definition run_rop (r : crop) (s : st) : result :=
  match r_select r s with
  | SelMiss x => x
  | SelHit x => x
  | SelFile g hit miss => if is_some (fs_get (fs s) g) then hit else miss
  end.
