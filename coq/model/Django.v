(* DjangoCache (djangocache.py) over an abstract dictionary-with-expiry, and the Django cache contract.
   Executable definitions only.

   dj_step  : the backend.  Each DjangoCache method is run through the GENERATED delegation table
              (gen/Gen_Django.v: which FanoutCache method, how key and timeout are prepared, exception
              translation) and the GENERATED get_backend_timeout; the inherited BaseCache methods
              (get_many, set_many, delete_many, get_or_set, incr_version, decr_version, has_key's
              default_key_func) are modelled from Django's source; the FanoutCache methods are the
              single-client dictionary semantics of core.py (hand-written; the correspondence run of the
              check compares them with the implementation on every call).
   dj_spec  : the contract, written from the Django documentation: a dictionary keyed by (version, key).

   Strings are lists of code points; times are ticks (2^-10 s); values are integers. *)
From DC Require Import DCPrelude ArgsKeyBase DjangoBase Gen_Django.

Definition str := list Z.

(* ------------------------------------------------------------------------------------------------ *)
(* default_key_func: '%s:%s:%s' % (key_prefix, version, key), versions rendered in decimal            *)

Fixpoint uint_cp (u : Decimal.uint) : str :=
  match u with
  | Decimal.Nil => []
  | Decimal.D0 r => 48 :: uint_cp r | Decimal.D1 r => 49 :: uint_cp r | Decimal.D2 r => 50 :: uint_cp r
  | Decimal.D3 r => 51 :: uint_cp r | Decimal.D4 r => 52 :: uint_cp r | Decimal.D5 r => 53 :: uint_cp r
  | Decimal.D6 r => 54 :: uint_cp r | Decimal.D7 r => 55 :: uint_cp r | Decimal.D8 r => 56 :: uint_cp r
  | Decimal.D9 r => 57 :: uint_cp r
  end.

(* str(version) for an integer version: '0', '17', '-3' *)
Definition digits (z : Z) : str :=
  match Z.to_int z with
  | Decimal.Pos u => uint_cp u
  | Decimal.Neg u => 45 :: uint_cp u
  end.

Definition colon : Z := 58.

Definition make_key (prefix : str) (version : Z) (key : str) : str :=
  prefix ++ colon :: digits version ++ colon :: key.

(* ------------------------------------------------------------------------------------------------ *)
(* dictionary with expiry                                                                            *)

(* value, absolute expiry time (None = never) *)
Definition ent := (Z * option Z)%type.

(* live iff never expires or now < expiry; at now = expiry the item is expired *)
Definition alive (now : Z) (e : ent) : bool :=
  match snd e with None => true | Some t => now <? t end.

Section Dict.
  Context {K : Type} (eqb : K -> K -> bool).
  Fixpoint find (k : K) (d : list (K * ent)) : option ent :=
    match d with
    | [] => None
    | (k', e) :: r => if eqb k k' then Some e else find k r
    end.
  Definition del (k : K) (d : list (K * ent)) : list (K * ent) :=
    filter (fun p => negb (eqb k (fst p))) d.
  Definition upd (k : K) (e : ent) (d : list (K * ent)) : list (K * ent) := (k, e) :: del k d.
  (* the entry a lookup at time `now` can see *)
  Definition live (now : Z) (k : K) (d : list (K * ent)) : option ent :=
    match find k d with
    | Some e => if alive now e then Some e else None
    | None => None
    end.
End Dict.

Record cfg := { c_prefix : str;            (* KEY_PREFIX *)
                c_version : Z;             (* VERSION *)
                c_default : option Z }.    (* TIMEOUT in ticks, None = never *)

Definition ver_of (c : cfg) (ver : option Z) : Z :=
  match ver with Some v => v | None => c_version c end.

Inductive result :=
| RNone                        (* None *)
| RVal (v : Z)
| RBool (b : bool)
| RRaise (e : exc)
| RMap (l : list (str * Z))    (* get_many: the found keys in request order *)
| RKeys (l : list str)         (* set_many: keys that failed *)
| RUnit.                       (* return value outside the contract (set, clear) *)

Inductive op :=
| OAdd (k : str) (v : Z) (t : dj_timeout) (ver : option Z)
| OGet (k : str) (ver : option Z)
| OSet (k : str) (v : Z) (t : dj_timeout) (ver : option Z)
| OTouch (k : str) (t : dj_timeout) (ver : option Z)
| ODelete (k : str) (ver : option Z)
| OIncr (k : str) (delta : Z) (ver : option Z)
| ODecr (k : str) (delta : Z) (ver : option Z)
| OHasKey (k : str) (ver : option Z)
| OGetMany (ks : list str) (ver : option Z)
| OSetMany (kvs : list (str * Z)) (t : dj_timeout) (ver : option Z)
| ODeleteMany (ks : list str) (ver : option Z)
| OGetOrSet (k : str) (d : Z) (t : dj_timeout) (ver : option Z)
| OIncrVersion (k : str) (delta : Z) (ver : option Z)
| ODecrVersion (k : str) (delta : Z) (ver : option Z)
| OPop (k : str) (ver : option Z)
| OClear.

(* ------------------------------------------------------------------------------------------------ *)
(* the backend: FanoutCache methods over made-key -> entry (core.py semantics, one client)           *)

Definition bstate := list (str * ent).
Definition bfind := find zlist_eqb.
Definition bdel := del zlist_eqb.
Definition bupd := upd zlist_eqb.
Definition blive := live zlist_eqb.

(* expire_time = None if expire is None else now + expire *)
Definition abs_exp (now : Z) (exp : option Z) : option Z :=
  match exp with None => None | Some d => Some (now + d) end.

Definition bk_set (bk : bstate) (key : str) (v : Z) (exp : option Z) (now : Z) : bstate * result :=
  (bupd key (v, abs_exp now exp) bk, RBool true).

Definition bk_add (bk : bstate) (key : str) (v : Z) (exp : option Z) (now : Z) : bstate * result :=
  match blive now key bk with
  | Some _ => (bk, RBool false)
  | None => (bupd key (v, abs_exp now exp) bk, RBool true)
  end.

Definition bk_get (bk : bstate) (key : str) (now : Z) : bstate * result :=
  match blive now key bk with Some e => (bk, RVal (fst e)) | None => (bk, RNone) end.

Definition bk_touch (bk : bstate) (key : str) (exp : option Z) (now : Z) : bstate * result :=
  match blive now key bk with
  | Some e => (bupd key (fst e, abs_exp now exp) bk, RBool true)
  | None => (bk, RBool false)
  end.

Definition bk_pop (bk : bstate) (key : str) (now : Z) : bstate * result :=
  match blive now key bk with Some e => (bdel key bk, RVal (fst e)) | None => (bk, RNone) end.

Definition bk_delete (bk : bstate) (key : str) (now : Z) : bstate * result :=
  match blive now key bk with Some _ => (bdel key bk, RBool true) | None => (bk, RBool false) end.

Definition bk_contains (bk : bstate) (key : str) (now : Z) : bstate * result :=
  (bk, RBool (is_some (blive now key bk))).

(* Cache.incr tests `expire_time is not None and expire_time <= now` (since the fix of D6; it used to be
   `<`, which let incr see an item at now = expire_time that no lookup can see). *)
Definition incr_dead (now : Z) (e : ent) : bool :=
  match snd e with None => false | Some t => t <=? now end.

Definition bk_incr (bk : bstate) (key : str) (delta : Z) (dflt : option Z) (now : Z) : bstate * result :=
  let missing := match dflt with
                 | None => (bk, RRaise KeyError)
                 | Some d => (bupd key (d + delta, None) bk, RVal (d + delta))
                 end in
  match bfind key bk with
  | Some e => if incr_dead now e then missing
              else (bupd key (fst e + delta, snd e) bk, RVal (fst e + delta))
  | None => missing
  end.

Definition bk_clear (bk : bstate) : bstate * result := ([], RUnit).

(* the `expire` argument as the callee receives it: an exception if evaluating the call raises *)
Definition fan_call (m : fmeth) (key : str) (v : Z) (exp : exc + option Z) (delta : Z) (dflt : option Z)
           (now : Z) (bk : bstate) : bstate * result :=
  let with_exp (f : option Z -> bstate * result) :=
      match exp with inl e => (bk, RRaise e) | inr x => f x end in
  match m with
  | FAdd => with_exp (fun x => bk_add bk key v x now)
  | FSet => with_exp (fun x => bk_set bk key v x now)
  | FTouch => with_exp (fun x => bk_touch bk key x now)
  | FGet => bk_get bk key now
  | FPop => bk_pop bk key now
  | FDelete => bk_delete bk key now
  | FContains => bk_contains bk key now
  | FIncr => bk_incr bk key delta dflt now
  | FDecr => bk_incr bk key (- delta) dflt now
  | FClear => bk_clear bk
  | _ => (bk, RUnit)           (* read, expire, stats, evict, cull, close, ...: outside this model *)
  end.

(* ------------------------------------------------------------------------------------------------ *)
(* DjangoCache methods, driven by the generated table                                                *)

Definition key_of (c : cfg) (src : keysrc) (k : str) (ver : option Z) : str :=
  match src with
  | KMade true => make_key (c_prefix c) (ver_of c ver) k
  | KMade false => make_key (c_prefix c) (c_version c) k
  | _ => k
  end.

Definition exp_of (c : cfg) (src : tsrc) (t : dj_timeout) : exc + option Z :=
  match src with
  | TBackend => if gbt_sentinel_escapes (c_default c) t then inl TypeError
                else inr (get_backend_timeout (c_default c) t)
  | _ => match t with DjDefault => inl TypeError     (* now + object() *)
                    | DjNone => inr None | DjNum d => inr (Some d) end
  end.

Definition delta_of (d : deleg) (delta : Z) : Z :=
  match bound PDelta (d_bind d) with Some ANegDelta => - delta | _ => delta end.

Definition finish (d : deleg) (r : result) : result :=
  match r with
  | RRaise e => RRaise (translate_exc (d_exc d) e)
  | _ => if d_returns d then r else RNone
  end.

(* a method whose target is a FanoutCache method *)
Definition dj_fan (d : deleg) (c : cfg) (bk : bstate) (k : str) (v : Z) (t : dj_timeout) (delta : Z)
           (dflt : option Z) (ver : option Z) (now : Z) : bstate * result :=
  match d_target d with
  | TFan m =>
      let '(bk', r) := fan_call m (key_of c (d_key d) k ver) v (exp_of c (d_timeout d) t)
                                (delta_of d delta) dflt now bk in
      (bk', finish d r)
  | TSelf _ => (bk, RUnit)
  end.

(* ... or another DjangoCache method (decr calls self.incr with the raw key and the version) *)
Definition dj_call (d : deleg) (c : cfg) (bk : bstate) (k : str) (v : Z) (t : dj_timeout) (delta : Z)
           (dflt : option Z) (ver : option Z) (now : Z) : bstate * result :=
  match d_target d with
  | TFan _ => dj_fan d c bk k v t delta dflt ver now
  | TSelf MIncr =>
      let ver' := match bound PVersion (d_bind d) with Some AVersion => ver | _ => None end in
      let '(bk', r) := dj_fan deleg_incr c bk (key_of c (d_key d) k ver) v t (delta_of d delta) dflt ver' now in
      (bk', finish d r)
  end.

(* DjangoCache.incr/decr take default=None *)
Definition dj_add c bk k v t ver now := dj_call deleg_add c bk k v t 0 None ver now.
Definition dj_get c bk k ver now := dj_call deleg_get c bk k 0 DjDefault 0 None ver now.
Definition dj_set c bk k v t ver now := dj_call deleg_set c bk k v t 0 None ver now.
Definition dj_touch c bk k t ver now := dj_call deleg_touch c bk k 0 t 0 None ver now.
Definition dj_pop c bk k ver now := dj_call deleg_pop c bk k 0 DjDefault 0 None ver now.
Definition dj_delete c bk k ver now := dj_call deleg_delete c bk k 0 DjDefault 0 None ver now.
Definition dj_incr c bk k delta ver now := dj_call deleg_incr c bk k 0 DjDefault delta None ver now.
Definition dj_decr c bk k delta ver now := dj_call deleg_decr c bk k 0 DjDefault delta None ver now.
Definition dj_has_key c bk k ver now := dj_call deleg_has_key c bk k 0 DjDefault 0 None ver now.
Definition dj_clear c bk now := dj_call deleg_clear c bk [] 0 DjDefault 0 None None now.

(* BaseCache.get_many: d[k] = self.get(k, missing, version) for the keys found *)
Fixpoint dj_get_many (c : cfg) (bk : bstate) (ks : list str) (ver : option Z) (now : Z) (acc : list (str * Z))
  : bstate * result :=
  match ks with
  | [] => (bk, RMap (rev acc))
  | k :: r =>
      match dj_get c bk k ver now with
      | (bk', RVal v) => dj_get_many c bk' r ver now ((k, v) :: acc)
      | (bk', RRaise e) => (bk', RRaise e)
      | (bk', _) => dj_get_many c bk' r ver now acc
      end
  end.

(* BaseCache.set_many: self.set(key, value, timeout, version) for every pair; returns [] *)
Fixpoint dj_set_many (c : cfg) (bk : bstate) (kvs : list (str * Z)) (t : dj_timeout) (ver : option Z) (now : Z)
  : bstate * result :=
  match kvs with
  | [] => (bk, RKeys [])
  | (k, v) :: r =>
      match dj_set c bk k v t ver now with
      | (bk', RRaise e) => (bk', RRaise e)
      | (bk', _) => dj_set_many c bk' r t ver now
      end
  end.

(* BaseCache.delete_many: self.delete(key, version) for every key; returns None *)
Fixpoint dj_delete_many (c : cfg) (bk : bstate) (ks : list str) (ver : option Z) (now : Z) : bstate * result :=
  match ks with
  | [] => (bk, RNone)
  | k :: r =>
      match dj_delete c bk k ver now with
      | (bk', RRaise e) => (bk', RRaise e)
      | (bk', _) => dj_delete_many c bk' r ver now
      end
  end.

(* BaseCache.get_or_set: get; on a miss add(key, default, timeout, version) and get(key, default) again *)
Definition dj_get_or_set (c : cfg) (bk : bstate) (k : str) (d : Z) (t : dj_timeout) (ver : option Z) (now : Z)
  : bstate * result :=
  match dj_get c bk k ver now with
  | (bk1, RNone) =>
      match dj_add c bk1 k d t ver now with
      | (bk2, RRaise e) => (bk2, RRaise e)
      | (bk2, _) =>
          match dj_get c bk2 k ver now with
          | (bk3, RNone) => (bk3, RVal d)
          | x => x
          end
      end
  | x => x
  end.

(* BaseCache.incr_version: get (ValueError on a miss); set(key, value, version=version+delta) with the
   default timeout; delete(key, version); return version+delta *)
Definition dj_incr_version (c : cfg) (bk : bstate) (k : str) (delta : Z) (ver : option Z) (now : Z)
  : bstate * result :=
  let v0 := ver_of c ver in
  match dj_get c bk k (Some v0) now with
  | (bk1, RVal x) =>
      match dj_set c bk1 k x DjDefault (Some (v0 + delta)) now with
      | (bk2, RRaise e) => (bk2, RRaise e)
      | (bk2, _) =>
          match dj_delete c bk2 k (Some v0) now with
          | (bk3, RRaise e) => (bk3, RRaise e)
          | (bk3, _) => (bk3, RVal (v0 + delta))
          end
      end
  | (bk1, RRaise e) => (bk1, RRaise e)
  | (bk1, _) => (bk1, RRaise ValueError)
  end.

(* return values of set and clear are outside the contract *)
Definition mask (x : bstate * result) : bstate * result :=
  match x with (bk, RRaise e) => (bk, RRaise e) | (bk, _) => (bk, RUnit) end.

Definition dj_step (c : cfg) (bk : bstate) (o : op) (now : Z) : bstate * result :=
  match o with
  | OAdd k v t ver => dj_add c bk k v t ver now
  | OGet k ver => dj_get c bk k ver now
  | OSet k v t ver => mask (dj_set c bk k v t ver now)
  | OTouch k t ver => dj_touch c bk k t ver now
  | ODelete k ver => dj_delete c bk k ver now
  | OIncr k delta ver => dj_incr c bk k delta ver now
  | ODecr k delta ver => dj_decr c bk k delta ver now
  | OHasKey k ver => dj_has_key c bk k ver now
  | OGetMany ks ver => dj_get_many c bk ks ver now []
  | OSetMany kvs t ver => dj_set_many c bk kvs t ver now
  | ODeleteMany ks ver => dj_delete_many c bk ks ver now
  | OGetOrSet k d t ver => dj_get_or_set c bk k d t ver now
  | OIncrVersion k delta ver => dj_incr_version c bk k delta ver now
  | ODecrVersion k delta ver => dj_incr_version c bk k (- delta) ver now
  | OPop k ver => dj_pop c bk k ver now
  | OClear => mask (dj_clear c bk now)
  end.

(* ------------------------------------------------------------------------------------------------ *)
(* the contract                                                                                      *)

Definition skey := (Z * str)%type.          (* (version, key) *)
Definition skey_eqb (a b : skey) : bool := (fst a =? fst b) && zlist_eqb (snd a) (snd b).
Definition sstate := list (skey * ent).
Definition sfind := find skey_eqb.
Definition sdel := del skey_eqb.
Definition supd := upd skey_eqb.
Definition slive := live skey_eqb.

(* timeout None = forever; zero or negative = already expired; DEFAULT = the backend default *)
Inductive ttl := Forever | Expired | Until (t : Z).
Definition after (now d : Z) : ttl := if d <=? 0 then Expired else Until (now + d).
Definition spec_ttl (dflt : option Z) (now : Z) (t : dj_timeout) : ttl :=
  match t with
  | DjNone => Forever
  | DjNum d => after now d
  | DjDefault => match dflt with None => Forever | Some d => after now d end
  end.

(* storing something already expired leaves the key absent *)
Definition store (vk : skey) (v : Z) (l : ttl) (sp : sstate) : sstate :=
  match l with
  | Forever => supd vk (v, None) sp
  | Until t => supd vk (v, Some t) sp
  | Expired => sdel vk sp
  end.

Definition dj_spec (c : cfg) (sp : sstate) (o : op) (now : Z) : sstate * result :=
  let T := spec_ttl (c_default c) now in
  let look k ver := slive now (ver_of c ver, k) sp in
  match o with
  | OSet k v t ver => (store (ver_of c ver, k) v (T t) sp, RUnit)
  | OAdd k v t ver =>
      match look k ver with
      | Some _ => (sp, RBool false)
      | None => (store (ver_of c ver, k) v (T t) sp, RBool true)
      end
  | OGet k ver => (sp, match look k ver with Some e => RVal (fst e) | None => RNone end)
  | OTouch k t ver =>
      match look k ver with
      | Some e => (store (ver_of c ver, k) (fst e) (T t) sp, RBool true)
      | None => (sp, RBool false)
      end
  | ODelete k ver => (sdel (ver_of c ver, k) sp, RBool (is_some (look k ver)))
  | OIncr k delta ver =>
      match look k ver with
      | Some e => (supd (ver_of c ver, k) (fst e + delta, snd e) sp, RVal (fst e + delta))
      | None => (sp, RRaise ValueError)
      end
  | ODecr k delta ver =>
      match look k ver with
      | Some e => (supd (ver_of c ver, k) (fst e - delta, snd e) sp, RVal (fst e - delta))
      | None => (sp, RRaise ValueError)
      end
  | OHasKey k ver => (sp, RBool (is_some (look k ver)))
  | OGetMany ks ver =>
      (sp, RMap (flat_map (fun k => match look k ver with Some e => [(k, fst e)] | None => [] end) ks))
  | OSetMany kvs t ver =>
      (fold_left (fun s kv => store (ver_of c ver, fst kv) (snd kv) (T t) s) kvs sp, RKeys [])
  | ODeleteMany ks ver => (fold_left (fun s k => sdel (ver_of c ver, k) s) ks sp, RNone)
  | OGetOrSet k d t ver =>
      match look k ver with
      | Some e => (sp, RVal (fst e))
      | None => (store (ver_of c ver, k) d (T t) sp, RVal d)
      end
  | OIncrVersion k delta ver =>
      match look k ver with
      | Some e => (sdel (ver_of c ver, k) (store (ver_of c ver + delta, k) (fst e) (T DjDefault) sp),
                   RVal (ver_of c ver + delta))
      | None => (sp, RRaise ValueError)
      end
  | ODecrVersion k delta ver =>
      match look k ver with
      | Some e => (sdel (ver_of c ver, k) (store (ver_of c ver - delta, k) (fst e) (T DjDefault) sp),
                   RVal (ver_of c ver - delta))
      | None => (sp, RRaise ValueError)
      end
  | OPop k ver =>
      match look k ver with
      | Some e => (sdel (ver_of c ver, k) sp, RVal (fst e))
      | None => (sp, RNone)
      end
  | OClear => ([], RUnit)
  end.

(* ------------------------------------------------------------------------------------------------ *)
(* histories                                                                                         *)

Fixpoint run {S} (step : S -> op -> Z -> S * result) (s : S) (h : list (op * Z)) : S * list result :=
  match h with
  | [] => (s, [])
  | (o, now) :: r =>
      let '(s1, x) := step s o now in
      let '(s2, xs) := run step s1 r in
      (s2, x :: xs)
  end.

(* the clock never runs backwards *)
Fixpoint clock_ok (t0 : Z) (h : list (op * Z)) : bool :=
  match h with
  | [] => true
  | (_, now) :: r => (t0 <=? now) && clock_ok now r
  end.

(* decidable equality of results, for the correspondence run *)
Definition exc_code (e : exc) : Z := match e with KeyError => 0 | ValueError => 1 | TypeError => 2 end.
Definition result_eqb (a b : result) : bool :=
  match a, b with
  | RNone, RNone | RUnit, RUnit => true
  | RVal x, RVal y => x =? y
  | RBool x, RBool y => Bool.eqb x y
  | RRaise x, RRaise y => exc_code x =? exc_code y
  | RMap x, RMap y => list_eqb (fun p q => zlist_eqb (fst p) (fst q) && (snd p =? snd q)) x y
  | RKeys x, RKeys y => list_eqb zlist_eqb x y
  | _, _ => false
  end.
