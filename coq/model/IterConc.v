(* A lock-free iteration among writers (findings C05-F1 / C06-F5).
   Cache.__iter__ (core.py `_iter`, read off by tools/emit_sql.py: Gen_Sql.iter_max, iter_select_asc, iter_page) reads MAX(rowid) in one
   statement and then page after page, each in its own statement, without a transaction: between two statements other clients
   commit.  `tb n` is the committed table that statement number n of the iteration reads (n = 0: SELECT MAX(rowid); n = 1, 2, ...: the
   pages); every schedule of the other clients is some such sequence.  Ascending iteration (reversed is the mirror image).
   Executable definitions only. *)
From DC Require Import DCPrelude Val DiskBase SqlBase Gen_Disk Disk Gen_Sql Cache.

Definition tables := nat -> list row.

(* the rows yielded from statement n on; fuel bounds the number of pages (the iteration ends at the first empty page) *)
Fixpoint pages (fuel : nat) (n : nat) (pos bound : Z) (tb : tables) : list row :=
  match fuel with
  | O => []
  | S f =>
      match iter_select_asc pos bound iter_page (tb n) with
      | [] => []
      | pg => pg ++ pages f (S n) (rowid (last pg dummy_row)) bound tb
      end
  end.

(* true when the iteration came to its end (an empty page) within the fuel *)
Fixpoint pages_done (fuel : nat) (n : nat) (pos bound : Z) (tb : tables) : bool :=
  match fuel with
  | O => false
  | S f =>
      match iter_select_asc pos bound iter_page (tb n) with
      | [] => true
      | pg => pages_done f (S n) (rowid (last pg dummy_row)) bound tb
      end
  end.

Definition iter_among_writers (fuel : nat) (tb : tables) : list row :=
  match iter_max (tb O) with
  | None => []
  | Some m => pages fuel 1 0 (m + 1) tb
  end.
Definition iter_done (fuel : nat) (tb : tables) : bool :=
  match iter_max (tb O) with
  | None => true
  | Some m => pages_done fuel 1 0 (m + 1) tb
  end.

(* the keys of a table, as iteration hands them out *)
Definition table_keys (t : list row) : list (sqlval * bool) := keys_of t.
