(* Deque (persistent.py) over the abstract queue cache, and the collections.deque specification.
   Executable definitions only.  The model is structured like the Python and CALLS the definitions of
   Gen_Persistent.v (guards, delegated calls, exception translations) that the translator reads off the
   source; proofs/PersistentBridge.v pins those down. *)
From DC Require Import DCPrelude PersistentBase Gen_Persistent QCache.

(* ================================================================================================ *)
(* Operations                                                                                        *)

Inductive dq_op :=
| OAppend (v : val) | OAppendLeft (v : val)
| OExtend (l : list val) | OExtendLeft (l : list val) | OIadd (l : list val)
| OPop | OPopLeft | OPeek | OPeekLeft
| OGet (i : Z) | OSet (i : Z) (v : val) | ODel (i : Z)
| ORotate (n : Z) | OReverse | ORemove (v : val) | OCount (v : val)
| OCompare (o : seqop) (that : list val)      (* d == that, d != that, d < that, ... *)
| OIter | OReversed | OLen | OClear
| OSetMaxlen (m : nat).                       (* d.maxlen = m *)

(* ================================================================================================ *)
(* Specification: collections.deque as a list with an optional bound                                 *)

Record ldq := { l_items : list val; l_maxlen : option nat }.

(* keep the last m / the first m *)
Definition l_trim_left (m : option nat) (l : list val) : list val :=
  match m with None => l | Some m => drop (length l - m) l end.
Definition l_trim_right (m : option nat) (l : list val) : list val :=
  match m with None => l | Some m => take m l end.

Definition l_append (m : option nat) (l : list val) (v : val) : list val := l_trim_left m (l ++ [v]).
Definition l_appendleft (m : option nat) (l : list val) (v : val) : list val := l_trim_right m (v :: l).

(* position addressed by index i in a sequence of length n (Python indexing), None = IndexError *)
Definition l_norm_index (i : Z) (n : nat) : option nat :=
  if (0 <=? i) && (i <? Z.of_nat n) then Some (Z.to_nat i)
  else if (i <? 0) && (- Z.of_nat n <=? i) then Some (Z.to_nat (Z.of_nat n + i))
  else None.

Fixpoint l_set_nth (n : nat) (v : val) (l : list val) : list val :=
  match l, n with
  | [], _ => []
  | _ :: r, O => v :: r
  | x :: r, S n' => x :: l_set_nth n' v r
  end.

Fixpoint l_del_nth (n : nat) (l : list val) : list val :=
  match l, n with
  | [], _ => []
  | _ :: r, O => r
  | x :: r, S n' => x :: l_del_nth n' r
  end.

(* rotate n steps to the right; negative n rotates to the left *)
Definition l_rotate (n : Z) (l : list val) : list val :=
  match l with
  | [] => []
  | _ => let len := length l in
         if n >=? 0
         then let k := Z.to_nat (n mod Z.of_nat len) in drop (len - k) l ++ take (len - k) l
         else let k := Z.to_nat ((- n) mod Z.of_nat len) in drop k l ++ take k l
  end.

(* remove the first occurrence; None = ValueError *)
Fixpoint l_remove (v : val) (l : list val) : option (list val) :=
  match l with
  | [] => None
  | x :: r => if v =? x then Some r
              else match l_remove v r with Some r' => Some (x :: r') | None => None end
  end.

Definition l_count (v : val) (l : list val) : Z := Z.of_nat (length (filter (fun x => v =? x) l)).

(* sequence comparison = lexicographic order (DCPrelude.lex_cmp) *)
Definition l_compare (o : seqop) (a b : list val) : bool :=
  match o, lex_cmp a b with
  | OpEq, Eq => true | OpEq, _ => false
  | OpNe, Eq => false | OpNe, _ => true
  | OpLt, Lt => true | OpLt, _ => false
  | OpGt, Gt => true | OpGt, _ => false
  | OpLe, Gt => false | OpLe, _ => true
  | OpGe, Lt => false | OpGe, _ => true
  end.

Definition ldq_with (s : ldq) (l : list val) : ldq := {| l_items := l; l_maxlen := l_maxlen s |}.

Definition ldq_step (s : ldq) (o : dq_op) : ldq * res :=
  let l := l_items s in
  let m := l_maxlen s in
  match o with
  | OAppend v => (ldq_with s (l_append m l v), RNone)
  | OAppendLeft v => (ldq_with s (l_appendleft m l v), RNone)
  | OExtend vs | OIadd vs => (ldq_with s (fold_left (l_append m) vs l), RNone)
  | OExtendLeft vs => (ldq_with s (fold_left (l_appendleft m) vs l), RNone)
  | OPop => match rev l with [] => (s, RRaise IndexError) | x :: r => (ldq_with s (rev r), RVal x) end
  | OPopLeft => match l with [] => (s, RRaise IndexError) | x :: r => (ldq_with s r, RVal x) end
  | OPeek => match rev l with [] => (s, RRaise IndexError) | x :: _ => (s, RVal x) end
  | OPeekLeft => match l with [] => (s, RRaise IndexError) | x :: _ => (s, RVal x) end
  | OGet i => match l_norm_index i (length l) with
              | Some n => (s, RVal (nth n l 0))
              | None => (s, RRaise IndexError)
              end
  | OSet i v => match l_norm_index i (length l) with
                | Some n => (ldq_with s (l_set_nth n v l), RNone)
                | None => (s, RRaise IndexError)
                end
  | ODel i => match l_norm_index i (length l) with
              | Some n => (ldq_with s (l_del_nth n l), RNone)
              | None => (s, RRaise IndexError)
              end
  | ORotate n => (ldq_with s (l_rotate n l), RNone)
  | OReverse => (ldq_with s (rev l), RNone)
  | ORemove v => match l_remove v l with
                 | Some l' => (ldq_with s l', RNone)
                 | None => (s, RRaise ValueError)
                 end
  | OCount v => (s, RInt (l_count v l))
  | OCompare o that => (s, RBool (l_compare o l that))
  | OIter => (s, RList l)
  | OReversed => (s, RList (rev l))
  | OLen => (s, RInt (Z.of_nat (length l)))
  | OClear => (ldq_with s [], RNone)
  | OSetMaxlen m' => ({| l_items := l_trim_left (Some m') l; l_maxlen := Some m' |}, RNone)
  end.

(* ================================================================================================ *)
(* Model: the Deque object = a cache (the directory) + maxlen kept in the object                     *)

Record deque := { dq_cache : qcache; dq_maxlen : mlen }.

Definition with_cache (d : deque) (c : qcache) : deque := {| dq_cache := c; dq_maxlen := dq_maxlen d |}.
Definition dq_len (d : deque) : Z := qc_len (dq_cache d).

(* ---- interpretation of the delegated calls ---- *)

(* what pull / peek hand back: a (key, value) pair or the `default` argument *)
Inductive pyitem := PItem (k : Z) (v : val) | PDefault (d : dflt).
(* `_, value = <result>` *)
Definition item_snd (it : pyitem) : comp :=
  match it with PItem _ v => CVal v | PDefault d => dflt_snd d end.

Definition q_exec (call : qcall) (c : qcache) : pyitem * qcache :=
  match qc_meth call with
  | CM_pull => match qc_pull (qc_side call) c with
               | (Some (k, v), c') => (PItem k v, c')
               | (None, c') => (PDefault (qc_default call), c')
               end
  | CM_peek => match qc_peek (qc_side call) c with
               | Some (k, v) => (PItem k v, c)
               | None => (PDefault (qc_default call), c)
               end
  | _ => (PDefault (qc_default call), c)
  end.

Definition q_exec_push (call : qcall) (v : val) (c : qcache) : qcache :=
  match qc_meth call with CM_push => snd (qc_push (qc_side call) v c) | _ => c end.

Definition q_exec_clear (call : qcall) (c : qcache) : qcache :=
  match qc_meth call with CM_clear => qc_clear c | _ => c end.

(* the `func` handed to _index; None = KeyError *)
Definition q_exec_func (m : cmeth) (value : val) (key : Z) (c : qcache) : option (qcache * res) :=
  match m with
  | CM_getitem => match qc_get key c with Some v => Some (c, RVal v) | None => None end
  | CM_setitem => Some (qc_set key value c, RNone)
  | CM_delitem => match qc_del key c with Some c' => Some (c', RNone) | None => None end
  | _ => None
  end.

(* ---- peek / peekleft / pop / popleft ---- *)

Definition dq_poplike (call : qcall) (miss : comp -> bool) (e : exn) (d : deque) : deque * res :=
  let '(it, c') := q_exec call (dq_cache d) in
  let value := item_snd it in
  (with_cache d c', if miss value then RRaise e else res_of_comp value).

Definition dq_peek := dq_poplike deque_peek_call deque_peek_miss deque_peek_exn.
Definition dq_peekleft := dq_poplike deque_peekleft_call deque_peekleft_miss deque_peekleft_exn.
Definition dq_pop := dq_poplike deque_pop_call deque_pop_miss deque_pop_exn.
Definition dq_popleft := dq_poplike deque_popleft_call deque_popleft_miss deque_popleft_exn.

(* self._pop / self._popleft *)
Definition dq_mref_pop (m : mref) (d : deque) : deque * res :=
  match m with MR_pop => dq_pop d | MR_popleft => dq_popleft d | _ => (d, RNone) end.

(* ---- append / appendleft: push, then trim if the length exceeds maxlen ---- *)

Definition dq_pushlike (call : qcall) (g : Z -> mlen -> bool) (trim : mref) (v : val) (d : deque) : deque :=
  let d1 := with_cache d (q_exec_push call v (dq_cache d)) in
  if g (dq_len d1) (dq_maxlen d1) then fst (dq_mref_pop trim d1) else d1.

Definition dq_append := dq_pushlike deque_append_call deque_append_guard deque_append_trim.
Definition dq_appendleft := dq_pushlike deque_appendleft_call deque_appendleft_guard deque_appendleft_trim.

(* self._append / self._appendleft *)
Definition dq_mref_push (m : mref) (v : val) (d : deque) : deque :=
  match m with MR_append => dq_append v d | MR_appendleft => dq_appendleft v d | _ => d end.

Definition dq_extend (l : list val) (d : deque) : deque :=
  fold_left (fun d v => dq_mref_push deque_extend_fn v d) l d.
Definition dq_extendleft (l : list val) (d : deque) : deque :=
  fold_left (fun d v => dq_mref_push deque_extendleft_fn v d) l d.

Definition dq_clear (d : deque) : deque := with_cache d (q_exec_clear deque_clear_call (dq_cache d)).

(* ---- the maxlen setter: `while len(self._cache) > self._maxlen: self._popleft()` ---- *)

Fixpoint trim_loop (fuel : nat) (d : deque) : option deque :=
  match fuel with
  | O => None
  | S f => if deque_setmaxlen_guard (dq_len d) (dq_maxlen d)
           then trim_loop f (fst (dq_mref_pop deque_setmaxlen_trim d))
           else Some d
  end.

Definition dq_set_maxlen (m : Z) (d : deque) : deque * res :=
  let d1 := {| dq_cache := dq_cache d; dq_maxlen := Some m |} in
  match trim_loop (S (length (dq_cache d))) d1 with
  | Some d' => (d', RNone)
  | None => (d1, ROutOfFuel)
  end.

(* ---- _index: walk the keys until the index has counted down (up) to zero ---- *)

Fixpoint index_walk (hit : Z -> bool) (step : Z -> Z) (func : Z -> qcache -> option (qcache * res))
         (keys : list Z) (index : Z) (c : qcache) : option (qcache * res) :=
  match keys with
  | [] => None
  | key :: rest =>
      if hit index
      then match func key c with
           | Some r => Some r
           | None => index_walk hit step func rest index c          (* except KeyError: continue *)
           end
      else index_walk hit step func rest (step index) c
  end.

Definition dq_index (index : Z) (func : Z -> qcache -> option (qcache * res)) (d : deque) : deque * res :=
  let c := dq_cache d in
  let len_self := dq_len d in
  if deque_index_nonneg index then
    if deque_index_too_high index len_self then (d, RRaise deque_index_exn_high)
    else match index_walk deque_index_hit_fwd deque_index_step_fwd func
                          (qc_iterkeys deque_index_fwd_reverse c) index c with
         | Some (c', r) => (with_cache d c', r)
         | None => (d, RRaise deque_index_exn_end)
         end
  else
    if deque_index_too_low index len_self then (d, RRaise deque_index_exn_low)
    else match index_walk deque_index_hit_bwd deque_index_step_bwd func
                          (qc_iterkeys deque_index_bwd_reverse c) (deque_index_adjust index) c with
         | Some (c', r) => (with_cache d c', r)
         | None => (d, RRaise deque_index_exn_end)
         end.

Definition dq_getitem (i : Z) := dq_index i (q_exec_func deque_getitem_func 0).
Definition dq_setitem (i : Z) (v : val) := dq_index i (q_exec_func deque_setitem_func v).
Definition dq_delitem (i : Z) := dq_index i (q_exec_func deque_delitem_func 0).

(* ---- iteration: `for key in iterkeys(...): try: yield _cache[key] except KeyError: pass` ---- *)

Definition dq_iter_list (reverse : bool) (d : deque) : list val :=
  flat_map (fun key => match qc_get key (dq_cache d) with Some v => [v] | None => [] end)
           (qc_iterkeys reverse (dq_cache d)).
Definition dq_iter := dq_iter_list deque_iter_reverse.
Definition dq_reversed := dq_iter_list deque_reversed_reverse.

Definition dq_count (value : val) (d : deque) : Z :=
  Z.of_nat (length (filter (deque_count_match value) (dq_iter d))).

(* ---- comparisons (_make_compare) ---- *)

Fixpoint cmp_walk (seq_op : seqop) (a b : list val) : option bool :=
  match a, b with
  | alpha :: a', beta :: b' =>
      if deque_cmp_elem_differs alpha beta then Some (seqop_apply seq_op alpha beta) else cmp_walk seq_op a' b'
  | _, _ => None
  end.

(* which operator-module function each comparison method was built with *)
Definition dq_method_op (m : seqop) : seqop :=
  match m with
  | OpEq => deque_eq_op | OpNe => deque_ne_op | OpLt => deque_lt_op
  | OpGt => deque_gt_op | OpLe => deque_le_op | OpGe => deque_ge_op
  end.

Definition dq_compare (m : seqop) (that : list val) (d : deque) : bool :=
  let seq_op := dq_method_op m in
  let len_self := dq_len d in
  let len_that := Z.of_nat (length that) in
  match (if deque_cmp_len_differs len_self len_that then deque_cmp_short seq_op else None) with
  | Some b => b
  | None => match cmp_walk seq_op (dq_iter d) that with
            | Some b => b
            | None => seqop_apply seq_op len_self len_that
            end
  end.

(* ---- remove ---- *)

Fixpoint remove_walk (value : val) (keys : list Z) (c : qcache) : option qcache :=
  match keys with
  | [] => None
  | key :: rest =>
      match qc_get key c with
      | None => remove_walk value rest c
      | Some item =>
          if deque_remove_match value item
          then match qc_del key c with Some c' => Some c' | None => remove_walk value rest c end
          else remove_walk value rest c
      end
  end.

Definition dq_remove (value : val) (d : deque) : deque * res :=
  match remove_walk value (qc_iterkeys deque_remove_reverse (dq_cache d)) (dq_cache d) with
  | Some c' => (with_cache d c', RNone)
  | None => (d, RRaise deque_remove_exn)
  end.

(* ---- construction, reverse ---- *)

Definition dq_new (maxlen : option Z) (iterable : list val) : deque :=
  dq_extend iterable {| dq_cache := []; dq_maxlen := deque_init_maxlen maxlen |}.

Definition dq_source (s : iterdir) (d : deque) : list val :=
  match s with IterForward => dq_iter d | IterReversed => dq_reversed d end.

(* temp = Deque(iterable=reversed(self)); self._clear(); self._extend(temp); (temp is thrown away) *)
Definition dq_reverse (d : deque) : deque :=
  let temp := dq_new None (dq_source deque_reverse_source d) in
  dq_extend (dq_iter temp) (dq_clear d).

(* ---- rotate: pop + append steps ---- *)

Fixpoint rotate_loop (n : nat) (popm pushm : mref) (d : deque) : deque :=
  match n with
  | O => d
  | S n' => let '(d1, r) := dq_mref_pop popm d in
            match r with
            | RVal v => rotate_loop n' popm pushm (dq_mref_push pushm v d1)
            | _ => d1                                  (* except IndexError: return *)
            end
  end.

Definition dq_rotate (steps : Z) (d : deque) : deque :=
  let len_self := dq_len d in
  if deque_rotate_empty len_self then d
  else if deque_rotate_nonneg steps then
    let steps := steps mod len_self in
    rotate_loop (Z.to_nat steps) deque_rotate_right_pop deque_rotate_right_push d
  else
    let steps := steps * deque_rotate_neg_factor in
    let steps := steps mod len_self in
    rotate_loop (Z.to_nat steps) deque_rotate_left_pop deque_rotate_left_push d.

(* ---- one call ---- *)

Definition dq_step (d : deque) (o : dq_op) : deque * res :=
  match o with
  | OAppend v => (dq_append v d, RNone)
  | OAppendLeft v => (dq_appendleft v d, RNone)
  | OExtend l | OIadd l => (dq_extend l d, RNone)
  | OExtendLeft l => (dq_extendleft l d, RNone)
  | OPop => dq_pop d
  | OPopLeft => dq_popleft d
  | OPeek => dq_peek d
  | OPeekLeft => dq_peekleft d
  | OGet i => dq_getitem i d
  | OSet i v => dq_setitem i v d
  | ODel i => dq_delitem i d
  | ORotate n => (dq_rotate n d, RNone)
  | OReverse => (dq_reverse d, RNone)
  | ORemove v => dq_remove v d
  | OCount v => (d, RInt (dq_count v d))
  | OCompare m that => (d, RBool (dq_compare m that d))
  | OIter => (d, RList (dq_iter d))
  | OReversed => (d, RList (dq_reversed d))
  | OLen => (d, RInt (dq_len d))
  | OClear => (dq_clear d, RNone)
  | OSetMaxlen m => dq_set_maxlen (Z.of_nat m) d
  end.

(* ---- handles: reopening the directory, copy(), pickle round trip ---- *)

Definition has_field (f : state_field) (l : list state_field) : bool :=
  existsb (fun g => match f, g with SF_directory, SF_directory | SF_maxlen, SF_maxlen => true | _, _ => false end) l.

(* a new handle built from the fields that travel (to __init__(directory=..., maxlen=...)) *)
Definition dq_carry (fields : list state_field) (d : deque) : deque :=
  {| dq_cache := if has_field SF_directory fields then dq_cache d else [];
     dq_maxlen := if has_field SF_maxlen fields
                  then match dq_maxlen d with None => None | Some m => deque_init_maxlen (Some m) end
                  else deque_init_maxlen None |}.

Definition dq_unpickle_pickle := dq_carry deque_getstate.
Definition dq_copy := dq_carry deque_copy_args.
Definition dq_reopen (maxlen : option Z) (d : deque) : deque :=
  {| dq_cache := dq_cache d; dq_maxlen := deque_init_maxlen maxlen |}.

Inductive dq_event := EOp (o : dq_op) | EReopen (maxlen : option Z) | ECopy | EPickle.

Definition dq_event_step (d : deque) (e : dq_event) : deque * res :=
  match e with
  | EOp o => dq_step d o
  | EReopen m => (dq_reopen m d, RNone)
  | ECopy => (dq_copy d, RNone)
  | EPickle => (dq_unpickle_pickle d, RNone)
  end.

(* ---- traces, for the correspondence with the implementation ---- *)

(* observation after each call: result, list(d), list(d.cache.iterkeys()) *)
Definition dq_obs := (res * list val * list Z)%type.

Fixpoint dq_trace (d : deque) (es : list dq_event) : list dq_obs :=
  match es with
  | [] => []
  | e :: r => let '(d', x) := dq_event_step d e in
              (x, qc_view (dq_cache d'), qc_keys (dq_cache d')) :: dq_trace d' r
  end.

Definition dq_obs_eqb (a b : dq_obs) : bool :=
  let '(r1, v1, k1) := a in let '(r2, v2, k2) := b in
  res_eqb r1 r2 && zlist_eqb v1 v2 && zlist_eqb k1 k2.

Definition dq_check (maxlen : option Z) (init : list val) (es : list dq_event) (expected : list dq_obs) : bool :=
  list_eqb dq_obs_eqb (dq_trace (dq_new maxlen init) es) expected.

(* the same trace on the specification (validates ldq_step against collections.deque) *)
Fixpoint ldq_trace (s : ldq) (es : list dq_event) : list (res * list val) :=
  match es with
  | [] => []
  | EOp o :: r => let '(s', x) := ldq_step s o in (x, l_items s') :: ldq_trace s' r
  | _ :: r => (RNone, l_items s) :: ldq_trace s r
  end.

Definition ldq_new (maxlen : option nat) (init : list val) : ldq :=
  {| l_items := fold_left (l_append maxlen) init []; l_maxlen := maxlen |}.

Definition ldq_check (maxlen : option nat) (init : list val) (es : list dq_event)
           (expected : list (res * list val)) : bool :=
  list_eqb (fun a b => res_eqb (fst a) (fst b) && zlist_eqb (snd a) (snd b))
           (ldq_trace (ldq_new maxlen init) es) expected.
