(* Atomic layer for the concurrent clause of C10: any number of clients push to and pull from one queue;
   every push and every successful pull is ONE atomic step on the queue (that a single Cache call is atomic
   is property C05; that push/pull act on the queue view like q_push/q_pull is C10_deque_refines).
   A schedule is a list of (client, operation): every interleaving of the clients' programs is such a list,
   and the program of client c is the sub-list of its operations.  Executable definitions only. *)
From DC Require Import DCPrelude Val DiskBase SqlBase Gen_Disk Disk Gen_Sql Cache.

Section QueueConc.
Context {A : Type}.

Inductive qop := QPush (sd : side) (x : A) | QPull (sd : side).
Definition event : Type := nat * qop.                 (* client id, operation *)
Definition item : Type := nat * A.                    (* producer id, payload *)

Record qstate := { q_items : list item;               (* the queue, front first *)
                   q_out : list (nat * item) }.       (* deliveries in the order they happened: consumer, item *)

Definition q_init : qstate := {| q_items := []; q_out := [] |}.

Definition q_push (sd : side) (x : item) (l : list item) : list item :=
  match sd with Back => l ++ [x] | Front => x :: l end.

(* None = the queue is empty: the pull returns the default and delivers nothing *)
Definition q_pull (sd : side) (l : list item) : option (item * list item) :=
  match sd with
  | Front => match l with [] => None | x :: r => Some (x, r) end
  | Back => match rev l with [] => None | x :: r => Some (x, rev r) end
  end.

Definition q_step (st : qstate) (e : event) : qstate :=
  match snd e with
  | QPush sd x => {| q_items := q_push sd (fst e, x) (q_items st); q_out := q_out st |}
  | QPull sd =>
      match q_pull sd (q_items st) with
      | None => st
      | Some (x, r) => {| q_items := r; q_out := q_out st ++ [(fst e, x)] |}
      end
  end.

Definition q_run (st : qstate) (sched : list event) : qstate := fold_left q_step sched st.

(* what was pushed, in the order of the push steps *)
Definition pushed (sched : list event) : list item :=
  flat_map (fun e => match snd e with QPush _ x => [(fst e, x)] | QPull _ => [] end) sched.
(* what was handed out, in the order of the successful pulls *)
Definition delivered (st : qstate) : list item := map snd (q_out st).
(* the program of one client *)
Definition program (c : nat) (sched : list event) : list qop :=
  map snd (filter (fun e => Nat.eqb (fst e) c) sched).
Definition by_producer (c : nat) (l : list item) : list item := filter (fun i => Nat.eqb (fst i) c) l.

(* disciplines *)
Definition fifo_op (o : qop) : bool := match o with QPush Back _ | QPull Front => true | _ => false end.
Definition mirror_op (o : qop) : bool := match o with QPush Front _ | QPull Back => true | _ => false end.
End QueueConc.
Arguments qop : clear implicits.
Arguments event : clear implicits.
Arguments item : clear implicits.
Arguments qstate : clear implicits.
