(* Cache.check / FanoutCache.check over arbitrary (damaged) states.  Executable definitions only.

   State = what check() looks at: the rows (rowid, size, filename), the two Settings counters and the
   directory tree below the cache directory.  NO invariant relates them: "damage" is any such state.
   The guards, the repairs, the pass order and the walk directions come from gen/Gen_Check.v.
   Outside the model: PRAGMA integrity_check / VACUUM (the database file itself is intact), the
   Timeout raised when the write lock cannot be taken, directories deeper than xx/yy, symbolic links. *)
From DC Require Import DCPrelude CheckBase Gen_Check.

Record row := { r_id : Z; r_size : Z; r_file : option Z }.
Record state := { rows : list row; s_count : Z; s_size : Z; tree : fs }.

Inductive warning :=
| WWrongSize (f real recorded : Z)     (* 'wrong file size: %s, %d != %d' % (full_path, real_size, size) *)
| WNotFound (f : Z)                    (* 'file not found: %s' *)
| WUnknown (f : Z)                     (* 'unknown file: %s' *)
| WEmptyDir (d : Z)                    (* 'empty directory: %s' *)
| WCount (stored counted : Z)          (* 'Settings.count != COUNT(Cache.key); %d != %d' *)
| WSize (stored summed : Z).           (* 'Settings.size != SUM(Cache.size); %d != %d' *)

(* (kind, canonical name): what two runs are compared by *)
Definition wkey (w : warning) : Z * Z :=
  match w with
  | WWrongSize f _ _ => (1, f) | WNotFound f => (2, f) | WUnknown f => (3, f)
  | WEmptyDir d => (4, d) | WCount _ _ => (5, 0) | WSize _ _ => (6, 0)
  end.
Definition wcode (w : warning) : list Z :=
  match w with
  | WWrongSize f a b => [1; f; a; b] | WNotFound f => [2; f] | WUnknown f => [3; f]
  | WEmptyDir d => [4; d] | WCount a b => [5; a; b] | WSize a b => [6; a; b]
  end.

(* ---- the file system as check() sees it ---- *)
Definition d1_all_files (d : dir1) : list file := d1_files d ++ flat_map d2_files (d1_subs d).
Definition all_files (t : fs) : list file := root_files t ++ flat_map d1_all_files (root_subs t).

(* op.exists / op.getsize *)
Definition lookup_file (t : fs) (f : Z) : option Z :=
  match find (fun x => f_id x =? f) (all_files t) with Some x => Some (f_size x) | None => None end.

Definition root_id : Z := 0.

(* ---- pass 1: rows against files; the SQL repairs with the triggers they fire ---- *)
Definition has_file (r : row) : bool := is_some (r_file r).
Definition set_size (x : row) (v : Z) : row := {| r_id := r_id x; r_size := v; r_file := r_file x |}.

(* UPDATE fires Settings_size_update (size += NEW.size - OLD.size) per row; DELETE fires
   Settings_count_delete (count -= 1) and Settings_size_delete (size -= OLD.size) per row *)
Definition apply_row_repair (rep : row_repair) (rowid real recorded : Z) (s : state) : state :=
  let affected := filter (fun x => r_id x =? rowid) (rows s) in
  match rep with
  | RowSetSize src =>
      let v := match src with SrcRealSize => real | SrcRowSize => recorded end in
      {| rows := map (fun x => if r_id x =? rowid then set_size x v else x) (rows s);
         s_count := s_count s;
         s_size := s_size s + sumZ (map (fun x => v - r_size x) affected);
         tree := tree s |}
  | RowDelete =>
      {| rows := filter (fun x => negb (r_id x =? rowid)) (rows s);
         s_count := s_count s - Z.of_nat (length affected);
         s_size := s_size s - sumZ (map r_size affected);
         tree := tree s |}
  | RowNone => s
  end.

(* one iteration of `for rowid, size, filename in rows` (rows = the snapshot fetched before the loop) *)
Definition step_row (fx : bool) (t : fs) (c : state * list warning) (r : row) : state * list warning :=
  match r_file r with
  | None => c
  | Some f =>
      match lookup_file t f with
      | Some real =>
          if g_wrong_size (r_size r) real
          then ((if g_fix_wrong_size fx then apply_row_repair repair_wrong_size (r_id r) real (r_size r) (fst c) else fst c),
                snd c ++ [WWrongSize f real (r_size r)])
          else c
      | None =>
          ((if g_fix_not_found fx then apply_row_repair repair_not_found (r_id r) 0 (r_size r) (fst c) else fst c),
           snd c ++ [WNotFound f])
      end
  end.

Definition snapshot (s : state) : list row := filter has_file (rows s).
Definition filenames (s : state) : list Z :=
  flat_map (fun r => match r_file r with Some f => [f] | None => [] end) (rows s).

Definition pass_rows (fx : bool) (s : state) : state * list warning :=
  fold_left (step_row fx (tree s)) (snapshot s) (s, []).

(* ---- pass 2: files against rows ---- *)
Definition unknown_file (known : list Z) (x : file) : bool :=
  negb (existsb (Z.eqb (f_id x)) known) && negb (g_skip_unknown x).
Definition removes_file (rep : fs_repair) : bool := match rep with FsRemoveFile => true | _ => false end.
Definition file_removed (fx : bool) (known : list Z) (x : file) : bool :=
  unknown_file known x && g_fix_unknown fx && removes_file repair_unknown.
Definition scan_files (fx : bool) (known : list Z) (l : list file) : list file * list warning :=
  (filter (fun x => negb (file_removed fx known x)) l,
   map (fun x => WUnknown (f_id x)) (filter (unknown_file known) l)).

Definition ord {A} (w : walk_order) (here below : list A) : list A :=
  match w with TopDown => here ++ below | BottomUp => below ++ here end.

Definition unknown_d2 fx known (d : dir2) : dir2 * list warning :=
  let r := scan_files fx known (d2_files d) in
  ({| d2_id := d2_id d; d2_files := fst r |}, snd r).
Definition unknown_d1 fx known (d : dir1) : dir1 * list warning :=
  let r := scan_files fx known (d1_files d) in
  let rs := map (unknown_d2 fx known) (d1_subs d) in
  ({| d1_id := d1_id d; d1_files := fst r; d1_subs := map fst rs |}, ord walk_unknown (snd r) (flat_map snd rs)).
(* the listing of the cache directory itself contains the database file *)
Definition pass_unknown (fx : bool) (known : list Z) (t : fs) : fs * list warning :=
  let r := scan_files fx known (root_files t) in
  let r0 := scan_files fx known [db_file] in
  let rs := map (unknown_d1 fx known) (root_subs t) in
  ({| root_files := fst r; root_subs := map fst rs |}, ord walk_unknown (snd r0 ++ snd r) (flat_map snd rs)).

(* ---- pass 3: empty directories.  os.walk reads the listing (dirs, files) of a directory when it
   reaches it, BEFORE anything below it is visited (in both directions: bottom-up only delays the
   yield), and never re-reads it: removing a leaf makes its parent empty only after the parent's
   listing was taken.  os.rmdir removes the directory only; os.removedirs then prunes every parent
   that became empty (it stops at the cache directory, which holds the database). *)
Definition removes_dir (rep : fs_repair) : bool := match rep with FsRmdir | FsRemovedirs => true | _ => false end.
Definition prunes (rep : fs_repair) : bool := match rep with FsRemovedirs => true | _ => false end.
Definition keep {A} (l : list (option A * list warning)) : list A :=
  flat_map (fun r => match fst r with Some x => [x] | None => [] end) l.

Definition empty_d2 (rep : fs_repair) (fx : bool) (d : dir2) : option dir2 * list warning :=
  if g_empty_dir (@nil unit) (d2_files d)
  then ((if g_fix_empty fx && removes_dir rep then None else Some d), [WEmptyDir (d2_id d)])
  else (Some d, []).
Definition empty_d1 (rep : fs_repair) (fx : bool) (d : dir1) : option dir1 * list warning :=
  if g_empty_dir (d1_subs d) (d1_files d)
  then ((if g_fix_empty fx && removes_dir rep then None else Some d), [WEmptyDir (d1_id d)])
  else
    let rs := map (empty_d2 rep fx) (d1_subs d) in
    let subs' := keep rs in
    let pruned := g_fix_empty fx && prunes rep && is_nil subs' && is_nil (d1_files d) in
    ((if pruned then None else Some {| d1_id := d1_id d; d1_files := d1_files d; d1_subs := subs' |}),
     ord walk_empty [] (flat_map snd rs)).
Definition pass_empty (rep : fs_repair) (fx : bool) (t : fs) : fs * list warning :=
  let rs := map (empty_d1 rep fx) (root_subs t) in
  let here := if g_empty_dir (root_subs t) (db_file :: root_files t) then [WEmptyDir root_id] else [] in
  ({| root_files := root_files t; root_subs := keep rs |}, ord walk_empty here (flat_map snd rs)).

(* ---- passes 4 and 5: the counters ---- *)
Definition apply_ctr (rep : ctr_repair) (stored counted : Z) (s : state) : state :=
  match rep with
  | CtrSet which src =>
      let v := match src with SrcCounted => counted | SrcStored => stored end in
      match which with
      | CCount => {| rows := rows s; s_count := v; s_size := s_size s; tree := tree s |}
      | CSize => {| rows := rows s; s_count := s_count s; s_size := v; tree := tree s |}
      end
  | CtrNone => s
  end.
Definition row_count (s : state) : Z := Z.of_nat (length (rows s)).         (* COUNT(key): keys are never NULL *)
Definition row_sum (s : state) : Z := sumZ (map r_size (rows s)).           (* COALESCE(SUM(size), 0) *)
Definition pass_count (fx : bool) (s : state) : state * list warning :=
  if g_count_wrong (s_count s) (row_count s)
  then ((if g_fix_count fx then apply_ctr repair_count (s_count s) (row_count s) s else s), [WCount (s_count s) (row_count s)])
  else (s, []).
Definition pass_size (fx : bool) (s : state) : state * list warning :=
  if g_size_wrong (s_size s) (row_sum s)
  then ((if g_fix_size fx then apply_ctr repair_size (s_size s) (row_sum s) s else s), [WSize (s_size s) (row_sum s)])
  else (s, []).

(* ---- the whole check: the passes in source order ---- *)
Record cstate := { c_s : state; c_known : list Z; c_warns : list warning }.
Definition with_tree (s : state) (t : fs) : state := {| rows := rows s; s_count := s_count s; s_size := s_size s; tree := t |}.

Definition run_pass (rep_empty : fs_repair) (fx : bool) (c : cstate) (p : pass) : cstate :=
  match p with
  | PassRows =>
      let r := pass_rows fx (c_s c) in
      {| c_s := fst r; c_known := filenames (c_s c); c_warns := c_warns c ++ snd r |}
  | PassUnknown =>
      let r := pass_unknown fx (c_known c) (tree (c_s c)) in
      {| c_s := with_tree (c_s c) (fst r); c_known := c_known c; c_warns := c_warns c ++ snd r |}
  | PassEmpty =>
      let r := pass_empty rep_empty fx (tree (c_s c)) in
      {| c_s := with_tree (c_s c) (fst r); c_known := c_known c; c_warns := c_warns c ++ snd r |}
  | PassCount =>
      let r := pass_count fx (c_s c) in
      {| c_s := fst r; c_known := c_known c; c_warns := c_warns c ++ snd r |}
  | PassSize =>
      let r := pass_size fx (c_s c) in
      {| c_s := fst r; c_known := c_known c; c_warns := c_warns c ++ snd r |}
  end.

(* check with the empty-directory repair as a parameter (so that a patched repair can be studied) *)
Definition check_with (rep_empty : fs_repair) (s : state) (fx : bool) : state * list warning :=
  let c := fold_left (run_pass rep_empty fx) check_passes {| c_s := s; c_known := []; c_warns := [] |} in
  (c_s c, c_warns c).

(* Cache.check(fx) *)
Definition check1 (s : state) (fx : bool) : state * list warning := check_with repair_empty s fx.

(* FanoutCache.check(fx): every shard once, warnings concatenated *)
Definition check_fanout (ss : list state) (fx : bool) : list state * list warning :=
  let f := if fanout_check_passes_fix then fx else false in
  let rs := map (fun s => check1 s f) ss in
  (map fst rs, flat_map snd (if fanout_check_in_shard_order then rs else rev rs)).

(* ---- helpers for the correspondence run ---- *)
Definition row_eqb (a b : row) : bool :=
  (r_id a =? r_id b) && (r_size a =? r_size b) && option_eqb Z.eqb (r_file a) (r_file b).
Definition file_eqb (a b : file) : bool := (f_id a =? f_id b) && (f_size a =? f_size b) && Bool.eqb (f_db a) (f_db b).
Definition dir2_eqb (a b : dir2) : bool := (d2_id a =? d2_id b) && list_eqb file_eqb (d2_files a) (d2_files b).
Definition dir1_eqb (a b : dir1) : bool :=
  (d1_id a =? d1_id b) && list_eqb file_eqb (d1_files a) (d1_files b) && list_eqb dir2_eqb (d1_subs a) (d1_subs b).
Definition fs_eqb (a b : fs) : bool :=
  list_eqb file_eqb (root_files a) (root_files b) && list_eqb dir1_eqb (root_subs a) (root_subs b).
Definition state_eqb (a b : state) : bool :=
  list_eqb row_eqb (rows a) (rows b) && (s_count a =? s_count b) && (s_size a =? s_size b) && fs_eqb (tree a) (tree b).

Definition code_leb (a b : list Z) : bool := match lex_cmp a b with Gt => false | _ => true end.
Definition sorted_codes (ws : list warning) : list (list Z) :=
  fold_right (insert_by code_leb) [] (map wcode ws).
Definition codes_eqb (a b : list (list Z)) : bool := list_eqb zlist_eqb a b.

(* does the implementation's observation (state after, sorted warning codes) agree with the model? *)
Definition agrees (s : state) (fx : bool) (after : state) (codes : list (list Z)) : bool :=
  let r := check1 s fx in state_eqb (fst r) after && codes_eqb (sorted_codes (snd r)) codes.
Definition agrees_fanout (ss : list state) (fx : bool) (after : list state) (codes : list (list Z)) : bool :=
  let r := check_fanout ss fx in list_eqb state_eqb (fst r) after && codes_eqb (sorted_codes (snd r)) codes.
