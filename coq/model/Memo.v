(* Memoizing wrappers (Cache.memoize, FanoutCache.memoize, Index.memoize, DjangoCache.memoize,
   memoize_stampede) over an abstract key -> (value, expiry) store.  Executable definitions only.
   The store is the reference dictionary restricted to what the wrapper touches; that Cache.get/set
   refine such a dictionary is property C03. *)
From DC Require Import DCPrelude ArgsKeyBase Gen_ArgsKey.

Definition key_eqb (a b : list el) : bool := list_eqb el_eqb a b.

Record entry := { e_key : list el; e_val : Z; e_exp : option Z }.
Definition mstore := list entry.

Definition live (now : Z) (e : entry) : bool :=
  match e_exp e with None => true | Some t => t >? now end.

Fixpoint mget (now : Z) (k : list el) (s : mstore) : option Z :=
  match s with
  | [] => None
  | e :: r => if key_eqb (e_key e) k then (if live now e then Some (e_val e) else None)
              else mget now k r
  end.

Fixpoint mset (k : list el) (v : Z) (exp : option Z) (s : mstore) : mstore :=
  match s with
  | [] => [{| e_key := k; e_val := v; e_exp := exp |}]
  | e :: r => if key_eqb (e_key e) k then {| e_key := k; e_val := v; e_exp := exp |} :: r
              else e :: mset k v exp r
  end.

Section Wrapper.
  Variable f : list el -> kwargs_t -> Z.          (* the undecorated function *)
  Variables (base : list el) (typed : bool) (ignore : ignore_t).

  (* result, new store, whether f was run *)
  Definition wrapper (expire : option Z) (now : Z) (s : mstore) (a : list el) (kw : kwargs_t)
    : Z * mstore * bool :=
    let key := args_to_key base a kw typed ignore in
    match mget now key s with
    | Some v => (v, s, false)
    | None =>
        let r := f a kw in
        if memo_store_cache expire
        then (r, mset key r (match expire with Some d => Some (now + d) | None => None end) s, true)
        else (r, s, true)
    end.

  (* DjangoCache.memoize: `timeout` is mapped to an expiry by get_backend_timeout (C19);
     dflt is the backend default (None = never). *)
  Definition dj_expire (dflt : option Z) (t : dj_timeout) : option Z :=
    match t with DjDefault => dflt | DjNone => None | DjNum 0 => Some (-1) | DjNum d => Some d end.

  Definition wrapper_django (dflt : option Z) (timeout : dj_timeout) (now : Z) (s : mstore)
             (a : list el) (kw : kwargs_t) : Z * mstore * bool :=
    let key := args_to_key base a kw typed ignore in
    match mget now key s with
    | Some v => (v, s, false)
    | None =>
        let r := f a kw in
        if memo_store_django timeout
        then (r, mset key r (match dj_expire dflt timeout with
                             | Some d => Some (now + d) | None => None end) s, true)
        else (r, s, true)
    end.
End Wrapper.

(* What a caller can see of a call: the arguments that are not ignored. *)
Definition visible_args (ignore : ignore_t) (a : list el) : list el :=
  filter_index (arg_kept ignore) a.
Definition visible_kwargs (ignore : ignore_t) (kw : kwargs_t) : kwargs_t :=
  order_items true (filter (fun kv => kw_kept ignore (fst kv)) kw).
