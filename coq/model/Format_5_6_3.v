(* FROZEN: the on-disk format of diskcache 5.6.3.

   Written by hand, once, from the pinned source (git revision 5a4f96f of /repo: diskcache/core.py and
   diskcache/fanout.py).  It is NOT generated and must not be edited when the source changes: proofs/
   FormatFacts.v proves that what the translator reads off the current source (gen/Gen_Format.v,
   gen/Gen_Disk.v) equals this file, which is what turns "somebody changed the schema, the key or value
   encoding, the file layout or the shard naming" into a failed proof.

   Strings are written as Coq string literals and converted to lists of code points (the development's
   representation of text).  Executable definitions only.

   The four decision trees at the end are the released ones with the two recorded repairs applied
   (1466695: a float NaN value takes the pickle path instead of being bound as REAL, which SQLite stores
   as NULL; 3fcf1ee: text value files are written and read with newline='').  Neither changes how a
   directory written by the released code is read on POSIX: released code never stored a NaN as anything
   but NULL, and it wrote text files untranslated. *)
From Coq Require Import String Ascii.
From DC Require Import DCPrelude Val DiskBase FormatBase.

Definition str (s : string) : list Z := map (fun c => Z.of_nat (nat_of_ascii c)) (list_ascii_of_string s).

Definition DBNAME : list Z := str "cache.db".

Definition DEFAULT_SETTINGS : list (list Z * sval) := [
  (str "statistics", SVInt 0);
  (str "tag_index", SVInt 0);
  (str "eviction_policy", SVStr (str "least-recently-stored"));
  (str "size_limit", SVInt (2 ^ 30));
  (str "cull_limit", SVInt 10);
  (str "sqlite_auto_vacuum", SVInt 1);
  (str "sqlite_cache_size", SVInt (2 ^ 13));
  (str "sqlite_journal_mode", SVStr (str "wal"));
  (str "sqlite_mmap_size", SVInt (2 ^ 26));
  (str "sqlite_synchronous", SVInt 1);
  (str "disk_min_file_size", SVInt (2 ^ 15));
  (str "disk_pickle_protocol", SVPickleHighest)
].

Definition METADATA : list (list Z * sval) := [
  (str "count", SVInt 0); (str "size", SVInt 0); (str "hits", SVInt 0); (str "misses", SVInt 0)
].

(* defaults, then what the Settings table holds, then the caller's arguments; METADATA keys dropped *)
Definition merge_order : list merge_src := [SrcDefaults; SrcStored; SrcGiven].
Definition merge_drops_metadata : bool := true.

(* schema: tables, indexes, triggers, in the order Cache.__init__ creates them (whitespace-normalised) *)
Definition init_ddl : list (list Z) := [
  str "CREATE TABLE IF NOT EXISTS Settings ( key TEXT NOT NULL UNIQUE, value)";
  str "CREATE TABLE IF NOT EXISTS Cache ( rowid INTEGER PRIMARY KEY, key BLOB, raw INTEGER, store_time REAL, expire_time REAL, access_time REAL, access_count INTEGER DEFAULT 0, tag BLOB, size INTEGER DEFAULT 0, mode INTEGER DEFAULT 0, filename TEXT, value BLOB)";
  str "CREATE UNIQUE INDEX IF NOT EXISTS Cache_key_raw ON Cache(key, raw)";
  str "CREATE INDEX IF NOT EXISTS Cache_expire_time ON Cache (expire_time) WHERE expire_time IS NOT NULL";
  str "CREATE TRIGGER IF NOT EXISTS Settings_count_insert AFTER INSERT ON Cache FOR EACH ROW BEGIN UPDATE Settings SET value = value + 1 WHERE key = ""count""; END";
  str "CREATE TRIGGER IF NOT EXISTS Settings_count_delete AFTER DELETE ON Cache FOR EACH ROW BEGIN UPDATE Settings SET value = value - 1 WHERE key = ""count""; END";
  str "CREATE TRIGGER IF NOT EXISTS Settings_size_insert AFTER INSERT ON Cache FOR EACH ROW BEGIN UPDATE Settings SET value = value + NEW.size WHERE key = ""size""; END";
  str "CREATE TRIGGER IF NOT EXISTS Settings_size_update AFTER UPDATE ON Cache FOR EACH ROW BEGIN UPDATE Settings SET value = value + NEW.size - OLD.size WHERE key = ""size""; END";
  str "CREATE TRIGGER IF NOT EXISTS Settings_size_delete AFTER DELETE ON Cache FOR EACH ROW BEGIN UPDATE Settings SET value = value - OLD.size WHERE key = ""size""; END"
].

Definition policy_ddl : list (list Z * option (list Z)) := [
  (str "none", None);
  (str "least-recently-stored", Some (str "CREATE INDEX IF NOT EXISTS Cache_store_time ON Cache (store_time)"));
  (str "least-recently-used", Some (str "CREATE INDEX IF NOT EXISTS Cache_access_time ON Cache (access_time)"));
  (str "least-frequently-used", Some (str "CREATE INDEX IF NOT EXISTS Cache_access_count ON Cache (access_count)"))
].

Definition tag_index_ddl : list Z :=
  str "CREATE INDEX IF NOT EXISTS Cache_tag_rowid ON Cache(tag, rowid) WHERE tag IS NOT NULL".

(* value files: 16 random bytes in hex, xx/yy/<28 hex digits>.val *)
Definition value_file_layout : name_layout :=
  {| nl_random_bytes := 16; nl_split1 := 2; nl_split2 := 4; nl_suffix := str ".val" |}.

(* queues: integer keys in (0, 999999999999999) starting at 500000000000000; text keys "<prefix>-<15 digits>" *)
Definition queue : queue_keys :=
  {| qk_min := 0; qk_max := 999999999999999; qk_min_suffix := str "-000000000000000"; qk_max_suffix := str "-999999999999999";
     qk_start := 500000000000000; qk_format := str "{0}-{1:015d}" |}.

(* handles *)
Definition cache_getstate : list handle_field := [HDirectory; HTimeout; HDiskClass].
Definition cache_init_params : list handle_field := [HDirectory; HTimeout; HDiskClass].
Definition fanout_getstate : list handle_field := [HDirectory; HShards; HTimeout; HDiskClass].
Definition fanout_init_params : list handle_field := [HDirectory; HShards; HTimeout; HDiskClass].

(* FanoutCache: shard directories 000, 001, ...; size_limit (given or default) / shards passed to every shard on every open *)
Definition shard_dir_format : list Z := str "%03d".
Definition fanout_size_limit_rule : fanout_size_limit := SLAlwaysPassed.

(* ---- key and value encoding, lookup and routing decisions ---- *)
Definition MODE_NONE : Z := 0.
Definition MODE_RAW : Z := 1.
Definition MODE_BINARY : Z := 2.
Definition MODE_TEXT : Z := 3.
Definition MODE_PICKLE : Z := 4.

(* Disk.put: bytes as BLOB raw; str, int64 and float natively raw; everything else pickled, not raw *)
Definition put_plan_of (key : pyval) : put_plan :=
  match key with
  | VBytes _ => PutBlob true
  | VStr _ | VFloat _ => PutNative true
  | VInt z => if (-9223372036854775808 <=? z) && (z <=? 9223372036854775807) then PutNative true else PutPickle false
  | VOther _ | VStream _ => PutPickle false
  end.

Definition pickled (m : Z) (result : list Z) : store_plan :=
  if Z.of_nat (length result) <? m then PlanInline MODE_PICKLE (VBytes result)
  else PlanBytesFile MODE_PICKLE SzLenResult OM_xb result.
Definition streamed (b : list Z) : store_plan := PlanStreamFile MODE_BINARY SzWritten OM_xb b.

(* Disk.store *)
Definition store_plan_of (m : Z) (pkv : pyval -> list Z) (value : pyval) (read : bool) : store_plan :=
  match value with
  | VStr s => if Z.of_nat (length s) <? m then PlanInline MODE_RAW value else PlanTextFile MODE_TEXT SzGetsize OM_x true s
  | VBytes b => if Z.of_nat (length b) <? m then PlanInline MODE_RAW value else PlanBytesFile MODE_BINARY SzLenValue OM_xb b
  | VInt z => if (-9223372036854775808 <=? z) && (z <=? 9223372036854775807) then PlanInline MODE_RAW value
              else if read then streamed [] else pickled m (pkv value)
  | VFloat FNaN => if read then streamed [] else pickled m (pkv value)
  | VFloat _ => PlanInline MODE_RAW value
  | VOther _ => if read then streamed [] else pickled m (pkv value)
  | VStream b => if read then streamed b else pickled m (pkv value)
  end.

(* Disk.fetch *)
Definition fetch_plan_of (mode : Z) (col_is_null : bool) (read : bool) : fetch_plan :=
  if mode =? 1 then FRaw
  else if mode =? 2 then (if read then FHandle OM_rb else FReadBytes OM_rb)
  else if mode =? 3 then FReadText OM_r true NLEmpty
  else if mode =? 4 then (if col_is_null then FUnpickleFile OM_rb else FUnpickleCol)
  else FNone.
Definition write_newline (has_encoding : bool) : nlarg := if has_encoding then NLEmpty else NLNone.

(* Disk.hash (shard routing) *)
Definition hash_mask : Z := 4294967295.
Definition hash_plan_of (disk_key : sqlval) : hash_plan :=
  match disk_key with
  | SBlob _ => HashAdlerBlob
  | SText _ => HashAdlerUtf8
  | SInt _ => HashIntMod
  | SReal _ | SNull => HashAdlerDouble
  end.
