(* Opening a cache directory (C18): how Cache.__init__ / FanoutCache.__init__ compute the settings from the
   defaults, the Settings table and the caller's arguments, what they write back, and what a pickled
   handle carries.  Executable definitions only.  The merge order, the METADATA keys, the getstate tuples
   and FanoutCache's size_limit rule come from gen/Gen_Format.v.

   A dictionary is an association list read as a sequence of assignments: the LAST pair of a key is its
   value (dict(pairs), dict.update and INSERT OR REPLACE all behave like that), so update is append.
   Iteration order of the dictionaries is not modelled (no result depends on it). *)
From DC Require Import DCPrelude FormatBase Gen_Format.

Section Dict.
  Context {V : Type}.
  Definition dict := list (list Z * V).

  Fixpoint lookup (k : list Z) (d : dict) : option V :=
    match d with
    | [] => None
    | (k', v) :: r => match lookup k r with
                      | Some x => Some x
                      | None => if zlist_eqb k k' then Some v else None
                      end
    end.
  Definition has (k : list Z) (d : dict) : bool := is_some (lookup k d).
  Definition mem (k : list Z) (ks : list (list Z)) : bool := existsb (zlist_eqb k) ks.

  (* sets.update(u) *)
  Definition update (d u : dict) : dict := d ++ u.
  (* for key in ks: sets.pop(key, None) *)
  Definition drop_keys (ks : list (list Z)) (d : dict) : dict := filter (fun kv => negb (mem (fst kv) ks)) d.

  Definition source (defaults stored given : dict) (s : merge_src) : dict :=
    match s with SrcDefaults => defaults | SrcStored => stored | SrcGiven => given end.

  (* sets = <first>.copy(); sets.update(<second>); sets.update(<third>); drop the METADATA keys *)
  Definition merge_settings (order : list merge_src) (drop : bool) (meta_keys : list (list Z)) (defaults stored given : dict) : dict :=
    let merged := fold_left (fun acc s => update acc (source defaults stored given s)) order [] in
    if drop then drop_keys meta_keys merged else merged.

  (* INSERT OR IGNORE INTO Settings for the METADATA defaults *)
  Definition insert_ignore (d meta : dict) : dict :=
    fold_left (fun acc kv => if has (fst kv) acc then acc else acc ++ [kv]) meta d.

  (* Cache.__init__ on a directory whose Settings table holds `stored`: the settings the handle sees, and
     the Settings table afterwards (INSERT OR REPLACE of every merged setting, INSERT OR IGNORE of METADATA) *)
  Definition open_settings (defaults stored given : dict) : dict :=
    merge_settings merge_order merge_drops_metadata (map fst METADATA) defaults stored given.
  Definition stored_after (meta defaults stored given : dict) : dict :=
    insert_ignore (update stored (open_settings defaults stored given)) meta.

  (* FanoutCache.__init__: what the Cache.__init__ of one shard is given.  `divide` = "/ shards"; `existed`: the shard's
     database file is there before the open (only SLWhenGivenOrNew looks at it).  settings.pop('size_limit', ...) is
     executed under every rule, so the rest of the given settings never contains size_limit. *)
  Definition fanout_given (rule : fanout_size_limit) (sl : list Z) (divide : V -> V) (existed : bool) (defaults given : dict) : dict :=
    match rule with
    | SLAlwaysPassed =>
        match (match lookup sl given with Some v => Some v | None => lookup sl defaults end) with
        | Some v => drop_keys [sl] given ++ [(sl, divide v)]
        | None => drop_keys [sl] given          (* DEFAULT_SETTINGS['size_limit'] would raise KeyError *)
        end
    | SLWhenGiven =>
        match lookup sl given with
        | Some v => drop_keys [sl] given ++ [(sl, divide v)]
        | None => given
        end
    | SLWhenGivenOrNew =>
        match lookup sl given with
        | Some v => drop_keys [sl] given ++ [(sl, divide v)]
        | None =>
            if existed then drop_keys [sl] given                (* nothing passed: the shard keeps what it stored *)
            else match lookup sl defaults with
                 | Some v => drop_keys [sl] given ++ [(sl, divide v)]
                 | None => drop_keys [sl] given                 (* DEFAULT_SETTINGS['size_limit'] would raise KeyError *)
                 end
        end
    end.
End Dict.

Definition size_limit_key : list Z := [115; 105; 122; 101; 95; 108; 105; 109; 105; 116].   (* 'size_limit' *)

(* one shard of a FanoutCache opened with `given`, under a given size_limit rule; `existed`: the shard's database
   file was there before this open (then `stored` is its Settings table; a new shard has stored = []) *)
Definition fanout_open_settings_with {V} (rule : fanout_size_limit) (divide : V -> V) (existed : bool) (defaults stored given : @dict V) : @dict V :=
  open_settings defaults stored (fanout_given rule size_limit_key divide existed defaults given).
Definition fanout_stored_after_with {V} (rule : fanout_size_limit) (divide : V -> V) (existed : bool) (meta defaults stored given : @dict V) : @dict V :=
  stored_after meta defaults stored (fanout_given rule size_limit_key divide existed defaults given).

(* ... under the rule of the current source (gen/Gen_Format.v) *)
Definition fanout_open_settings {V} (divide : V -> V) (existed : bool) (defaults stored given : @dict V) : @dict V :=
  fanout_open_settings_with fanout_size_limit_rule divide existed defaults stored given.
Definition fanout_stored_after {V} (divide : V -> V) (existed : bool) (meta defaults stored given : @dict V) : @dict V :=
  fanout_stored_after_with fanout_size_limit_rule divide existed meta defaults stored given.

Definition sval_div (n : Z) (v : sval) : sval := match v with SVInt z => SVInt (z / n) | x => x end.

(* ---- handles ---- *)
(* everything an object remembers besides the directory's own state *)
Record handle := { h_directory : Z; h_timeout : Z; h_disk : Z; h_shards : Z; h_maxlen : Z }.
Definition field (h : handle) (f : handle_field) : Z :=
  match f with HDirectory => h_directory h | HTimeout => h_timeout h | HDiskClass => h_disk h | HShards => h_shards h | HMaxlen => h_maxlen h end.
Definition set_field (h : handle) (f : handle_field) (v : Z) : handle :=
  match f with
  | HDirectory => {| h_directory := v; h_timeout := h_timeout h; h_disk := h_disk h; h_shards := h_shards h; h_maxlen := h_maxlen h |}
  | HTimeout => {| h_directory := h_directory h; h_timeout := v; h_disk := h_disk h; h_shards := h_shards h; h_maxlen := h_maxlen h |}
  | HDiskClass => {| h_directory := h_directory h; h_timeout := h_timeout h; h_disk := v; h_shards := h_shards h; h_maxlen := h_maxlen h |}
  | HShards => {| h_directory := h_directory h; h_timeout := h_timeout h; h_disk := h_disk h; h_shards := v; h_maxlen := h_maxlen h |}
  | HMaxlen => {| h_directory := h_directory h; h_timeout := h_timeout h; h_disk := h_disk h; h_shards := h_shards h; h_maxlen := v |}
  end.
(* __getstate__: the tuple of the listed components *)
Definition getstate (fields : list handle_field) (h : handle) : list Z := map (field h) fields.
(* __setstate__: self.__init__( *state): the i-th component becomes the i-th positional parameter; parameters
   without a component keep the defaults of __init__ *)
Fixpoint setstate (params : list handle_field) (state : list Z) (defaults : handle) : handle :=
  match params, state with
  | p :: ps, v :: vs => setstate ps vs (set_field defaults p v)
  | _, _ => defaults
  end.

(* ---- helpers for the correspondence run (values coded as integers) ---- *)
Definition optZ_eqb (a b : option Z) : bool := option_eqb Z.eqb a b.
Definition same_on (keys : list (list Z)) (a b : @dict Z) : bool :=
  forallb (fun k => optZ_eqb (lookup k a) (lookup k b)) keys.
