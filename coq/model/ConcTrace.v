(* The stage automaton of one client of the micro-step machine, as an acceptor of event-tag sequences.
   proofs/ConcTraceFacts.v shows that every step of the machine is a transition of this automaton; the
   harness checks that the event sequence of every instrumented API call of the implementation is a
   path of the same automaton (trace correspondence, DESIGN.md 4.2 driver 2).  Executable only. *)
From DC Require Import DCPrelude Conc.

Inductive phase := PhStart | PhCreated | PhAtBegin | PhInTxn | PhBodyDone | PhAfter | PhFetched | PhTimeout | PhSelected | PhMissed.

Definition phase_eqb (a b : phase) : bool :=
  match a, b with
  | PhStart, PhStart | PhCreated, PhCreated | PhAtBegin, PhAtBegin | PhInTxn, PhInTxn | PhBodyDone, PhBodyDone
  | PhAfter, PhAfter | PhFetched, PhFetched | PhTimeout, PhTimeout | PhSelected, PhSelected | PhMissed, PhMissed => true
  | _, _ => false
  end.

(* early = removals before the commit decision are allowed (calls nested in a transact block) *)
Definition trans_ok (early : bool) (p : phase) (t : tag) (q : phase) : bool :=
  match p, t, q with
  | PhStart, TCreate, PhCreated => true
  | PhStart, TNone, PhAtBegin => true                 (* a call that writes no value file *)
  | PhStart, TNone, PhStart => true                   (* nothing to do *)
  | PhStart, TSelect, PhSelected => true              (* lock-free lookup that has to open a file *)
  | PhStart, TSelect, PhStart => true                 (* lock-free lookup answered from the row *)
  | PhCreated, TClose, PhAtBegin => true
  | PhAtBegin, TBegin, PhInTxn => true
  | PhAtBegin, TBeginBusy, PhAtBegin => true          (* retry *)
  | PhAtBegin, TBeginBusy, PhTimeout => true
  | PhInTxn, TBody, PhBodyDone => true
  | PhBodyDone, TEarlyRm, PhBodyDone => early
  | PhBodyDone, TNone, PhBodyDone => true
  | PhBodyDone, TCommit, PhAfter => true
  | PhBodyDone, TRollback, PhAfter => true
  | PhAfter, TRemove, PhAfter => true
  | PhAfter, TNone, PhAfter => true
  | PhAfter, TNone, PhFetched => true
  | PhAfter, TNone, PhStart => true                   (* return *)
  | PhAfter, TFetchRead, PhFetched => true
  | PhFetched, TRemove, PhStart => true
  | PhFetched, TNone, PhStart => true                 (* peek / peekitem read the file and leave it *)
  | PhTimeout, TRemove, PhStart => true
  | PhTimeout, TReturn, PhStart => true
  | PhSelected, TOpenRead, PhStart => true            (* the file was there, or the lookup gives up *)
  | PhSelected, TOpenRead, PhMissed => true           (* the file is gone: the lookup looks the row up again *)
  | PhMissed, TSelect, PhSelected => true
  | PhMissed, TSelect, PhStart => true                (* the second SELECT finds no row, or an inline value *)
  | _, _, _ => false
  end.

Definition phase_of {D R} (p : pc D R) : phase :=
  match p with
  | Idle | Dead => PhStart
  | Storing _ _ => PhCreated
  | AtBegin _ _ => PhAtBegin
  | InTxn _ _ => PhInTxn
  | Early _ _ _ _ | AtCommit _ _ _ => PhBodyDone
  | Cleaning _ _ _ | Fetching _ _ => PhAfter
  | FetchRm _ _ => PhFetched
  | TimeoutRm _ => PhTimeout
  | ReadOpen _ _ _ _ _ => PhSelected
  | ReadAgain _ _ => PhMissed
  end.

Definition all_phases := [PhStart; PhCreated; PhAtBegin; PhInTxn; PhBodyDone; PhAfter; PhFetched; PhTimeout; PhSelected; PhMissed].

(* NFA run over the observable tags (TNone moves are silent) *)
Definition silent_closure1 (early : bool) (ps : list phase) : list phase :=
  ps ++ filter (fun q => existsb (fun p => trans_ok early p TNone q) ps && negb (existsb (phase_eqb q) ps)) all_phases.
Definition silent_closure (early : bool) (ps : list phase) : list phase :=
  silent_closure1 early (silent_closure1 early (silent_closure1 early ps)).
Definition nfa_step (early : bool) (ps : list phase) (t : tag) : list phase :=
  silent_closure early (filter (fun q => existsb (fun p => trans_ok early p t q) ps) all_phases).
Definition nfa_run (early : bool) (l : list tag) : list phase :=
  fold_left (nfa_step early) l (silent_closure early [PhStart]).
(* one complete API call: starts and ends in PhStart *)
Definition accepts (early : bool) (l : list tag) : bool := existsb (phase_eqb PhStart) (nfa_run early l).

(* a call interrupted by a kill: the events seen so far are a prefix of some path *)
Definition accepts_prefix (early : bool) (l : list tag) : bool := negb (is_nil (nfa_run early l)).
