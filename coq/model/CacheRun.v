(* Running histories through the model and comparing with what the implementation did
   (used by the correspondence checks; executable definitions only). *)
From DC Require Import DCPrelude Val DiskBase SqlBase Gen_Disk Disk Gen_Sql Cache.

(* codec from tables supplied by the harness: the real serialised forms of the values of a history *)
Fixpoint tbl_get (t : list (pyval * list Z)) (v : pyval) : list Z :=
  match t with [] => [] | (x, b) :: r => if pv_same x v then b else tbl_get r v end.
Fixpoint tbl_rev (t : list (pyval * list Z)) (b : list Z) : option pyval :=
  match t with [] => None | (x, y) :: r => if zlist_eqb y b then Some x else tbl_rev r b end.
Definition mk_codec (tk tv : list (pyval * list Z)) : codec :=
  {| pkk := tbl_get tk; pkv := tbl_get tv;
     unpk := fun b => match tbl_rev tv b with Some v => Some v | None => tbl_rev tk b end |}.

Definition exn_eqb (a b : exn) : bool :=
  match a, b with
  | EKeyError, EKeyError | ETypeError, ETypeError | EOverflow, EOverflow | EBind, EBind
  | EStore, EStore | EOutOfFuel, EOutOfFuel | EEmpty, EEmpty => true
  | _, _ => false
  end.
Definition optz_eqb := option_eqb Z.eqb.
Definition key_pair_eqb (a b : sqlval * bool) : bool := sql_same (fst a) (fst b) && Bool.eqb (snd a) (snd b).

Definition result_eqb (a b : result) : bool :=
  match a, b with
  | RBool x, RBool y => Bool.eqb x y
  | RInt x, RInt y => x =? y
  | RDefault, RDefault => true
  | RVal v e t, RVal v' e' t' => fetched_eqb v v' && optz_eqb e e' && sql_same t t'
  | RKey k, RKey k' => sql_same k k'
  | RKV k r v e t, RKV k' r' v' e' t' =>
      sql_same k k' && Bool.eqb r r' && fetched_eqb v v' && optz_eqb e e' && sql_same t t'
  | RKeys l, RKeys l' => list_eqb key_pair_eqb l l'
  | RStats h m, RStats h' m' => (h =? h') && (m =? m')
  | RRaise e, RRaise e' => exn_eqb e e'
  | _, _ => false
  end.

(* an observed row: the row (file id replaced by a 0/absent marker) and the bytes of its file *)
Definition row_obs_eqb (s : st) (r : row) (o : row * option fcontent) : bool :=
  let '(x, fc) := o in
  (rowid r =? rowid x) && sql_same (rkey r) (rkey x) && Bool.eqb (rraw r) (rraw x)
  && (store_time r =? store_time x) && optz_eqb (expire_time r) (expire_time x)
  && (access_time r =? access_time x) && (access_count r =? access_count x)
  && sql_same (rtag r) (rtag x) && (rsize r =? rsize x) && (rmode r =? rmode x)
  && Bool.eqb (is_some (rfile r)) (is_some (rfile x)) && sql_same (rvalue r) (rvalue x)
  && fcontent_eqb (fs_lookup s (rfile r)) fc.

Record obs := {
  o_rows : list (row * option fcontent); o_count : Z; o_size : Z; o_hits : Z; o_misses : Z; o_nfiles : Z
}.
Fixpoint rows_obs_eqb (s : st) (t : list row) (l : list (row * option fcontent)) : bool :=
  match t, l with
  | [], [] => true
  | r :: t', o :: l' => row_obs_eqb s r o && rows_obs_eqb s t' l'
  | _, _ => false
  end.
Definition obs_eqb (s : st) (o : obs) : bool :=
  rows_obs_eqb s (rows s) (o_rows o)
  && (n_count s =? o_count o) && (n_size s =? o_size o) && (n_hits s =? o_hits o) && (n_misses s =? o_misses o)
  && (Z.of_nat (length (fs s)) =? o_nfiles o).

Record call := { c_op : op; c_now : Z; c_vols : list Z; c_res : result; c_obs : option obs }.

(* index of the first call whose result (or following state, where observed) differs; -1 if none *)
Fixpoint run_cmp (c : cfg) (s : st) (i : Z) (l : list call) : Z :=
  match l with
  | [] => -1
  | x :: r =>
      let '(s', got) := step c s (c_op x) (c_now x) (c_vols x) in
      if result_eqb got (c_res x) && match c_obs x with Some o => obs_eqb s' o | None => true end
      then run_cmp c s' (i + 1) r
      else i
  end.

Fixpoint run_model (c : cfg) (s : st) (l : list call) : st * list result :=
  match l with
  | [] => (s, [])
  | x :: r => let '(s', got) := step c s (c_op x) (c_now x) (c_vols x) in
              let '(sf, rs) := run_model c s' r in (sf, got :: rs)
  end.
