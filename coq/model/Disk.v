(* Interpretation of the generated Disk decision trees: what ends up in the row and in the value file,
   and what a lookup hands back.  Executable definitions only.  The serialisers are parameters:
     pkk  = pickletools.optimize(pickle.dumps(key, protocol))     (keys)
     pkv  = pickle.dumps(value, protocol)                         (values)
     unpk = pickle.load
   Theorems quantify over every such codec satisfying round-trip / injectivity. *)
From DC Require Import DCPrelude Val DiskBase Gen_Disk.

Record codec := { pkk : pyval -> list Z; pkv : pyval -> list Z; unpk : list Z -> option pyval }.

(* ---- keys ---- *)
Inductive put_res := PutOk (k : sqlval) (raw : bool) | PutRaise.

(* the interpretation of a put decision tree (the generated one below; the frozen released one in
   FormatFacts.released_put) *)
Definition put_with (plan : pyval -> put_plan) (c : codec) (key : pyval) : put_res :=
  match plan key with
  | PutBlob r => match key with VBytes b => PutOk (SBlob b) r | _ => PutRaise end
  | PutNative r => match bind key with Bound v => PutOk v r | _ => PutRaise end
  | PutPickle r => PutOk (SBlob (pkk c key)) r
  end.

Definition put (c : codec) (key : pyval) : put_res := put_with put_plan_of c key.

Definition get (c : codec) (k : sqlval) (raw : bool) : option pyval :=
  if raw then column k
  else match k with SBlob b => unpk c b | _ => None end.

(* identity of two database keys under the UNIQUE (key, raw) index *)
Definition db_same (a b : put_res) : bool :=
  match a, b with
  | PutOk k1 r1, PutOk k2 r2 => Bool.eqb r1 r2 && c_eq (sql_cmp k1 k2)
  | _, _ => false
  end.

(* the documented rule: text, bytes and numbers as in Python; everything else by type and structure *)
Definition key_num (k : pyval) : option num :=
  match k with
  | VInt z => if in_int64 z then Some (NDy z 0) else None
  | VFloat f => num_of_fl f
  | _ => None
  end.
Definition key_eq (a b : pyval) : bool :=
  match key_num a, key_num b with
  | Some x, Some y => c_eq (num_cmp x y)
  | None, None => pv_same a b
  | _, _ => false
  end.

(* unencodable text and streams are outside the key domain.  float('nan') is inside: Disk.put pickles it
   (repair of C02-F2), every NaN is the same key (key_eq: pv_same) and differs from every other key *)
Definition key_domain (k : pyval) : bool :=
  match k with
  | VStr s => encodable s
  | VStream _ => false
  | _ => true
  end.

(* ---- values ---- *)
Record stored := { s_size : Z; s_mode : Z; s_file : option fcontent; s_col : sqlval }.
Inductive store_res := StOk (s : stored) | StRaise.

Definition eval_sz (sz : szexpr) (value : pyval) (result : list Z) (content : fcontent) : Z :=
  match sz with
  | SzZero => 0
  | SzLenValue => pv_len value
  | SzLenResult => Z.of_nat (length result)
  | SzGetsize => fsize content
  | SzWritten => match content with FBytes b => Z.of_nat (length b) | FText s => Z.of_nat (length s) end
  end.

Definition run_plan (value : pyval) (plan : store_plan) : store_res :=
  match plan with
  | PlanInline m col =>
      match bind col with
      | Bound v => StOk {| s_size := 0; s_mode := m; s_file := None; s_col := v |}
      | _ => StRaise
      end
  | PlanBytesFile m sz om b =>
      if om_binary om
      then StOk {| s_size := eval_sz sz value b (FBytes b); s_mode := m; s_file := Some (FBytes b); s_col := SNull |}
      else StRaise
  | PlanTextFile m sz om utf8 s =>
      if negb (om_binary om) && utf8 && encodable s
      then let content := FText (write_translate (write_newline true) s) in
           StOk {| s_size := eval_sz sz value [] content; s_mode := m; s_file := Some content; s_col := SNull |}
      else StRaise
  | PlanStreamFile m sz om b =>
      if om_binary om
      then StOk {| s_size := eval_sz sz value b (FBytes b); s_mode := m; s_file := Some (FBytes b); s_col := SNull |}
      else StRaise
  | PlanRaise => StRaise
  end.

Definition store (c : codec) (min_file_size : Z) (value : pyval) (read : bool) : store_res :=
  run_plan value (store_plan_of min_file_size (pkv c) value read).

Inductive fetched :=
| FVal (v : pyval)
| FPyNone                 (* Python None *)
| FHandleOn (b : list Z)  (* open binary file positioned at 0 *)
| FIOError                (* file missing *)
| FBad.                   (* mode/content mismatch or failed unpickle: raises *)

Definition fetch (c : codec) (mode : Z) (file : option fcontent) (col : sqlval) (read : bool) : fetched :=
  match fetch_plan_of mode (match col with SNull => true | _ => false end) read with
  | FRaw => match column col with Some v => FVal v | None => FPyNone end
  | FReadBytes om =>
      match file with None => FIOError | Some (FBytes b) => if om_binary om then FVal (VBytes b) else FBad | _ => FBad end
  | FHandle om =>
      match file with None => FIOError | Some (FBytes b) => if om_binary om then FHandleOn b else FBad | _ => FBad end
  | FReadText om utf8 nl =>
      match file with
      | None => FIOError
      | Some (FText s) => if negb (om_binary om) && utf8 then FVal (VStr (read_translate nl s)) else FBad
      | _ => FBad
      end
  | FUnpickleFile om =>
      match file with
      | None => FIOError
      | Some (FBytes b) => if om_binary om then match unpk c b with Some v => FVal v | None => FBad end else FBad
      | _ => FBad
      end
  | FUnpickleCol => match col with SBlob b => match unpk c b with Some v => FVal v | None => FBad end | _ => FBad end
  | FNone => FPyNone
  end.

Definition fcontent_eqb (a b : option fcontent) : bool :=
  match a, b with
  | None, None => true
  | Some (FBytes x), Some (FBytes y) => zlist_eqb x y
  | Some (FText x), Some (FText y) => zlist_eqb x y
  | _, _ => false
  end.

Definition fetched_eqb (a b : fetched) : bool :=
  match a, b with
  | FVal x, FVal y => pv_same x y
  | FPyNone, FPyNone => true
  | FHandleOn x, FHandleOn y => zlist_eqb x y
  | FIOError, FIOError => true
  | FBad, FBad => true
  | _, _ => false
  end.

(* what a lookup of a stored value must hand back: the value itself; a stream comes back as its bytes *)
Definition expected (value : pyval) : pyval :=
  match value with VStream b => VBytes b | v => v end.

(* read=True is for streams, objects are stored with read=False *)
Definition shape_ok (value : pyval) (read : bool) : bool :=
  match value with VStream _ => read | _ => negb read end.

(* ---- JSONDisk: json+zlib bytes around Disk ---- *)
Record jcodec := { jz : pyval -> list Z; unjz : list Z -> option pyval }.

Definition jput (c : codec) (j : jcodec) (key : pyval) : put_res := put c (VBytes (jz j key)).
Definition jget (c : codec) (j : jcodec) (k : sqlval) (raw : bool) : option pyval :=
  match get c k raw with Some (VBytes b) => unjz j b | _ => None end.
Definition jstore (c : codec) (j : jcodec) (min_file_size : Z) (value : pyval) (read : bool) : store_res :=
  store c min_file_size (if read then value else VBytes (jz j value)) read.
Definition jfetch (c : codec) (j : jcodec) (mode : Z) (file : option fcontent) (col : sqlval) (read : bool) : fetched :=
  match fetch c mode file col read with
  | FVal (VBytes b) => if read then FVal (VBytes b) else match unjz j b with Some v => FVal v | None => FBad end
  | FVal _ => if read then FBad else FBad
  | r => r
  end.

(* ---- routing hash ---- *)
Fixpoint adler_go (a b : Z) (l : list Z) : Z * Z :=
  match l with [] => (a, b) | x :: r => let a' := (a + x) mod 65521 in adler_go a' ((b + a') mod 65521) r end.
Definition adler32 (l : list Z) : Z := let '(a, b) := adler_go 1 0 l in b * 65536 + a.
