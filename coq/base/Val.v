(* Python values as the cache sees them, SQLite values, and the CPython sqlite3 binding between them.
   Hand-written semantic model of things that are not diskcache source (trusted base, validated by the
   correspondence run of C01/C02 on every check). *)
From DC Require Import DCPrelude.

(* binary64 values as exact dyadics: FFin m e = m * 2^e (m <> 0, either sign).  The harness emits the
   canonical form (m odd); comparisons below are exact for any representation. *)
Inductive fl := FNaN | FInf (neg : bool) | FZero (neg : bool) | FFin (m e : Z).

Inductive pyval :=
| VInt (z : Z)              (* int, any magnitude *)
| VFloat (f : fl)
| VStr (s : list Z)         (* code points, lone surrogates included *)
| VBytes (b : list Z)
| VOther (id : Z)           (* any other picklable object (None, bool, tuple, ...): identified by an id;
                               its serialised forms come from the codec functions *)
| VStream (b : list Z).     (* a readable binary stream with content b (only meaningful with read=True) *)

Inductive sqlval := SNull | SInt (z : Z) | SReal (f : fl) | SText (s : list Z) | SBlob (b : list Z).

Definition is_int v := match v with VInt _ => true | _ => false end.
Definition is_float v := match v with VFloat _ => true | _ => false end.
Definition is_str v := match v with VStr _ => true | _ => false end.
Definition is_bytes v := match v with VBytes _ => true | _ => false end.
Definition pv_int v := match v with VInt z => z | _ => 0 end.
Definition pv_len v : Z :=
  match v with VStr s => Z.of_nat (length s) | VBytes b => Z.of_nat (length b) | _ => 0 end.
Definition is_nan v := match v with VFloat FNaN => true | _ => false end.
(* `value == value` in Python: false exactly for NaN *)
Definition pv_self_eq v := negb (is_nan v).

Definition int64_min : Z := -9223372036854775808.
Definition int64_max : Z := 9223372036854775807.
Definition in_int64 (z : Z) : bool := (int64_min <=? z) && (z <=? int64_max).

(* ---- exact numeric order on ints and non-NaN floats ---- *)
Definition pow2 (e : Z) : Z := 2 ^ e.

(* compare m1*2^e1 with m2*2^e2 *)
Definition dy_cmp (m1 e1 m2 e2 : Z) : comparison :=
  let e := Z.min e1 e2 in Z.compare (m1 * pow2 (e1 - e)) (m2 * pow2 (e2 - e)).

Inductive num := NNegInf | NPosInf | NDy (m e : Z).     (* zero is NDy 0 0 *)

Definition num_of_fl (f : fl) : option num :=
  match f with
  | FNaN => None
  | FInf true => Some NNegInf
  | FInf false => Some NPosInf
  | FZero _ => Some (NDy 0 0)
  | FFin m e => Some (NDy m e)
  end.

Definition num_cmp (a b : num) : comparison :=
  match a, b with
  | NNegInf, NNegInf => Eq
  | NNegInf, _ => Lt
  | _, NNegInf => Gt
  | NPosInf, NPosInf => Eq
  | NPosInf, _ => Gt
  | _, NPosInf => Lt
  | NDy m1 e1, NDy m2 e2 => dy_cmp m1 e1 m2 e2
  end.

(* ---- SQLite: storage classes, comparison, three-valued logic ---- *)
Definition sql_num (v : sqlval) : option num :=
  match v with
  | SInt z => Some (NDy z 0)
  | SReal f => num_of_fl f
  | _ => None
  end.

Definition sql_class (v : sqlval) : Z :=
  match v with SNull => 0 | SInt _ => 1 | SReal _ => 1 | SText _ => 2 | SBlob _ => 3 end.

(* total order used by ORDER BY and by index lookups: NULL < numeric < TEXT < BLOB *)
Definition sql_cmp (a b : sqlval) : comparison :=
  match Z.compare (sql_class a) (sql_class b) with
  | Eq =>
      match a, b with
      | SText s, SText t => lex_cmp s t
      | SBlob s, SBlob t => lex_cmp s t
      | SNull, SNull => Eq
      | _, _ =>
          match sql_num a, sql_num b with
          | Some x, Some y => num_cmp x y
          | _, _ => Eq          (* unreachable: REAL never holds NaN (bound as NULL) *)
          end
      end
  | c => c
  end.

(* three-valued results: None = NULL *)
Definition tv := option bool.
Definition tv_cmp (f : comparison -> bool) (a b : sqlval) : tv :=
  match a, b with
  | SNull, _ => None
  | _, SNull => None
  | _, _ => Some (f (sql_cmp a b))
  end.
Definition c_eq c := match c with Eq => true | _ => false end.
Definition c_lt c := match c with Lt => true | _ => false end.
Definition c_gt c := match c with Gt => true | _ => false end.
Definition c_le c := negb (c_gt c).
Definition c_ge c := negb (c_lt c).
Definition sql_eq := tv_cmp c_eq.
Definition sql_lt := tv_cmp c_lt.
Definition sql_gt := tv_cmp c_gt.
Definition sql_le := tv_cmp c_le.
Definition sql_ge := tv_cmp c_ge.
Definition sql_ne := tv_cmp (fun c => negb (c_eq c)).
Definition tv_and (a b : tv) : tv :=
  match a, b with
  | Some false, _ => Some false
  | _, Some false => Some false
  | Some true, Some true => Some true
  | _, _ => None
  end.
Definition tv_or (a b : tv) : tv :=
  match a, b with
  | Some true, _ => Some true
  | _, Some true => Some true
  | Some false, Some false => Some false
  | _, _ => None
  end.
Definition tv_not (a : tv) : tv := option_map negb a.
Definition tv_is_null (v : sqlval) : tv := Some (match v with SNull => true | _ => false end).
Definition tv_not_null (v : sqlval) : tv := Some (match v with SNull => false | _ => true end).
(* WHERE keeps a row iff the condition is true (NULL and false drop it) *)
Definition truthy (t : tv) : bool := match t with Some true => true | _ => false end.

(* a lone surrogate cannot be encoded to UTF-8 *)
Definition is_surrogate (c : Z) : bool := (55296 <=? c) && (c <=? 57343).
Definition encodable (s : list Z) : bool := forallb (fun c => negb (is_surrogate c)) s.

(* CPython sqlite3 parameter binding *)
Inductive bind_res := Bound (v : sqlval) | BindOverflow | BindUnicodeError | BindUnsupported.
Definition bind (v : pyval) : bind_res :=
  match v with
  | VInt z => if in_int64 z then Bound (SInt z) else BindOverflow
  | VFloat FNaN => Bound SNull                (* SQLite turns NaN into NULL *)
  | VFloat f => Bound (SReal f)
  | VStr s => if encodable s then Bound (SText s) else BindUnicodeError
  | VBytes b => Bound (SBlob b)
  | VOther _ => BindUnsupported
  | VStream _ => BindUnsupported
  end.

(* column value -> Python value as sqlite3 returns it (blob as bytes) *)
Definition column (v : sqlval) : option pyval :=
  match v with
  | SNull => None
  | SInt z => Some (VInt z)
  | SReal f => Some (VFloat f)
  | SText s => Some (VStr s)
  | SBlob b => Some (VBytes b)
  end.

Definition fl_eqb (a b : fl) : bool :=
  match a, b with
  | FNaN, FNaN => true
  | FInf x, FInf y => Bool.eqb x y
  | FZero x, FZero y => Bool.eqb x y
  | FFin m e, FFin m' e' => (m =? m') && (e =? e')
  | _, _ => false
  end.

(* same value AND same type, floats by sign/class/bits (so -0.0 <> 0.0, NaN = NaN) *)
Definition pv_same (a b : pyval) : bool :=
  match a, b with
  | VInt x, VInt y => x =? y
  | VFloat f, VFloat g => fl_eqb f g
  | VStr s, VStr t => zlist_eqb s t
  | VBytes s, VBytes t => zlist_eqb s t
  | VOther i, VOther j => i =? j
  | VStream s, VStream t => zlist_eqb s t
  | _, _ => false
  end.

Definition sql_same (a b : sqlval) : bool :=
  match a, b with
  | SNull, SNull => true
  | SInt x, SInt y => x =? y
  | SReal f, SReal g => fl_eqb f g
  | SText s, SText t => zlist_eqb s t
  | SBlob s, SBlob t => zlist_eqb s t
  | _, _ => false
  end.

(* UTF-8 length of a code point (file sizes of text values) *)
Definition utf8_len1 (c : Z) : Z := if c <? 128 then 1 else if c <? 2048 then 2 else if c <? 65536 then 3 else 4.
Definition utf8_len (s : list Z) : Z := sumZ (map utf8_len1 s).
