(* Vocabulary shared by the generated Gen_Persistent.v and the hand-written Deque / Index models.
   Definitions only. *)
From DC Require Import DCPrelude.

(* which end of a queue *)
Inductive side := Front | Back.
Definition side_eqb (a b : side) : bool :=
  match a, b with Front, Front | Back, Back => true | _, _ => false end.

(* exception classes raised by Deque / Index themselves *)
Inductive exn := IndexError | KeyError | ValueError | TypeError.
Definition exn_eqb (a b : exn) : bool :=
  match a, b with
  | IndexError, IndexError | KeyError, KeyError | ValueError, ValueError | TypeError, TypeError => true
  | _, _ => false
  end.

(* a Python object as far as the wrappers look at it: None, the ENOVAL sentinel, or a stored value
   (values are integers standing for arbitrary picklable objects; equal objects have equal ids) *)
Inductive comp := CNone | CEnoval | CVal (v : Z).
Definition comp_is_enoval (c : comp) : bool := match c with CEnoval => true | _ => false end.
Definition comp_is_none (c : comp) : bool := match c with CNone => true | _ => false end.

(* `default=` arguments handed to Cache methods *)
Inductive dflt := DfComp (c : comp) | DfPair (a b : comp).
Definition dflt_snd (d : dflt) : comp := match d with DfComp c => c | DfPair _ b => b end.

(* Cache methods the wrappers delegate to *)
Inductive cmeth :=
| CM_push | CM_pull | CM_peek | CM_getitem | CM_setitem | CM_delitem | CM_clear | CM_iterkeys
| CM_len | CM_pop | CM_add | CM_peekitem | CM_iter | CM_reversed | CM_transact.

(* one delegated call: method, side (push/pull/peek), default (pull/peek/pop), retry flag, and whether
   the call sits inside `with self._cache.transact(retry=True)` *)
Record qcall := { qc_meth : cmeth; qc_side : side; qc_default : dflt; qc_retry : bool; qc_in_txn : bool }.

(* references to Deque's own methods (`self._pop`, `self._appendleft`, ...) *)
Inductive mref := MR_append | MR_appendleft | MR_pop | MR_popleft.

(* operator module functions handed to _make_compare *)
Inductive seqop := OpEq | OpNe | OpLt | OpGt | OpLe | OpGe.
Definition seqop_eqb (a b : seqop) : bool :=
  match a, b with
  | OpEq, OpEq | OpNe, OpNe | OpLt, OpLt | OpGt, OpGt | OpLe, OpLe | OpGe, OpGe => true
  | _, _ => false
  end.
Definition seqop_apply (o : seqop) (x y : Z) : bool :=
  match o with
  | OpEq => x =? y | OpNe => negb (x =? y) | OpLt => x <? y | OpGt => x >? y | OpLe => x <=? y | OpGe => x >=? y
  end.

(* eviction policies as far as Deque/Index care *)
Inductive policy := PolNone | PolOther.

(* fields that travel in pickles / to copies *)
Inductive state_field := SF_directory | SF_maxlen.

(* iteration direction *)
Inductive iterdir := IterForward | IterReversed.

(* kinds of mappings Index.__eq__ distinguishes *)
Inductive mapkind := MK_Index | MK_OrderedDict | MK_dict.
Definition mapkind_eqb (a b : mapkind) : bool :=
  match a, b with MK_Index, MK_Index | MK_OrderedDict, MK_OrderedDict | MK_dict, MK_dict => true | _, _ => false end.

(* maxlen: None stands for float('inf') *)
Definition mlen := option Z.

(* results of model and specification steps *)
Inductive res :=
| RNone                     (* the call returned None *)
| RVal (v : Z)
| RPair (k v : Z)
| RInt (z : Z)
| RBool (b : bool)
| RList (l : list Z)
| RPairs (l : list (Z * Z))
| RSentinel                 (* the ENOVAL sentinel leaked to the caller *)
| RNotImplemented
| RRaise (e : exn)
| ROutOfFuel.

Definition pair_eqb (a b : Z * Z) : bool := (fst a =? fst b) && (snd a =? snd b).

Definition res_eqb (a b : res) : bool :=
  match a, b with
  | RNone, RNone => true
  | RVal x, RVal y => x =? y
  | RPair k v, RPair k' v' => (k =? k') && (v =? v')
  | RInt x, RInt y => x =? y
  | RBool x, RBool y => Bool.eqb x y
  | RList x, RList y => zlist_eqb x y
  | RPairs x, RPairs y => list_eqb pair_eqb x y
  | RSentinel, RSentinel => true
  | RNotImplemented, RNotImplemented => true
  | RRaise x, RRaise y => exn_eqb x y
  | ROutOfFuel, ROutOfFuel => true
  | _, _ => false
  end.

Definition res_of_comp (c : comp) : res :=
  match c with CNone => RNone | CEnoval => RSentinel | CVal v => RVal v end.
