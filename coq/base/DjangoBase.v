(* Vocabulary of the DjangoCache delegation table (djangocache.py).  Hand-written; the table itself and
   get_backend_timeout are regenerated into gen/Gen_Django.v by tools/emit_django.py.
   `dj_timeout` (DEFAULT_TIMEOUT sentinel | None | number of ticks) lives in ArgsKeyBase.v. *)
From DC Require Import DCPrelude ArgsKeyBase.

(* One tick is 2^-10 s; integer literals of the source that denote seconds are emitted as `sec n`. *)
Definition sec (s : Z) : Z := s * 1024.

(* self.default_timeout (None or a number) seen as a timeout argument *)
Definition dj_of_default (d : option Z) : dj_timeout :=
  match d with None => DjNone | Some t => DjNum t end.

(* methods of FanoutCache that DjangoCache calls (`FContains` is `key in self._cache`) *)
Inductive fmeth :=
| FAdd | FGet | FRead | FSet | FTouch | FPop | FDelete | FIncr | FDecr | FContains
| FExpire | FStats | FCreateTagIndex | FDropTagIndex | FEvict | FCull | FClear | FClose
| FCacheM | FDeque | FIndex.

(* methods of DjangoCache itself that another method may call (`decr` calls `self.incr`) *)
Inductive djmeth := MIncr.

Inductive target := TFan (m : fmeth) | TSelf (m : djmeth).

(* how the `key` handed on was obtained *)
Inductive keysrc :=
| KNone                      (* the method has no key *)
| KRaw                       (* the caller's key, unchanged *)
| KMade (with_version : bool).  (* self.make_key(key, version=version) / self.make_key(key) *)

(* how the `timeout` handed on was obtained *)
Inductive tsrc :=
| TNone                      (* the method has no timeout *)
| TRaw                       (* the caller's timeout, unchanged *)
| TBackend.                  (* self.get_backend_timeout(timeout=timeout) *)

(* parameters of the callee *)
Inductive fparam :=
| PKey | PValue | PExpire | PRead | PTag | PRetry | PDefault | PDelta | PExpireTime | PVersion
| PName | PMaxlen | PEnable | PReset.

(* expressions passed by DjangoCache: its own parameters, or `-delta` *)
Inductive farg :=
| AKey | AValue | ATimeout | ARead | ATag | ARetry | ADefault | ADelta | ANegDelta | AExpireTime
| AVersion | AName | AMaxlen | AEnable | AReset.

Inductive exc := KeyError | ValueError | TypeError.

Record deleg := {
  d_target : target;
  d_key : keysrc;
  d_timeout : tsrc;
  d_retry : option bool;           (* default of `retry` in the DjangoCache signature, None = no such parameter *)
  d_bind : list (fparam * farg);   (* callee parameter := argument, positional arguments resolved
                                      against the callee's signature, in call order *)
  d_exc : list (exc * exc);        (* except A: raise B *)
  d_returns : bool                 (* the callee's result is returned (false: result dropped, returns None) *)
}.

Definition exc_eqb (a b : exc) : bool :=
  match a, b with
  | KeyError, KeyError | ValueError, ValueError | TypeError, TypeError => true
  | _, _ => false
  end.

Fixpoint translate_exc (tbl : list (exc * exc)) (e : exc) : exc :=
  match tbl with
  | [] => e
  | (a, b) :: r => if exc_eqb a e then b else translate_exc r e
  end.

Definition farg_eqb (a b : farg) : bool :=
  match a, b with
  | AKey, AKey | AValue, AValue | ATimeout, ATimeout | ARead, ARead | ATag, ATag | ARetry, ARetry
  | ADefault, ADefault | ADelta, ADelta | ANegDelta, ANegDelta | AExpireTime, AExpireTime
  | AVersion, AVersion | AName, AName | AMaxlen, AMaxlen | AEnable, AEnable | AReset, AReset => true
  | _, _ => false
  end.

Definition fparam_eqb (a b : fparam) : bool :=
  match a, b with
  | PKey, PKey | PValue, PValue | PExpire, PExpire | PRead, PRead | PTag, PTag | PRetry, PRetry
  | PDefault, PDefault | PDelta, PDelta | PExpireTime, PExpireTime | PVersion, PVersion
  | PName, PName | PMaxlen, PMaxlen | PEnable, PEnable | PReset, PReset => true
  | _, _ => false
  end.

(* the argument bound to parameter p, if any *)
Fixpoint bound (p : fparam) (b : list (fparam * farg)) : option farg :=
  match b with
  | [] => None
  | (q, a) :: r => if fparam_eqb p q then Some a else bound p r
  end.
