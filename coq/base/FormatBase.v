(* Vocabulary for the on-disk format and for how a handle (re)opens a directory (C18): what
   gen/Gen_Format.v talks about.  Hand-written, stdlib only.  Strings are lists of code points. *)
From DC Require Import DCPrelude.

(* a settings value as written in the source *)
Inductive sval :=
| SVInt (z : Z)
| SVStr (s : list Z)
| SVPickleHighest.          (* pickle.HIGHEST_PROTOCOL: whatever the running Python provides *)

Definition sval_eqb (a b : sval) : bool :=
  match a, b with
  | SVInt x, SVInt y => x =? y
  | SVStr x, SVStr y => zlist_eqb x y
  | SVPickleHighest, SVPickleHighest => true
  | _, _ => false
  end.

(* the dictionaries Cache.__init__ merges, in the order it merges them *)
Inductive merge_src := SrcDefaults | SrcStored | SrcGiven.

(* what a pickled handle carries / the positional parameters of __init__ it is fed back into *)
Inductive handle_field := HDirectory | HTimeout | HDiskClass | HShards | HMaxlen.
Definition handle_field_eqb (a b : handle_field) : bool :=
  match a, b with
  | HDirectory, HDirectory | HTimeout, HTimeout | HDiskClass, HDiskClass | HShards, HShards | HMaxlen, HMaxlen => true
  | _, _ => false
  end.

(* how FanoutCache.__init__ treats size_limit *)
Inductive fanout_size_limit :=
| SLAlwaysPassed       (* size_limit = settings.pop('size_limit', DEFAULT) / shards, passed to every shard always *)
| SLWhenGiven          (* passed only when the caller gave it *)
| SLWhenGivenOrNew.    (* passed when the caller gave it, or when the shard is new (its database file does not exist before
                          the open): a new shard gets the given or default total / shards; a shard that exists and is opened
                          without the argument is given no size_limit at all and keeps the one stored in its Settings table *)

(* layout of a value file name: os.urandom(n) in hex, split at a and b, suffix *)
Record name_layout := { nl_random_bytes : Z; nl_split1 : Z; nl_split2 : Z; nl_suffix : list Z }.

(* the numeric / text queue keys of push/pull/peek *)
Record queue_keys := { qk_min : Z; qk_max : Z; qk_min_suffix : list Z; qk_max_suffix : list Z; qk_start : Z; qk_format : list Z }.
