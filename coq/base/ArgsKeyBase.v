(* Vocabulary for the memoization key (core.py args_to_key).  Hand-written; the function itself is
   regenerated into gen/Gen_ArgsKey.v.  Elements of a key tuple are compared the way the cache
   compares keys: by serialised form, i.e. structurally including the type (1, 1.0 and True are
   three different elements). *)
From DC Require Import DCPrelude.

Inductive el :=
| ENone                      (* None *)
| EEnoval                    (* the ENOVAL sentinel *)
| EStr (s : list Z)          (* a str, by code points *)
| EObj (ty v : Z)            (* any other value: type tag (>= 10) and an identifier of the value *)
| EType (ty : Z).            (* a type object *)

Definition ty_of (e : el) : Z :=
  match e with
  | ENone => 0 | EStr _ => 1 | EType _ => 2 | EEnoval => 3 | EObj ty _ => ty
  end.
Definition type_el (e : el) : el := EType (ty_of e).

Definition el_eqb (a b : el) : bool :=
  match a, b with
  | ENone, ENone => true
  | EEnoval, EEnoval => true
  | EStr s, EStr t => zlist_eqb s t
  | EObj t1 v1, EObj t2 v2 => (t1 =? t2) && (v1 =? v2)
  | EType t1, EType t2 => t1 =? t2
  | _, _ => false
  end.

Definition kwargs_t := list (list Z * el).

(* `ignore` may hold positional indices and keyword names. *)
Record ignore_t := { ig_pos : list Z; ig_names : list (list Z) }.
Definition ig_has_pos (ig : ignore_t) (i : Z) : bool := existsb (Z.eqb i) (ig_pos ig).
Definition ig_has_name (ig : ignore_t) (n : list Z) : bool := existsb (zlist_eqb n) (ig_names ig).

Fixpoint filter_index_from {A} (f : Z -> bool) (i : Z) (l : list A) : list A :=
  match l with
  | [] => []
  | x :: r => if f i then x :: filter_index_from f (i + 1) r else filter_index_from f (i + 1) r
  end.
Definition filter_index {A} (f : Z -> bool) (l : list A) : list A := filter_index_from f 0 l.

Definition name_ltb (a b : list Z) : bool :=
  match lex_cmp a b with Lt => true | _ => false end.

(* sorted(kwargs.items()): names are unique in a dict, so only names are ever compared. *)
Definition order_items (sorted : bool) (kw : kwargs_t) : kwargs_t :=
  if sorted then sort_stable (fun a b => name_ltb (fst a) (fst b)) kw else kw.

Definition item_flat (it : list Z * el) : list el := [EStr (fst it); snd it].

(* DjangoCache timeouts: the DEFAULT_TIMEOUT sentinel, None, or a number of clock ticks. *)
Inductive dj_timeout := DjDefault | DjNone | DjNum (t : Z).
