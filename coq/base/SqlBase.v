(* The Cache table as data, and the relational combinators that the SQL statements of core.py are
   compiled to (gen/Gen_Sql.v).  Hand-written model of SQLite behaviour (trusted base; validated by the
   row-level correspondence of C03/C04/C08/C09/C10 on every run):
   - a table is a list of rows in ascending rowid;
   - WHERE keeps the rows whose three-valued condition is true;
   - ORDER BY is a stable sort of that list, so ties come back in ascending rowid (descending for DESC,
     which SQLite serves by scanning the index backwards);
   - times are Z ticks of 2^-10 s (the harness keeps clock and ttl values on that grid). *)
From DC Require Import DCPrelude Val.

Record row := {
  rowid : Z; rkey : sqlval; rraw : bool;
  store_time : Z; expire_time : option Z; access_time : Z; access_count : Z;
  rtag : sqlval; rsize : Z; rmode : Z; rfile : option Z; rvalue : sqlval
}.

Inductive policy := PNone | PLRS | PLRU | PLFU.

Definition b2z (b : bool) : Z := if b then 1 else 0.

(* comparisons on NOT NULL integer columns *)
Definition tvz_eq (a b : Z) : tv := Some (a =? b).
Definition tvz_ne (a b : Z) : tv := Some (negb (a =? b)).
Definition tvz_lt (a b : Z) : tv := Some (a <? b).
Definition tvz_gt (a b : Z) : tv := Some (a >? b).
Definition tvz_le (a b : Z) : tv := Some (a <=? b).
Definition tvz_ge (a b : Z) : tv := Some (a >=? b).
(* comparisons on a nullable time column *)
Definition tvo (f : Z -> Z -> bool) (a : option Z) (b : Z) : tv :=
  match a with None => None | Some x => Some (f x b) end.
Definition tvo_eq := tvo Z.eqb.
Definition tvo_ne := tvo (fun x y => negb (x =? y)).
Definition tvo_lt := tvo Z.ltb.
Definition tvo_gt := tvo Z.gtb.
Definition tvo_le := tvo Z.leb.
Definition tvo_ge := tvo Z.geb.

Definition mem_rowid (i : Z) (sel : list row) : bool := existsb (fun r => rowid r =? i) sel.

Definition rcmp := row -> row -> comparison.
Definition ord_z (f : row -> Z) : rcmp := fun a b => Z.compare (f a) (f b).
Definition ord_sql (f : row -> sqlval) : rcmp := fun a b => sql_cmp (f a) (f b).
Definition ord_bool (f : row -> bool) : rcmp := fun a b => Z.compare (b2z (f a)) (b2z (f b)).
Definition optz_compare (a b : option Z) : comparison :=
  match a, b with
  | None, None => Eq | None, Some _ => Lt | Some _, None => Gt | Some x, Some y => Z.compare x y
  end.
Definition ord_optz (f : row -> option Z) : rcmp := fun a b => optz_compare (f a) (f b).
Fixpoint lex_rcmp (ks : list rcmp) (a b : row) : comparison :=
  match ks with
  | [] => Eq
  | k :: r => match k a b with Eq => lex_rcmp r a b | c => c end
  end.

Definition sql_order (desc : bool) (ks : list rcmp) (t : list row) : list row :=
  let sorted := sort_stable (fun a b => c_lt (lex_rcmp ks a b)) t in
  if desc then rev sorted else sorted.

Definition sql_limit (n : Z) (t : list row) : list row :=
  if n <? 0 then t else take (Z.to_nat n) t.

Fixpoint max_opt (l : list Z) : option Z :=
  match l with
  | [] => None
  | x :: r => match max_opt r with None => Some x | Some m => Some (Z.max x m) end
  end.

(* next INTEGER PRIMARY KEY: max(rowid)+1, 1 for an empty table *)
Definition next_rowid (t : list row) : Z :=
  match max_opt (map rowid t) with None => 1 | Some m => m + 1 end.
