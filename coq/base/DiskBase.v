(* Vocabulary for the Disk codec (core.py Disk.put/get/store/fetch/hash/_write): the generated
   decision trees (gen/Gen_Disk.v) produce these plans; model/Disk.v interprets them against the
   file-content semantics below.  POSIX text-mode semantics (os.linesep = "\n"). *)
From DC Require Import DCPrelude Val.

(* the newline= argument of open() *)
Inductive nlarg := NLNone | NLEmpty | NLLF | NLCR | NLCRLF.
(* mode string of open(), reduced to what matters *)
Inductive omode := OM_xb | OM_x | OM_wb | OM_w | OM_rb | OM_r | OM_other.
Definition om_exclusive m := match m with OM_xb | OM_x => true | _ => false end.
Definition om_binary m := match m with OM_xb | OM_wb | OM_rb => true | _ => false end.

(* how the `size` column is computed *)
Inductive szexpr := SzZero | SzLenValue | SzLenResult | SzGetsize | SzWritten.

(* what Disk.store decides *)
Inductive store_plan :=
| PlanInline (mode : Z) (col : pyval)                          (* (0, mode, None, col) *)
| PlanBytesFile (mode : Z) (sz : szexpr) (om : omode) (b : list Z)   (* bytes written through _write *)
| PlanTextFile (mode : Z) (sz : szexpr) (om : omode) (utf8 : bool) (s : list Z)
| PlanStreamFile (mode : Z) (sz : szexpr) (om : omode) (b : list Z)
| PlanRaise.                                                   (* store itself raises (not used by Disk) *)

(* what Disk.fetch decides *)
Inductive fetch_plan :=
| FRaw                                   (* the column value, blobs as bytes *)
| FReadBytes (om : omode)                (* whole file, binary *)
| FHandle (om : omode)                   (* open file handle *)
| FReadText (om : omode) (utf8 : bool) (nl : nlarg)
| FUnpickleFile (om : omode)
| FUnpickleCol
| FNone.                                 (* unknown mode: falls off the if chain, returns None *)

(* universal-newline translation performed by text-mode reads with newline=None *)
Fixpoint univ_nl (s : list Z) : list Z :=
  match s with
  | [] => []
  | 13 :: r => 10 :: match r with 10 :: r' => univ_nl r' | _ => univ_nl r end
  | c :: r => c :: univ_nl r
  end.

(* what a text-mode read returns for file content s *)
Definition read_translate (nl : nlarg) (s : list Z) : list Z :=
  match nl with NLNone => univ_nl s | _ => s end.

(* what a text-mode write stores for str s on POSIX: "\n" -> os.linesep = "\n" for None, untouched for '' and '\n' *)
Fixpoint expand_lf (rep : list Z) (s : list Z) : list Z :=
  match s with [] => [] | 10 :: r => rep ++ expand_lf rep r | c :: r => c :: expand_lf rep r end.
Definition write_translate (nl : nlarg) (s : list Z) : list Z :=
  match nl with NLCR => expand_lf [13] s | NLCRLF => expand_lf [13; 10] s | _ => s end.

(* a value file: bytes, or text kept as code points (UTF-8 itself is a codec: injective on encodable text) *)
Inductive fcontent := FBytes (b : list Z) | FText (s : list Z).
Definition fsize (c : fcontent) : Z :=
  match c with FBytes b => Z.of_nat (length b) | FText s => utf8_len s end.


(* what Disk.put decides *)
Inductive put_plan := PutBlob (raw : bool) | PutNative (raw : bool) | PutPickle (raw : bool).
(* what Disk.hash decides *)
Inductive hash_plan := HashAdlerBlob | HashAdlerUtf8 | HashIntMod | HashAdlerDouble.
