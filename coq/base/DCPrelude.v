(* Prelude: list helpers shared by every model file.  Stdlib only. *)
From Coq Require Export ZArith List Bool Lia.
Export ListNotations.
Open Scope Z_scope.

(* Lexicographic comparison of code-point / byte strings (memcmp order). *)
Fixpoint lex_cmp (a b : list Z) : comparison :=
  match a, b with
  | [], [] => Eq
  | [], _ :: _ => Lt
  | _ :: _, [] => Gt
  | x :: a', y :: b' =>
      match Z.compare x y with
      | Eq => lex_cmp a' b'
      | c => c
      end
  end.

Fixpoint list_eqb {A} (eqb : A -> A -> bool) (a b : list A) : bool :=
  match a, b with
  | [], [] => true
  | x :: a', y :: b' => eqb x y && list_eqb eqb a' b'
  | _, _ => false
  end.

Definition zlist_eqb := list_eqb Z.eqb.

Definition option_eqb {A} (eqb : A -> A -> bool) (a b : option A) : bool :=
  match a, b with
  | None, None => true
  | Some x, Some y => eqb x y
  | _, _ => false
  end.

Definition is_nil {A} (l : list A) : bool :=
  match l with [] => true | _ => false end.

Definition is_some {A} (o : option A) : bool :=
  match o with Some _ => true | None => false end.

Definition is_none {A} (o : option A) : bool := negb (is_some o).

Definition optZ_cmp (f : Z -> Z -> bool) (a : option Z) (b : Z) : bool :=
  match a with Some x => f x b | None => false end.

Fixpoint sumZ (l : list Z) : Z :=
  match l with [] => 0 | x :: r => x + sumZ r end.

Fixpoint take {A} (n : nat) (l : list A) : list A :=
  match n, l with
  | O, _ => []
  | _, [] => []
  | S n', x :: r => x :: take n' r
  end.

Fixpoint drop {A} (n : nat) (l : list A) : list A :=
  match n, l with
  | O, _ => l
  | _, [] => []
  | S n', _ :: r => drop n' r
  end.

(* Stable insertion sort by a boolean "less-or-equal". *)
Fixpoint insert_by {A} (leb : A -> A -> bool) (x : A) (l : list A) : list A :=
  match l with
  | [] => [x]
  | y :: r => if leb x y then x :: l else y :: insert_by leb x r
  end.

(* Inserting AFTER equal elements keeps the sort stable. *)
Fixpoint insert_stable {A} (ltb : A -> A -> bool) (x : A) (l : list A) : list A :=
  match l with
  | [] => [x]
  | y :: r => if ltb x y then x :: l else y :: insert_stable ltb x r
  end.

Definition sort_stable {A} (ltb : A -> A -> bool) (l : list A) : list A :=
  fold_left (fun acc x => insert_stable ltb x acc) l [].
