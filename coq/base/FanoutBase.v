(* Vocabulary of the FanoutCache delegation table (fanout.py).  Hand-written; the table itself, the shard
   index expressions, the size-limit arithmetic, the shard directory format and the aggregate folds are
   regenerated into gen/Gen_Fanout.v by tools/emit_fanout.py; model/Fanout.v interprets them. *)
From DC Require Import DCPrelude.

(* methods of Cache that FanoutCache calls on a shard (operator forms are methods of their own) *)
Inductive cmeth :=
| CSet | CSetItem | CTouch | CAdd | CIncr | CDecr | CGet | CGetItem | CContains | CPop | CDelete | CDelItem
| CCheck | CExpire | CEvict | CCull | CClear | CStats | CVolume | CLen | CIter | CReversed | CTransact
| CCreateTagIndex | CDropTagIndex | CClose | CReset.

(* public methods of FanoutCache that touch the shards *)
Inductive fmeth :=
| MSet | MSetItem | MTouch | MAdd | MIncr | MDecr | MGet | MGetItem | MRead | MContains | MPop | MDelete | MDelItem
| MCheck | MExpire | MEvict | MCull | MClear | MStats | MVolume | MLen | MIter | MReversed | MTransact
| MCreateTagIndex | MDropTagIndex | MClose | MReset.

(* parameters of the callee *)
Inductive cparam :=
| PKey | PValue | PExpire | PRead | PTag | PRetry | PDefault | PDelta | PExpireTime | PFix | PNow | PEnable | PReset.

(* expressions FanoutCache passes: its own parameters, literals, ENOVAL, time.time() *)
Inductive farg :=
| AKey | AValue | AExpire | ARead | ATag | ARetry | ADefault | ADelta | AExpireTime | AFix | AEnable | AReset
| ATrue | AFalse | APyNone | AEnoval | ANowCall.

(* exception classes named in an `except` clause *)
Inductive exn := ETimeout | EOperationalError.

(* what the handler returns *)
Inductive onexc := RetFalse | RetTrue | RetNone | RetZero | RetDefault.

(* which shards an aggregate method ranges over, in which order *)
Inductive shard_range := AllForward | AllBackward.
(* direction in which one shard is iterated *)
Inductive each_dir := EachForward | EachBackward.
(* component of the (hits, misses) pair *)
Inductive proj := PFst | PSnd.
(* what `_remove` adds to the total when a shard call raises Timeout *)
Inductive partial := PartialArg0 | PartialNothing.

(* one key-addressed method: `index = <fd_index>; shard = self._shards[index]; [try:] return shard.<fd_callee>(<fd_bind>)
   [except <fd_catch>: return <fd_on_exc>]` *)
Record fdeleg := {
  fd_index : Z -> Z -> Z;           (* shard index as a function of self._hash(key) and self._count *)
  fd_callee : cmeth;
  fd_bind : list (cparam * farg);   (* callee parameter := argument; positional arguments resolved against the
                                       callee's signature in core.py, in call order *)
  fd_retry : option bool;           (* default of `retry` in the FanoutCache signature; None = no such parameter *)
  fd_catch : list exn;              (* [] = no try/except around the call *)
  fd_on_exc : option onexc
}.

(* sum(<as_meth>(shard) for shard in <as_shards>) *)
Record agg_sum := { as_meth : cmeth; as_shards : shard_range }.
(* stats: results = [shard.stats(<st_bind>) for shard in <st_shards>]; (sum of st_hits, sum of st_misses) *)
Record agg_stats := { st_shards : shard_range; st_bind : list (cparam * farg); st_hits : proj; st_misses : proj }.
(* check: reduce(iadd, (shard.check(<ck_bind>) for shard in <ck_shards>), []) -- no except clause *)
Record agg_check := { ck_shards : shard_range; ck_bind : list (cparam * farg) }.
(* _remove: for shard in <rm_shards>: loop { try: total += method(<args>, retry=retry) except Timeout as t: total += <rm_partial>
   else: break } *)
Record remove_loop_t := { rm_shards : shard_range; rm_resumes : bool; rm_partial : partial; rm_passes_retry : bool }.
(* expire/evict/cull/clear: return self._remove(<ar_meth>, args=<ar_bind>, retry=retry) *)
Record agg_remove := { ar_meth : cmeth; ar_bind : list (cparam * farg); ar_retry : option bool }.
(* __iter__/__reversed__: chain.from_iterable(<it_each>(shard) for shard in <it_shards>) *)
Record agg_iter := { it_shards : shard_range; it_each : each_dir }.
(* transact: enter shard.transact(retry=<tx_retry>) for every shard of <tx_shards>, then yield *)
Record agg_transact := { tx_shards : shard_range; tx_retry : bool; tx_asserts_retry : bool }.

Definition exn_eqb (a b : exn) : bool :=
  match a, b with ETimeout, ETimeout | EOperationalError, EOperationalError => true | _, _ => false end.

Definition cparam_eqb (a b : cparam) : bool :=
  match a, b with
  | PKey, PKey | PValue, PValue | PExpire, PExpire | PRead, PRead | PTag, PTag | PRetry, PRetry
  | PDefault, PDefault | PDelta, PDelta | PExpireTime, PExpireTime | PFix, PFix | PNow, PNow
  | PEnable, PEnable | PReset, PReset => true
  | _, _ => false
  end.

Fixpoint bound (p : cparam) (b : list (cparam * farg)) : option farg :=
  match b with [] => None | (q, a) :: r => if cparam_eqb p q then Some a else bound p r end.

Definition catches (e : exn) (d : fdeleg) : bool := existsb (exn_eqb e) (fd_catch d).
