(* Vocabulary for Cache.check / FanoutCache.check (C17): what the generated file gen/Gen_Check.v talks
   about.  Hand-written, stdlib only.  model/Check.v interprets it. *)
From DC Require Import DCPrelude.

(* A file below the cache directory.  f_id: canonical name (the harness numbers relative paths);
   f_size: os.path.getsize; f_db: `DBNAME in full_path` holds for it (cache.db-wal, cache.db-shm, ...). *)
Record file := { f_id : Z; f_size : Z; f_db : bool }.

(* `DBNAME in full_path`: the only thing the code asks about a path besides set membership *)
Inductive dbname_t := DBNAME.
Definition path_has (p : file) (_ : dbname_t) : bool := f_db p.

(* the directory tree below the cache directory, value files live at depth 2 (xx/yy/name.val) *)
Record dir2 := { d2_id : Z; d2_files : list file }.
Record dir1 := { d1_id : Z; d1_files : list file; d1_subs : list dir2 }.
Record fs := { root_files : list file; root_subs : list dir1 }.

(* the database file: always present in the cache directory (check() runs through a connection to it),
   never touched, matched by `DBNAME in full_path` *)
Definition db_file : file := {| f_id := 0; f_size := 0; f_db := true |}.

(* what is bound to `size = ?` in the row repair *)
Inductive size_src := SrcRealSize | SrcRowSize.
(* SQL executed to repair a row *)
Inductive row_repair :=
| RowSetSize (v : size_src)    (* UPDATE Cache SET size = ? WHERE rowid = ? *)
| RowDelete                    (* DELETE FROM Cache WHERE rowid = ? *)
| RowNone.
(* file-system call executed to repair the directory tree *)
Inductive fs_repair := FsRemoveFile | FsRmdir | FsRemovedirs | FsNone.
Inductive ctr := CCount | CSize.
(* what is bound to `value = ?` in the counter repair: the recomputed aggregate or the stale attribute *)
Inductive ctr_src := SrcCounted | SrcStored.
Inductive ctr_repair := CtrSet (which : ctr) (v : ctr_src) | CtrNone.
Inductive walk_order := TopDown | BottomUp.
(* the five passes of Cache.check inside its transaction *)
Inductive pass := PassRows | PassUnknown | PassEmpty | PassCount | PassSize.

Definition pass_eqb (a b : pass) : bool :=
  match a, b with
  | PassRows, PassRows | PassUnknown, PassUnknown | PassEmpty, PassEmpty
  | PassCount, PassCount | PassSize, PassSize => true
  | _, _ => false
  end.
