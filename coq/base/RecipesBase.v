(* Vocabulary for recipes.py (Lock, RLock, BoundedSemaphore, Averager, throttle, barrier): the atomic
   layer's view of ONE cache key.  The shared state of a recipe is `option V` (absent / stored value);
   each function below is the effect of one atomic Cache operation on that key.  That the real
   operations (and `with cache.transact(retry=True)` blocks) are atomic is what properties C05/C06
   provide; here it is an assumption.  Hand-written; the recipe-specific guards, stored values,
   defaults and the names of the cache methods called are regenerated into gen/Gen_Recipes.v. *)
From Coq Require Import QArith.
From DC Require Import DCPrelude.
Local Open Scope Z_scope.

(* the Cache methods a recipe may call on its key *)
Inductive cache_op := OpAdd | OpSet | OpDelete | OpGet | OpPop | OpContains.

Definition cache_op_eqb (a b : cache_op) : bool :=
  match a, b with
  | OpAdd, OpAdd | OpSet, OpSet | OpDelete, OpDelete | OpGet, OpGet | OpPop, OpPop
  | OpContains, OpContains => true
  | _, _ => false
  end.

Section Key.
  Context {V : Type}.
  (* Cache.add: stores only when absent; returns whether it stored *)
  Definition k_add (v : V) (s : option V) : option V * bool :=
    match s with None => (Some v, true) | Some _ => (s, false) end.
  (* Cache.set: always stores, returns True *)
  Definition k_set (v : V) (s : option V) : option V * bool := (Some v, true).
  (* Cache.get(key, default) *)
  Definition k_get (d : V) (s : option V) : V := match s with Some v => v | None => d end.
  Definition k_contains (s : option V) : bool := is_some s.

  (* a storing call, by the name of the method the source uses *)
  Definition k_store (o : cache_op) (v : V) (s : option V) : option V * bool :=
    match o with OpAdd => k_add v s | OpSet => k_set v s | _ => (s, false) end.
  (* a removing call (delete, or pop with the result dropped) *)
  Definition k_remove (o : cache_op) (s : option V) : option V :=
    match o with OpDelete | OpPop => None | _ => s end.
  (* a reading call: value seen (with default) and the state left behind *)
  Definition k_read (o : cache_op) (d : V) (s : option V) : V * option V :=
    match o with OpPop => (k_get d s, None) | _ => (k_get d s, s) end.
End Key.

Definition optZ_eqb (a b : option Z) : bool := option_eqb Z.eqb a b.

(* one statement kind of a barrier-wrapped call *)
Inductive bstep := BEnter | BCall | BExit.

(* rationals: strict comparison as a boolean *)
Definition Qltb (a b : Q) : bool := negb (Qle_bool b a).
